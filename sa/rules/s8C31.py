"""C31, round 8 — C31-ARGSFIRST: a class pattern asks the class for `__match_args__` first; "match self" by type flag is only the fallback.

CPython's match_class(): `__match_args__` is looked up on the pattern class; only when the attribute is ABSENT does the (inherited!) type flag
_Py_TPFLAGS_MATCH_SELF decide that the single positional sub-pattern is matched against the subject itself.  A subclass of tuple / str / int / dict / ...
that defines `__match_args__` (every one-field namedtuple) inherits the flag, so consulting the flag before, or in spite of, the attribute changes which
value is bound and which TypeErrors are raised.

Decided for every helper of MatchCase.c that has a tri-state parameter V (compared with -1: 1 = match-self known at compile time, 0 = known not,
-1 = decide at run time) and a pointer local M that receives the result of a `__match_args__` lookup, on every path of every #if variant
(rules/pC17.Explorer; out-parameters `&M` are made visible as writes; paths whose facts about V / M contradict each other are dropped), with value sets
for V (entry value and current value) and the three-valued state of M (not looked up / found / absent):
  flag      V is assigned from a run-time test of the type (tp_flags / PyType_HasFeature / PyType_IsSubtype) only after the lookup was made and came back absent;
  skipped   when V is first used as a truth value and the lookup was not made, the entry value of V is 1 (the compiler proved match-self) on that path;
  found     when V is first used as a truth value and the lookup found the attribute, V is 0;
  receiver  the object asked for `__match_args__` is the object whose type flags are tested (the pattern class, through local aliases / casts).
"""
import re

from ..core import Rule, AnalysisError
from . import sC31
from .sC31 import CFILE, WORD, CDeclMock, c_funcs, explore, timeline, strip_casts, pointer_locals

ATTR = '__match_args__'
FLAG_TEST = re.compile(r'TPFLAGS|PyType_HasFeature|PyType_IsSubtype|PyType_GetFlags|PyType_FastSubclass|tp_flags')


def expose_out_params(body, names):
    """`if (F(a, b, &M) == -1)` -> `M = __pyx_out_F(a, b); if (F(a, b, &M) == -1)`: the Explorer treats M as unchanged by a call that only gets its address"""
    out = body
    for name in names:
        pos = 0
        while True:
            m = re.search(r'&\s*%s\s*\)' % re.escape(name), out[pos:])
            if not m:
                break
            at = pos + m.start()
            # the call this argument belongs to: scan back to the matching '('
            depth, k = 0, at - 1
            while k >= 0:
                c = out[k]
                if c == ')':
                    depth += 1
                elif c == '(':
                    if depth == 0:
                        break
                    depth -= 1
                k -= 1
            if k < 0:
                raise AnalysisError('unbalanced call around &%s' % name)
            fm = re.search(r'(%s)\s*$' % WORD, out[:k])
            if not fm:
                pos = at + m.end() - m.start()
                continue
            callee = fm.group(1)
            args = out[k + 1:at].rstrip().rstrip(',')
            # start of the enclosing statement
            s = max(out.rfind(';', 0, fm.start()), out.rfind('{', 0, fm.start()), out.rfind('}', 0, fm.start()), out.rfind('\n#', 0, fm.start()))
            if out[s] == '\n':
                s = out.find('\n', s + 1)
            ins = ' %s = __pyx_out_%s(%s); ' % (name, callee, ' '.join(args.split()))
            out = out[:s + 1] + ins + out[s + 1:]
            pos = at + len(ins) + (m.end() - m.start())
    return out


def candidates(d):
    """-> (tri-state parameters, lookup-result locals) of one helper"""
    body = strip_casts(d.body)
    if ATTR not in body:
        return set(), set()
    try:
        params = set(d.param_names()) if hasattr(d, 'param_names') else set()
    except Exception:
        params = set()
    if not params:
        params = {re.search(r'(%s)\s*(?:\[[^\]]*\])?\s*$' % WORD, p).group(1) for p in (d.params or []) if re.search(WORD, p)}
    tri = set(re.findall(r'(?<![\w>.])(%s)\s*[!=]=\s*-\s*1\b' % WORD, body)) & params
    ptrs = pointer_locals(d.body)
    res = set()
    for v in ptrs:
        if re.search(r'(?<![\w>.])%s\s*=(?!=)[^;]*%s' % (re.escape(v), ATTR), body) or re.search(r'\([^;]*%s[^;]*&\s*%s\s*\)' % (ATTR, re.escape(v)), body):
            res.add(v)
    return tri, res


def _aliases(items, upto=None):
    """local -> the identifier it was copied from (`type = type_o` after cast stripping)"""
    al = {}
    for it in items:
        if it[0] == 'write' and isinstance(it[2], tuple) and it[2][0] == '=' and re.fullmatch(WORD, (it[2][1] or '').strip()):
            al[it[1]] = it[2][1].strip()
    return al


def _root(name, al):
    seen = set()
    while name in al and name not in seen:
        seen.add(name)
        name = al[name]
    return name


def path_problems(items, V, M, exit_=None):
    """one path -> (class of the decision path or None if infeasible / no decision, [(kind, message)])"""
    entry = {1, 0, -1}       # values the parameter can have had on entry
    dom = None               # current value set once V was written ('flag' = result of the type test)
    looked = False
    mstate = {'absent'}      # before the lookup the local is NULL
    receiver = None
    flag_obj = None
    problems = []
    decided = None
    flag_locals = {}
    al = _aliases(items)
    items = list(items)

    def decide():
        # V is used as the match-self decision (a read that is not one side of a comparison with a constant)
        nonlocal decided
        if decided is not None:
            return
        cur = dom if dom is not None else entry
        decided = (tuple(sorted(entry, key=str)), looked, tuple(sorted(mstate)))
        if not looked and (entry - {1}):
            problems.append(('lookup-skipped', '`%s` is used as the match-self decision on a path on which `%s` was not looked up although the compiler did not '
                             'prove match-self (`%s` can be %s on entry)' % (V, ATTR, V, ' / '.join(str(x) for x in sorted(entry - {1})))))
        if looked and mstate == {'found'} and cur != {0}:
            problems.append(('args-ignored', '`%s` found, but `%s` is not 0 when it is used as the match-self decision (it can be %s): the attribute is ignored'
                             % (ATTR, V, ' / '.join(str(x) for x in sorted(cur, key=str)))))
    for idx, it in enumerate(items):
        if it[0] == 'read' and it[1] == V:
            nxt = items[idx + 1] if idx + 1 < len(items) else None
            if not (nxt and nxt[0] == 'fact' and re.fullmatch(r'\(%s == -?\d+\)' % re.escape(V), nxt[1] or '')):
                decide()
            continue
        if it[0] == 'write' and it[1] == M:
            rhs = it[2][1] if isinstance(it[2], tuple) and it[2][0] == '=' else ''
            if ATTR in (rhs or ''):
                looked = True
                mstate = {'found', 'absent'}
                mm = re.match(r'\s*%s\s*\(\s*(%s)' % (WORD, WORD), rhs)
                receiver = mm.group(1) if mm else None
            elif (rhs or '').strip() in ('NULL', '0'):
                mstate = {'absent'}
            else:
                mstate = {'found', 'absent'}
        elif it[0] == 'write' and it[1] != V and it[1] != M and isinstance(it[2], tuple) and it[2][0] == '=':
            # a local that holds the result of the type test (`int has_flag = PyType_HasFeature(...)`)
            if FLAG_TEST.search(it[2][1] or ''):
                flag_locals[it[1]] = it[2][1]
                mm = re.search(r'(?:PyType_HasFeature|PyType_GetFlags|PyType_IsSubtype|PyType_FastSubclass)\s*\(\s*(%s)' % WORD, it[2][1])
                flag_obj = mm.group(1) if mm else flag_obj
            else:
                flag_locals.pop(it[1], None)
        elif it[0] == 'write' and it[1] == V:
            rhs = (it[2][1] if isinstance(it[2], tuple) and it[2][0] == '=' else '') or ''
            if re.fullmatch(r'\s*-?\d+\s*', rhs):
                dom = {int(rhs)}
            elif FLAG_TEST.search(rhs) or rhs.strip() in flag_locals:
                mm = re.search(r'(?:PyType_HasFeature|PyType_GetFlags|PyType_IsSubtype|PyType_FastSubclass)\s*\(\s*(%s)' % WORD, rhs)
                flag_obj = mm.group(1) if mm else flag_obj
                if decided is None:
                    if not looked:
                        problems.append(('flag-before-args', '`%s` is decided from the type flags (%s) before `%s` was looked up' % (V, ' '.join(rhs.split())[:60], ATTR)))
                    elif mstate != {'absent'}:
                        problems.append(('flag-despite-args', '`%s` is decided from the type flags (%s) on a path on which the `%s` lookup may have found the attribute'
                                         % (V, ' '.join(rhs.split())[:60], ATTR)))
                dom = {'flag'}
            else:
                return 'unmodelled:' + ' '.join(rhs.split())[:40], []
        elif it[0] == 'fact' and isinstance(it[2], bool):
            txt = it[1] or ''
            m = re.fullmatch(r'\((%s) == (-?\d+)\)' % WORD, txt)
            if m and m.group(1) == V:
                c = int(m.group(2))
                if dom is None:
                    entry = (entry & {c}) if it[2] else (entry - {c})
                    if not entry:
                        return None, []
                elif 'flag' not in dom:
                    dom = (dom & {c}) if it[2] else (dom - {c})
                    if not dom:
                        return None, []
            elif txt == M or txt == '(%s != NULL)' % M or txt == '(%s == NULL)' % M:
                truth = it[2] if txt != '(%s == NULL)' % M else not it[2]
                mstate = mstate & ({'found'} if truth else {'absent'})
                if not mstate:
                    return None, []
            elif txt == V:
                decide()
                # refine
                if dom is None:
                    entry = (entry - {0}) if it[2] else (entry & {0})
                    if not entry:
                        return None, []
                elif 'flag' not in dom:
                    dom = (dom - {0}) if it[2] else (dom & {0})
                    if not dom:
                        return None, []
    if decided is None and dom is not None and 'flag' not in dom and not (exit_ and exit_[0] == 'return' and re.fullmatch(r'\(?\s*-\s*1\s*\)?', (exit_[1] or '').strip())):
        # the Explorer folds `if (V)` when V holds a constant it has just been given: no read event; the decision is taken with that constant
        decide()
    if decided is not None and receiver and flag_obj and _root(receiver, al) != _root(flag_obj, al):
        problems.append(('receiver', '`%s` is looked up on `%s`, the type flags are tested on `%s`: two different objects' % (ATTR, receiver, flag_obj)))
    return decided, problems


def function_problems(d):
    """-> ({decision class}, {kind: message}, notes)"""
    tri, res = candidates(d)
    if not tri or not res:
        return None
    body = expose_out_params(d.body, res)
    results, notes = explore(body)
    if not results:
        raise AnalysisError('%s: no variant of the helper could be explored (%s)' % (d.name, '; '.join(notes)[:200]))
    classes, problems, unmodelled = set(), {}, set()
    for V in sorted(tri):
        for M in sorted(res):
            for ch, paths in results:
                for state, ex in paths:
                    cls, pbs = path_problems(timeline(state), V, M, ex)
                    if isinstance(cls, str):
                        unmodelled.add(cls)
                        continue
                    if cls is None:
                        continue
                    classes.add((V, M) + cls)
                    for kind, msg in pbs:
                        problems.setdefault((V, kind), msg)
    return classes, problems, notes, unmodelled


_BAD_SEED = ('{ PyObject *m = NULL; PyTypeObject *t = to; if (ms == -1) { ms = PyType_HasFeature(t, _Py_TPFLAGS_MATCH_SELF); } '
             'if (ms != 1) { m = PyObject_GetAttr(to, PYIDENT("__match_args__")); if (!m) { PyErr_Clear(); } } if (m) { ms = 0; } if (ms) { return 1; } return 0; }')
_BAD_SKIP = ('{ PyObject *m = NULL; PyTypeObject *t = to; if (ms == -1) { m = PyObject_GetAttr(to, PYIDENT("__match_args__")); if (!m) { PyErr_Clear(); } } '
             'if (m) { ms = 0; } else if (!m && ms == -1) { ms = PyType_HasFeature(t, _Py_TPFLAGS_MATCH_SELF); } if (ms) { return 1; } return 0; }')
_GOOD = ('{ PyObject *m = NULL; PyTypeObject *t = to; if (ms != 1) { if (PyObject_GetOptionalAttr(to, PYIDENT("__match_args__"), &m) == -1) { return -1; } } '
         'if (m) { ms = 0; } else if (!m && ms == -1) { ms = PyType_HasFeature(t, _Py_TPFLAGS_MATCH_SELF); } if (ms) { return 1; } return 0; }')


def rule_argsfirst(ctx, floor=3):
    r = Rule('C31-ARGSFIRST', 'class patterns: `__match_args__` is looked up on the pattern class before, and overrides, the "match self" type flag; the lookup is skipped only '
             'when the compiler proved match-self (value sets of the tri-state and of the lookup result along every path of every #if variant)', floor)
    rel = 'Cython/Utility/' + CFILE
    n = 0
    for d in c_funcs(ctx):
        got = function_problems(d)
        if got is None:
            continue
        n += 1
        classes, problems, notes, unmodelled = got
        for c in sorted(classes, key=str):
            r.inst('%s:%s:%s' % (CFILE, d.name, ':'.join(str(x) for x in c)),
                   sample='%s: decision on %s with entry values %s, lookup %s, result %s' % (d.name, c[0], c[2], 'made' if c[3] else 'not made', '/'.join(c[4])))
        for (V, kind), msg in sorted(problems.items()):
            r.violate('%s:%s:%s:%s' % (CFILE, d.name, V, kind), rel, d.line,
                      '%s: %s — CPython asks the class for %s first and falls back to the type flag only when it is absent; a subclass of tuple / str / int / dict / ... '
                      'that defines %s (e.g. a one-field namedtuple) is otherwise matched against itself, and its TypeErrors are lost' % (d.name, msg, ATTR, ATTR))
        for u in sorted(unmodelled):
            r.info('%s: %s' % (d.name, u))
        if notes:
            r.info('%s: %d variant(s) not explored' % (d.name, len(notes)))
    if not n:
        raise AnalysisError('no helper of %s pairs a tri-state parameter with a %s lookup' % (CFILE, ATTR))
    pb1 = function_problems(CDeclMock('f', ['PyObject *to', 'int ms'], _BAD_SEED))[1]
    pb2 = function_problems(CDeclMock('f', ['PyObject *to', 'int ms'], _BAD_SKIP))[1]
    good = function_problems(CDeclMock('f', ['PyObject *to', 'int ms'], _GOOD))
    r.positive_control(('ms', 'flag-before-args') in pb1 and ('ms', 'lookup-skipped') in pb2 and not good[1] and len(good[0]) >= 4,
                       'flag consulted before the lookup / lookup skipped for entry value 0 recognised; the out-parameter form of the correct order is silent '
                       '(got %r / %r / %r)' % (sorted(pb1), sorted(pb2), sorted(good[1])))
    return r
