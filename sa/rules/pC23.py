"""C23 — generator/coroutine run-state typestate on clang's CFG (rule S1 of DESIGN.md §3) and yield-label agreement.

clang is used as a *parser only*: a translation unit is assembled from the utility sections of Coroutine.c and
AsyncGen.c (transitive `@requires` closure, prototypes first, module-state struct synthesised from the
`module_state_decls` parts), preceded by a prelude that defines the loader's pseudo-macros; clang's analyzer front end
is asked for nothing but `debug.DumpCFG` (all checkers off).  Nothing is compiled to code, nothing is executed.

Every function that takes part in the `is_running` protocol is copied to the end of the unit once per combination of
the `#if` conditions that occur inside it (the conditionals are resolved by a small evaluator in this file, so that
configurations other than the one of the installed CPython headers are covered as well); the typestate runs on the CFG
of every copy.
"""
import ast
import itertools
import os
import re
import subprocess
import tempfile

from ..core import Rule, AnalysisError, node_src
from ..engine import tables
from ..engine.cutil import match_paren

FILES = ('Coroutine.c', 'AsyncGen.c')
TEST = '__Pyx_Coroutine_test_and_set_is_running'
UNSET = '__Pyx_Coroutine_unset_is_running'
GET = '__Pyx_Coroutine_get_is_running'
FIELD = 'is_running'
VPFX = '__pyxS1v'          # prefix of the per-configuration copies
CPFX = '__pyxS1c_'         # prefix of the embedded controls
MAX_COMBOS = 4096

# sections of ModuleSetupCode.c that every generated module starts with (ModuleNode.generate_module_preamble) and the
# support sections their macros refer to; a missing one is tolerated here and judged by clang (errors => ANALYSIS-ERROR)
PREAMBLE = ('InitLimitedAPI', 'CModulePreamble', 'CInitCode', 'PythonCompatibility', 'MathInitCode', 'SmallCodeConfig',
            'PretendToInitialize')
SUPPORT = ('FastTypeChecks', 'GetRuntimeVersion', 'CodeObjectCache', 'Refnanny', 'NewCodeObj', 'AddModuleRef', 'FastGil', 'NoFastGil')

PRELUDE = r'''#define PY_SSIZE_T_CLEAN
#include <Python.h>
#include "structmember.h"
#include <stdint.h>
#include <stddef.h>
#define PYIDENT(s) ((PyObject*)0)
#define PYUNICODE(s) ((PyObject*)0)
#define EMPTY(t) ((PyObject*)0)
#define CGLOBAL(n) (__pyx_mstate_global->n)
#define NAMED_CGLOBAL(n) (__pyx_mstate_global->NAMED_##n)
#define CALL_UNBOUND_METHOD(...) ((PyObject*)0)
#define CALL_UNBOUND_METHOD_TYPEPTR(...) ((PyObject*)0)
#define __Pyx_MODULE_NAME "m"
#define CYTHON_SMALL_CODE
typedef struct { unsigned int argcount, num_posonly_args, num_kwonly_args, nlocals, flags, first_line; } __Pyx_PyCode_New_function_description;
static PyObject *__pyx_m;
#define __PYX_TYPE_MODULE_PREFIX "m."
#define __PYX_ABI_MODULE_NAME "_cython_x"
#define __PYX_ABI_VERSION "x"
#define CYTHON_HEX_VERSION 0x030300F0
#define CYTHON_FUTURE_DIVISION 1
'''


# ====================================================================================================================
# 1. translation unit
# ====================================================================================================================
def naming_values(ctx):
    def build():
        tree = ctx.parse('Cython/Compiler/Naming.py')
        env = {}

        def ev(n):
            if isinstance(n, ast.Constant) and isinstance(n.value, str):
                return n.value
            if isinstance(n, ast.Name):
                return env.get(n.id)
            if isinstance(n, ast.BinOp) and isinstance(n.op, ast.Add):
                a, b = ev(n.left), ev(n.right)
                return None if a is None or b is None else a + b
            if isinstance(n, ast.Call) and isinstance(n.func, ast.Attribute) and n.func.attr == 'upper' and not n.args:
                a = ev(n.func.value)
                return a.upper() if a is not None else None
            return None
        for s in tree.body:
            if isinstance(s, ast.Assign) and len(s.targets) == 1 and isinstance(s.targets[0], ast.Name):
                v = ev(s.value)
                if v is not None:
                    env[s.targets[0].id] = v
        if len(env) < 50:
            raise AnalysisError('Naming.py: only %d constants resolved' % len(env))
        return env
    return ctx.memo('pC23.naming', build)


def branch_macros(ctx):
    """The definition of likely()/unlikely() that ModuleNode writes into every module (Nodes.branch_prediction_macros)."""
    txt = ctx.read('Cython/Compiler/Nodes.py')
    for m in re.finditer(r'^[ \t]*branch_prediction_macros[ \t]*=[ \t]*(\"\"\".*?\"\"\"|\'\'\'.*?\'\'\')', txt, re.M | re.S):
        try:
            val = ast.literal_eval(m.group(1))
        except (ValueError, SyntaxError):
            continue
        if isinstance(val, str) and re.search(r'#\s*define\s+unlikely\(', val) and re.search(r'#\s*define\s+likely\(', val):
            return val
    raise AnalysisError('Nodes.branch_prediction_macros (definition of likely/unlikely) not found')


def assemble_tu(ctx, appended):
    """-> C text: prelude, module preamble, prototypes of the section closure of FILES, module state, implementations, `appended`."""
    cat = ctx.cat
    nam = naming_values(ctx)
    for f in FILES:
        if f not in cat.files or not cat.files[f]:
            raise AnalysisError('utility file %s has no sections' % f)
    setup = cat.files.get('ModuleSetupCode.c')
    if not setup:
        raise AnalysisError('ModuleSetupCode.c not catalogued')

    def parts(f, n):
        return cat.files[f][n]

    order, seen = [], set()

    def need(f, n, why):
        if (f, n) in seen:
            return
        seen.add((f, n))
        if n not in cat.files.get(f, {}):
            raise AnalysisError('utility section %s::%s (required by %s) does not exist' % (f, n, why))
        for f2, n2, _ in cat.requires(f, n):
            need(f2, n2, '%s::%s' % (f, n))
        order.append((f, n))

    preamble = []
    for n in PREAMBLE:
        if n in setup:
            seen.add(('ModuleSetupCode.c', n))
            preamble.append('\n'.join(s.raw for t, s in parts('ModuleSetupCode.c', n).items() if t in ('proto', 'impl')))
    for n in SUPPORT:
        if n in setup:
            need('ModuleSetupCode.c', n, 'module preamble')
    for f in FILES:
        for n in cat.files[f]:
            need(f, n, f)

    protos, impls, decls = [], [], []
    for f, n in order:
        ps = parts(f, n)
        txt = '\n'.join(s.raw for s in ps.values())
        if '{{' in txt or 'must be compiled with a C++ compiler' in txt or re.search(r'^\s*template\s*<', txt, re.M):
            continue   # Tempita templates / C++-only sections cannot be part of a plain C unit
        for t, s in ps.items():
            if t == 'module_state_decls':
                decls.append(s.raw)
            elif t.startswith('proto') or t == 'export':
                protos.append('/* %s::%s.%s */\n%s' % (f, n, t, s.raw))
        if 'impl' in ps:
            impls.append('/* %s::%s */\n%s' % (f, n, ps['impl'].raw))

    def subst(txt):
        return re.sub(r'\$\{?(\w+)\}?', lambda m: nam.get(m.group(1), '__pyx_UNKNOWN_' + m.group(1)), txt)

    def fixnamed(txt):
        return re.sub(r'NAMED_CGLOBAL\(\s*(\w+)\s*\)', lambda m: '(__pyx_mstate_global->%s)' % nam.get(m.group(1), m.group(1)), txt)

    appended = fixnamed(subst(appended))
    proto_txt = fixnamed(subst('\n'.join(protos)))
    impl_txt = fixnamed(subst('\n'.join(impls)))
    decl_txt = subst('\n'.join(decls))
    body = proto_txt + '\n' + impl_txt + '\n' + appended
    raw_body = '\n'.join(protos) + '\n' + '\n'.join(impls)
    fields = set(re.findall(r'\bCGLOBAL\(\s*(\w+)\s*\)', body))
    fields |= {nam.get(x, x) for x in re.findall(r'NAMED_CGLOBAL\(\s*(\w+)\s*\)', raw_body)}
    fields |= set(re.findall(r'\bmstate->(\w+)', body)) | set(re.findall(r'__pyx_mstate_global->(\w+)', body))
    declared = set(re.findall(r'(\w+)\s*(?:\[[^\]]*\])?\s*;', decl_txt))
    extra = []
    for fld in sorted(fields - declared):
        ty = 'PyTypeObject *' if re.search(r'(Type|type|_ptype_\w+)$', fld) else 'PyObject *'
        extra.append('  %s%s;' % (ty, fld))
    struct = ('typedef struct __pyx_mstatetype_s {\n' + decl_txt + '\n' + '\n'.join(extra) + '\n} __pyx_mstatetype;\n'
              'static __pyx_mstatetype __pyx_mstate_global_static;\n'
              'static __pyx_mstatetype * const __pyx_mstate_global = &__pyx_mstate_global_static;\n')
    return '\n'.join([PRELUDE, branch_macros(ctx), subst('\n'.join(preamble)),
                      '#define __PYX_ERR(f_index, lineno, Ln_error) goto Ln_error;',
                      proto_txt, struct, impl_txt, '/* ---- per-configuration copies ---- */', appended, ''])


def clang_cfg(tu_text):
    """-> stderr text of `clang --analyze` restricted to debug.DumpCFG."""
    inc = tables.cpython_include()
    with tempfile.TemporaryDirectory(prefix='sa_c23_') as d:
        p = os.path.join(d, 'tu.c')
        with open(p, 'w', encoding='utf-8', errors='surrogateescape') as f:
            f.write(tu_text)
        cmd = ['clang', '--analyze', '--analyzer-no-default-checks', '-Xclang', '-analyzer-checker=debug.DumpCFG',
               '-w', '-ferror-limit=8', '-I', inc, p, '-o', os.devnull]
        try:
            r = subprocess.run(cmd, stdout=subprocess.PIPE, stderr=subprocess.PIPE, text=True, timeout=120, cwd=d)
        except (OSError, subprocess.TimeoutExpired) as e:
            raise AnalysisError('clang not runnable: %s' % e)
    errs = [ln for ln in r.stderr.split('\n') if re.search(r'\berror:', ln) and re.match(r'\S+:\d+:\d+:', ln)]
    if r.returncode != 0 or errs:
        raise AnalysisError('clang cannot parse the assembled Coroutine.c/AsyncGen.c unit (%d errors), e.g. %s'
                            % (len(errs), ' | '.join(e.split(': ', 1)[-1] for e in errs[:4]) or r.stderr[-300:]))
    return r.stderr


# ====================================================================================================================
# 2. `#if` configurations of one function
# ====================================================================================================================
DIRECTIVE = re.compile(r'^[ \t]*#[ \t]*(if|ifdef|ifndef|elif|else|endif)\b(.*)$')
TOKEN = re.compile(r'\s*(defined\b|[A-Za-z_]\w*|0[xX][0-9a-fA-F]+[uUlL]*|\d+[uUlL]*|&&|\|\||<<|>>|[<>=!]=|[<>!()+\-*/%&|^~])')


class CondParser:
    """C preprocessor expression -> tuple tree.  Leaves: ('lit', n) ('def', X) ('val', X) ('opaque', text)."""
    PREC = [('||',), ('&&',), ('|',), ('^',), ('&',), ('==', '!='), ('<', '<=', '>', '>='), ('<<', '>>'), ('+', '-'), ('*', '/', '%')]

    def __init__(self, text):
        self.text = text
        self.toks = []
        i = 0
        while i < len(text):
            if text[i:].strip() == '':
                break
            m = TOKEN.match(text, i)
            if not m:
                raise ValueError('bad token at %r' % text[i:i + 10])
            self.toks.append(m.group(1))
            i = m.end()
        self.i = 0

    def peek(self):
        return self.toks[self.i] if self.i < len(self.toks) else None

    def take(self):
        t = self.peek()
        self.i += 1
        return t

    def parse(self):
        e = self.binary(0)
        if self.peek() is not None:
            raise ValueError('trailing tokens')
        return e

    def binary(self, level):
        if level == len(self.PREC):
            return self.unary()
        left = self.binary(level + 1)
        while self.peek() in self.PREC[level]:
            op = self.take()
            right = self.binary(level + 1)
            left = ('bin', op, left, right)
        return left

    def unary(self):
        t = self.peek()
        if t in ('!', '-', '~', '+'):
            self.take()
            return ('un', t, self.unary())
        return self.primary()

    def primary(self):
        t = self.take()
        if t is None:
            raise ValueError('unexpected end')
        if t == '(':
            e = self.binary(0)
            if self.take() != ')':
                raise ValueError('missing )')
            return e
        if t == 'defined':
            if self.peek() == '(':
                self.take()
                name = self.take()
                if self.take() != ')':
                    raise ValueError('defined(')
            else:
                name = self.take()
            if not name or not re.match(r'[A-Za-z_]\w*$', name):
                raise ValueError('defined what')
            return ('def', name)
        if re.match(r'\d', t):
            return ('lit', int(re.sub(r'[uUlL]+$', '', t), 0))
        if re.match(r'[A-Za-z_]\w*$', t):
            if self.peek() == '(':       # function-like macro / __has_include(...): not evaluated
                depth, txt = 0, t
                while True:
                    x = self.take()
                    if x is None:
                        raise ValueError('unbalanced')
                    txt += x
                    depth += (x == '(') - (x == ')')
                    if depth == 0:
                        break
                return ('opaque', txt)
            return ('val', t)
        raise ValueError('unexpected %r' % t)


def parse_cond(kind, rest):
    rest = rest.strip()
    if kind in ('ifdef', 'ifndef'):
        m = re.match(r'([A-Za-z_]\w*)\s*$', rest)
        if not m:
            raise AnalysisError('malformed #%s %s' % (kind, rest))
        e = ('def', m.group(1))
        return e if kind == 'ifdef' else ('un', '!', e)
    try:
        return CondParser(rest).parse()
    except (ValueError, RecursionError):
        return ('opaque', ' '.join(rest.split()))


def cond_atoms(e, atoms):
    """atoms: leaf -> set of literals it is compared with."""
    k = e[0]
    if k in ('def', 'val', 'opaque'):
        atoms.setdefault(e, set())
    elif k == 'un':
        cond_atoms(e[2], atoms)
    elif k == 'bin':
        l, r = e[2], e[3]
        cond_atoms(l, atoms)
        cond_atoms(r, atoms)
        for a, b in ((l, r), (r, l)):
            if a[0] == 'val' and b[0] == 'lit':
                atoms[a].add(b[1])


def cond_eval(e, env):
    k = e[0]
    if k == 'lit':
        return e[1]
    if k in ('def', 'val', 'opaque'):
        return env[e]
    if k == 'un':
        v = cond_eval(e[2], env)
        return {'!': int(not v), '-': -v, '~': ~v, '+': v}[e[1]]
    op, a = e[1], cond_eval(e[2], env)
    if op == '&&':
        return int(bool(a) and bool(cond_eval(e[3], env)))
    if op == '||':
        return int(bool(a) or bool(cond_eval(e[3], env)))
    b = cond_eval(e[3], env)
    if op in ('/', '%'):
        if b == 0:
            return 0
        return int(a / b) if op == '/' else a - b * int(a / b)
    return int({'|': lambda: a | b, '^': lambda: a ^ b, '&': lambda: a & b, '==': lambda: a == b, '!=': lambda: a != b,
                '<': lambda: a < b, '<=': lambda: a <= b, '>': lambda: a > b, '>=': lambda: a >= b,
                '<<': lambda: a << min(b, 64) if b >= 0 else 0, '>>': lambda: a >> min(b, 64) if b >= 0 else 0,
                '+': lambda: a + b, '-': lambda: a - b, '*': lambda: a * b}[op]())


def cond_tree(text):
    """function text -> nested items: str (a line) | [ (cond or None, items), ... ] (one #if group)."""
    lines, buf = [], None
    for ln in text.split('\n'):
        if buf is not None:
            buf += ' ' + ln
            if not ln.rstrip().endswith('\\'):
                lines.append(buf.replace('\\', ' '))
                buf = None
            continue
        if DIRECTIVE.match(ln) and ln.rstrip().endswith('\\'):
            buf = ln.rstrip()[:-1]
            continue
        lines.append(ln)
    root = []
    stack = [root]          # stack of item lists
    groups = []             # open groups
    for ln in lines:
        m = DIRECTIVE.match(ln)
        if not m:
            stack[-1].append(ln)
            continue
        d, rest = m.group(1), m.group(2)
        rest = re.sub(r'/\*.*?\*/', ' ', rest)
        if d in ('if', 'ifdef', 'ifndef'):
            g = [(parse_cond(d, rest), [])]
            stack[-1].append(g)
            groups.append(g)
            stack.append(g[-1][1])
        elif d in ('elif', 'else'):
            if not groups:
                raise AnalysisError('#%s without #if inside a function body' % d)
            stack.pop()
            groups[-1].append((parse_cond('if', rest) if d == 'elif' else None, []))
            stack.append(groups[-1][-1][1])
        else:
            if not groups:
                raise AnalysisError('#endif without #if inside a function body')
            stack.pop()
            groups.pop()
    if groups:
        raise AnalysisError('unterminated #if inside a function body')
    return root


def tree_atoms(items, atoms):
    for it in items:
        if isinstance(it, list):
            for cond, sub in it:
                if cond is not None:
                    cond_atoms(cond, atoms)
                tree_atoms(sub, atoms)


def render(items, env, out):
    for it in items:
        if isinstance(it, str):
            out.append(it)
            continue
        for cond, sub in it:
            if cond is None or cond_eval(cond, env):
                render(sub, env, out)
                break


def atom_name(a):
    return 'defined(%s)' % a[1] if a[0] == 'def' else a[1]


def configurations(text):
    """-> [(rendered text, description of one configuration that yields it, number of configurations that yield it)], atom count"""
    tree = cond_tree(text)
    atoms = {}
    tree_atoms(tree, atoms)
    names = sorted(atoms)
    domains = []
    for a in names:
        lits = atoms[a]
        dom = sorted({v for c in lits for v in (c - 1, c, c + 1)}) if lits else [0, 1]
        domains.append(dom)
    total = 1
    for d in domains:
        total *= len(d)
    if total > MAX_COMBOS:
        raise AnalysisError('%d #if configurations inside one function (more than %d)' % (total, MAX_COMBOS))
    seen = {}
    for combo in itertools.product(*domains):
        env = dict(zip(names, combo))
        out = []
        render(tree, env, out)
        txt = '\n'.join(out)
        key = ' '.join(txt.split())
        if key in seen:
            seen[key][2] += 1
        else:
            desc = ', '.join('%s=%s' % (atom_name(a), ('%#x' % v if v > 255 else v)) for a, v in zip(names, combo)) or 'no #if inside'
            seen[key] = [txt, desc, 1]
    return [tuple(v) for v in seen.values()], len(names), total


# ====================================================================================================================
# 3. CFG dump reader
# ====================================================================================================================
B_HEAD = re.compile(r'^ \[B(\d+)(?: \(([^)]*)\))?\]\s*$')
B_STMT = re.compile(r'^ {2,}(\d+): (.*)$')
B_TERM = re.compile(r'^ {2,}T: (.*)$')
B_SUCC = re.compile(r'^ {2,}Succs \((\d+)\):(.*)$')
B_PRED = re.compile(r'^ {2,}Preds \((\d+)\):')
REF = re.compile(r'\[B(\d+)\.(\d+)\]')
IDENT = re.compile(r'[A-Za-z_]\w*$')


class Block:
    __slots__ = ('id', 'flags', 'stmts', 'order', 'term', 'succs')

    def __init__(self, bid, flags):
        self.id, self.flags = bid, flags
        self.stmts, self.order, self.term, self.succs = {}, [], None, []


class FuncCFG:
    def __init__(self, name, header):
        self.name, self.header = name, header
        self.blocks = {}
        self.alias = {}

    # ---- expression resolution -------------------------------------------------------------------------------
    def node(self, b, i, depth=0):
        """-> ('id', name) ('lit', n) ('not', x) ('call', (b, i), callee, [args]) ('cmp', op, l, r) ('other', text)"""
        blk = self.blocks.get(b)
        t = blk.stmts.get(i) if blk else None
        if t is None or depth > 40:
            return ('other', '?')
        for mark in (' (ImplicitCastExpr,', ' (CStyleCastExpr,'):
            k = t.find(mark)
            if k >= 0:
                refs = REF.findall(t[:k])
                if len(refs) == 1:
                    return self.node(int(refs[0][0]), int(refs[0][1]), depth + 1)
                return ('other', t)
        m = re.fullmatch(r'(?:__extension__\s*)?\(*\s*\[B(\d+)\.(\d+)\]\s*\)*', t)
        if m:
            return self.node(int(m.group(1)), int(m.group(2)), depth + 1)
        m = re.fullmatch(r'!\s*\(*\s*\[B(\d+)\.(\d+)\]\s*\)*', t)
        if m:
            return ('not', self.node(int(m.group(1)), int(m.group(2)), depth + 1))
        m = re.fullmatch(r'\(*\[B(\d+)\.(\d+)\]\)*\((.*)\)', t)
        if m:
            callee = self.node(int(m.group(1)), int(m.group(2)), depth + 1)
            args = []
            for a in _split_top(m.group(3)):
                refs = REF.findall(a)
                if len(refs) == 1 and re.fullmatch(r'[\s()]*\[B\d+\.\d+\][\s()]*', a):
                    args.append(self.node(int(refs[0][0]), int(refs[0][1]), depth + 1))
                else:
                    args.append(('other', a.strip()))
            return ('call', (b, i), callee, args)
        m = re.fullmatch(r'\(*\[B(\d+)\.(\d+)\]\)* (==|!=) \(*\[B(\d+)\.(\d+)\]\)*', t)
        if m:
            return ('cmp', m.group(3), self.node(int(m.group(1)), int(m.group(2)), depth + 1),
                    self.node(int(m.group(4)), int(m.group(5)), depth + 1))
        if IDENT.match(t):
            return ('id', t)
        if re.fullmatch(r'\d+|0[xX][0-9a-fA-F]+', t):
            return ('lit', int(t, 0))
        return ('other', t)

    def pretty(self, b, i, depth=0):
        blk = self.blocks.get(b)
        t = blk.stmts.get(i) if blk else None
        if t is None or depth > 12:
            return '...'
        for mark in (' (ImplicitCastExpr,', ' (CStyleCastExpr,'):
            k = t.find(mark)
            if k >= 0:
                t = t[:k]
        t = REF.sub(lambda m: self.pretty(int(m.group(1)), int(m.group(2)), depth + 1), t)
        t = t.replace('((void *)0)', 'NULL').replace('(void *)0', 'NULL')
        while True:
            t2 = re.sub(r'\(\((\w+|NULL)\)\)', r'(\1)', t)
            t2 = re.sub(r'\(PyObject \*\)\(?NULL\)?', 'NULL', t2)
            if t2 == t:
                break
            t = t2
        return t

    def canon(self, name):
        seen = set()
        while name in self.alias and name not in seen:
            seen.add(name)
            name = self.alias[name]
        return name

    def var_of(self, n):
        """identity of the object an argument denotes: the (alias-resolved) variable name, else the expression text"""
        if n[0] == 'id':
            return self.canon(n[1])
        if n[0] == 'other':
            return 'expr ' + ' '.join(n[1].split())
        return 'expr ' + repr(n)

    def truth(self, n, pol=True):
        """condition value -> (kind, target, polarity): ('call', (b, i)) or ('var', name) or (None, None)"""
        for _ in range(40):
            if n[0] == 'not':
                n, pol = n[1], not pol
            elif n[0] == 'call' and n[2] == ('id', '__builtin_expect') and n[3]:
                n = n[3][0]
            elif n[0] == 'cmp' and (n[2] == ('lit', 0) or n[3] == ('lit', 0)):
                other = n[3] if n[2] == ('lit', 0) else n[2]
                if n[1] == '==':
                    pol = not pol
                n = other
            else:
                break
        if n[0] == 'call' and n[2][0] == 'id':
            return ('call', n[1], n[2][1], pol)
        if n[0] == 'id':
            return ('var', self.canon(n[1]), None, pol)
        return (None, None, None, pol)


def _split_top(s):
    out, depth, cur = [], 0, ''
    quote = None
    for ch in s:
        if quote:
            cur += ch
            if ch == quote:
                quote = None
            continue
        if ch in '"\'':
            quote = ch
        elif ch in '([{':
            depth += 1
        elif ch in ')]}':
            depth -= 1
        elif ch == ',' and depth == 0:
            out.append(cur)
            cur = ''
            continue
        cur += ch
    if cur.strip():
        out.append(cur)
    return out


DECL = re.compile(r'^(?:[A-Za-z_][\w\s]*?[\s\*]+)([A-Za-z_]\w*) = (.+);$', re.S)


def parse_cfgs(dump, prefixes):
    """-> {function name: FuncCFG} for functions whose name starts with one of `prefixes`."""
    lines = dump.split('\n')
    entries = [i for i, ln in enumerate(lines) if re.match(r'^ \[B\d+ \(ENTRY\)\]\s*$', ln)]
    out = {}
    name_re = re.compile(r'\b((?:%s)\w*)\s*\(' % '|'.join(re.escape(p) for p in prefixes))
    for k, start in enumerate(entries):
        j = start - 1
        while j >= 0 and not lines[j].strip():
            j -= 1
        header = lines[j] if j >= 0 else ''
        m = name_re.search(header)
        if not m:
            continue
        end = entries[k + 1] - 1 if k + 1 < len(entries) else len(lines)
        fn = FuncCFG(m.group(1), header)
        cur, last = None, None
        for ln in lines[start:end]:
            mh = B_HEAD.match(ln)
            if mh:
                cur = Block(int(mh.group(1)), set((mh.group(2) or '').split()))
                fn.blocks[cur.id] = cur
                last = None
                continue
            if cur is None:
                continue
            ms = B_SUCC.match(ln)
            if ms:
                for tok in ms.group(2).split():
                    mm = re.match(r'B(\d+)(\(Unreachable\))?$', tok)
                    if mm:
                        cur.succs.append((int(mm.group(1)), bool(mm.group(2))))
                    else:
                        cur.succs.append((None, True))      # NULL successor (pruned edge)
                last = None
                continue
            if B_PRED.match(ln):
                last = None
                continue
            mt = B_TERM.match(ln)
            if mt:
                cur.term = mt.group(1)
                last = 'T'
                continue
            mst = B_STMT.match(ln)
            if mst:
                last = int(mst.group(1))
                cur.stmts[last] = mst.group(2)
                cur.order.append(last)
                continue
            if last == 'T':
                cur.term += ' ' + ln.strip()
            elif last is not None:
                cur.stmts[last] += ' ' + ln.strip()
        if not any('ENTRY' in b.flags for b in fn.blocks.values()) or not any('EXIT' in b.flags for b in fn.blocks.values()):
            raise AnalysisError('CFG of %s has no ENTRY/EXIT block (clang dump format changed?)' % fn.name)
        for b in fn.blocks.values():
            for t in b.stmts.values():
                if t.startswith('[B'):
                    continue
                md = DECL.match(t)
                if md:
                    init = md.group(2).strip()
                    while True:
                        i2 = re.sub(r'^\((?:const\s+|struct\s+)?[A-Za-z_]\w*[\s\*]*\)\s*', '', init)
                        m2 = re.fullmatch(r'\((.*)\)', i2)
                        if m2 and i2.count('(') == 1:
                            i2 = m2.group(1).strip()
                        if i2 == init:
                            break
                        init = i2
                    if IDENT.match(init) and init != md.group(1):
                        fn.alias[md.group(1)] = init
        out[fn.name] = fn
    return out


# ====================================================================================================================
# 4. typestate
# ====================================================================================================================
# states of one generator object inside one function:
#   U  not acquired by this function          P(b,i)  test_and_set called, result not branched on yet
#   A  acquired here (flag set by us)         V(name) test result parked in a local variable
#   B  "already running" branch (flag belongs to somebody else)
#   R  released after having been held        H       held by the caller (function asserts is_running / is a release helper)
class Events:
    """what the protocol functions are called in this unit"""
    def __init__(self, requires, releasers):
        self.requires = requires      # callee name -> index of the generator argument that must be held
        self.releasers = releasers    # callee name -> index of the generator argument that is released


def typestate(fn, ev, init_held=()):
    """-> (set of violations (kind, detail), {var: set of exit states}, instances {(kind, callee)})"""
    # collect per block the protocol events
    blocks = fn.blocks
    bev = {}
    vars_ = set()
    calls_seen = set()
    shown = {}
    for b in blocks.values():
        lst = []
        for i in b.order:
            t = b.stmts[i]
            if not re.match(r'\(*\[B\d+\.\d+\]\)*\(', t):
                if not t.startswith('[B'):
                    md = DECL.match(t)
                    if md and TEST + '(' in md.group(2):
                        lst.append((i, 'store-decl', None, md.group(1)))
                else:
                    m = re.fullmatch(r'\(*\[B(\d+)\.(\d+)\]\)* = \(*\[B(\d+)\.(\d+)\]\)*', t)
                    if m:
                        lhs = fn.node(int(m.group(1)), int(m.group(2)))
                        rhs = fn.node(int(m.group(3)), int(m.group(4)))
                        if lhs[0] == 'id' and rhs[0] == 'call' and rhs[2] == ('id', TEST):
                            lst.append((i, 'store', rhs[1], fn.canon(lhs[1])))
                continue
            n = fn.node(b.id, i)
            if n[0] != 'call' or n[2][0] != 'id':
                continue
            callee, args = n[2][1], n[3]
            if callee == TEST:
                kind, idx = 'test', 0
            elif callee == UNSET:
                kind, idx = 'unset', 0
            elif callee in ev.releasers:
                kind, idx = 'unset', ev.releasers[callee]
            elif callee in ev.requires:
                kind, idx = 'req', ev.requires[callee]
            else:
                continue
            if idx >= len(args):
                raise AnalysisError('%s: call of %s with %d arguments' % (fn.name, callee, len(args)))
            v = fn.var_of(args[idx])
            vars_.add(v)
            calls_seen.add((kind, callee))
            shown[v] = args[idx][1] if args[idx][0] == 'id' else v
            lst.append((i, kind, v, callee))
        bev[b.id] = lst
    entry = [b for b in blocks.values() if 'ENTRY' in b.flags][0]
    exits = {b.id for b in blocks.values() if 'EXIT' in b.flags}
    viol = set()
    exit_states = {}
    for var in sorted(vars_):
        nm = shown.get(var, var)
        init = 'H' if var in init_held else 'U'
        instate = {entry.id: {init}}
        work = [entry.id]
        xs = exit_states.setdefault(var, set())
        guard = 0
        while work:
            guard += 1
            if guard > 20000:
                raise AnalysisError('%s: typestate fixpoint does not converge' % fn.name)
            bid = work.pop()
            b = blocks[bid]
            outs = {}       # successor id -> set of states

            def flow(state, succs=None):
                for sid, unreachable in (succs if succs is not None else b.succs):
                    if unreachable or sid is None:
                        continue
                    outs.setdefault(sid, set()).add(state)

            for s in sorted(instate.get(bid, ()), key=repr):
                for i, kind, v, what in bev[bid]:
                    if kind in ('store', 'store-decl'):
                        if isinstance(s, tuple) and s[0] == 'P' and s[1][0] == bid and s[1][1] < i and (kind == 'store-decl' or what and v == s[1]):
                            s = ('V', what if kind == 'store-decl' else what)
                        continue
                    if v != var:
                        continue
                    pend = isinstance(s, tuple)
                    if kind == 'test':
                        if s == 'A' or s == 'H':
                            viol.add(('acquire-while-held', '', 'calls %s(%s) while the flag is already held by this call chain: the test '
                                      'always reports "already running"' % (TEST, nm)))
                        elif pend:
                            viol.add(('result-ignored', '', 'the result of an earlier %s(%s) is never branched on' % (TEST, nm)))
                        s = ('P', (bid, i))
                    elif kind == 'unset':
                        if s == 'A' or s == 'H':
                            s = 'R'
                        else:
                            why = {'U': 'on a path where is_running was never acquired by this function',
                                   'B': 'on the "already running" branch, i.e. it clears the flag that belongs to the call that is still executing the body',
                                   'R': 'a second time on one path (the helper asserts the flag is set)'}.get(
                                       s, 'before the result of %s was tested' % TEST)
                            viol.add(('release-' + {'U': 'without-acquire', 'B': 'on-busy-branch', 'R': 'twice'}.get(s, 'before-test'), what,
                                      'calls %s(%s) %s' % (what, nm, why)))
                            s = 'R'
                    elif kind == 'req':
                        if s not in ('A', 'H'):
                            why = {'U': 'before is_running is acquired', 'R': 'after is_running was released',
                                   'B': 'on the "already running" branch'}.get(s, 'before the result of %s was tested' % TEST)
                            viol.add(('needs-held', what, 'calls %s(%s), which asserts that the caller holds is_running, %s: the body could be '
                                      'entered while gi_running reads False (re-entrant send from the body is no longer rejected)' % (what, nm, why)))
                # block end
                real_succ = [(sid, u) for sid, u in b.succs]
                to_exit = [sid for sid, u in real_succ if sid in exits and not u]
                if to_exit and 'NORETURN' not in b.flags:
                    rt = ''
                    if b.order and b.stmts[b.order[-1]].startswith('return'):
                        rt = ' '.join(fn.pretty(b.id, b.order[-1]).split())
                    xs.add(s if not isinstance(s, tuple) else s[0])
                    if s == 'A':
                        viol.add(('return-while-held', rt, 'reaches `%s` with is_running still set (no %s on this path): the object stays '
                                  '"already executing" for ever and every later send/throw/close raises ValueError' % (rt or 'end of function', UNSET)))
                    elif isinstance(s, tuple):
                        viol.add(('result-ignored', rt, 'reaches `%s` without ever testing the result of %s(%s)' % (rt or 'end of function', TEST, nm)))
                if 'NORETURN' in b.flags:
                    continue
                nonexit = [(sid, u) for sid, u in real_succ if sid not in exits]
                if isinstance(s, tuple) and len(b.succs) == 2 and b.term is not None and not b.term.startswith('switch'):
                    own = [int(k) for bb, k in REF.findall(b.term) if int(bb) == bid]
                    cond = fn.truth(fn.node(bid, max(own))) if own else (None, None, None, True)
                    hit = (s[0] == 'P' and cond[0] == 'call' and cond[1] == s[1]) or (s[0] == 'V' and cond[0] == 'var' and cond[1] == s[1])
                    if hit:
                        t_edge, f_edge = b.succs[0], b.succs[1]
                        busy, free = (t_edge, f_edge) if cond[3] else (f_edge, t_edge)
                        for edge, st in ((busy, 'B'), (free, 'A')):
                            if edge[0] in exits:
                                continue
                            flow(st, [edge])
                        continue
                if isinstance(s, tuple) and s[0] == 'P':
                    viol.add(('result-ignored', '', 'the result of %s(%s) is not branched on: a running generator is entered a second time' % (TEST, nm)))
                    s = 'A'
                flow(s, nonexit)
            for sid, states in outs.items():
                old = instate.setdefault(sid, set())
                if not states <= old:
                    old |= states
                    if sid not in work:
                        work.append(sid)
    return viol, exit_states, calls_seen


# ====================================================================================================================
# 5. the S1 rules
# ====================================================================================================================
CONTROLS = r'''
static PyObject *%(c)sleak(PyObject *self, int x) {
    __pyx_CoroutineObject *gen = (__pyx_CoroutineObject*) self;
    if (unlikely(__Pyx_Coroutine_test_and_set_is_running(gen))) return NULL;
    if (x) return NULL;
    __Pyx_Coroutine_unset_is_running(gen);
    return self;
}
static PyObject *%(c)sbusy(PyObject *self) {
    __pyx_CoroutineObject *gen = (__pyx_CoroutineObject*) self;
    if (__Pyx_Coroutine_test_and_set_is_running(gen)) { __Pyx_Coroutine_unset_is_running(gen); return NULL; }
    __Pyx_Coroutine_unset_is_running(gen);
    return self;
}
static PyObject *%(c)stwice(PyObject *self, int x) {
    __pyx_CoroutineObject *gen = (__pyx_CoroutineObject*) self;
    if (unlikely(__Pyx_Coroutine_test_and_set_is_running(gen))) return NULL;
    if (x) __Pyx_Coroutine_unset_is_running(gen);
    __Pyx_Coroutine_unset_is_running(gen);
    return self;
}
static PyObject *%(c)signored(PyObject *self, int x) {
    __pyx_CoroutineObject *gen = (__pyx_CoroutineObject*) self;
    __Pyx_Coroutine_test_and_set_is_running(gen);
    if (x) self = NULL;
    __Pyx_Coroutine_unset_is_running(gen);
    return self;
}
static PyObject *%(c)sinverted(PyObject *self) {
    __pyx_CoroutineObject *gen = (__pyx_CoroutineObject*) self;
    if (!__Pyx_Coroutine_test_and_set_is_running(gen)) return NULL;
    __Pyx_Coroutine_unset_is_running(gen);
    return self;
}
static void %(c)sneeds(__pyx_CoroutineObject *gen) { assert(__Pyx_Coroutine_get_is_running(gen)); }
static PyObject *%(c)searly(PyObject *self) {
    __pyx_CoroutineObject *gen = (__pyx_CoroutineObject*) self;
    if (unlikely(__Pyx_Coroutine_test_and_set_is_running(gen))) return NULL;
    __Pyx_Coroutine_unset_is_running(gen);
    %(c)sneeds(gen);
    return self;
}
static PyObject *%(c)sheld(PyObject *self) {
    __pyx_CoroutineObject *gen = (__pyx_CoroutineObject*) self;
    if (unlikely(__Pyx_Coroutine_test_and_set_is_running(gen))) return NULL;
    %(c)sneeds(gen);
    __Pyx_Coroutine_unset_is_running(gen);
    return self;
}
static PyObject *%(c)sclean(PyObject *self, int x) {
    char r;
    __pyx_CoroutineObject *gen = (__pyx_CoroutineObject*) self;
    r = __Pyx_Coroutine_test_and_set_is_running(gen);
    if (r != 0) goto bad;
    while (x--) { if (x == 3) break; }
    switch (x) { case 1: x = 2; break; default: break; }
    __Pyx_Coroutine_unset_is_running((__pyx_CoroutineObject*)self);
    return self;
bad:
    return NULL;
}
static PyObject *%(c)sclean2(PyObject *self) {
    __pyx_CoroutineObject *gen = (__pyx_CoroutineObject*) self;
    char busy = __Pyx_Coroutine_test_and_set_is_running(gen);
    if (likely(!busy)) {
        __Pyx_Coroutine_unset_is_running(gen);
        return self;
    }
    return NULL;
}
'''
CONTROL_EXPECT = {'early': None, 'held': None, 'leak': 'return-while-held', 'busy': 'release-on-busy-branch', 'twice': 'release-twice', 'ignored': 'result-ignored',
                  'inverted': 'return-while-held', 'clean': None, 'clean2': None}


def _carriers(cat, names):
    """macros of FILES whose replacement text mentions one of `names` (transitively)"""
    names = set(names)
    changed = True
    while changed:
        changed = False
        for cname, ds in cat.decls.items():
            if cname in names:
                continue
            for d in ds:
                if d.kind == 'macro' and d.file in FILES and d.body and any(re.search(r'\b%s\b' % re.escape(n), d.body) for n in names):
                    names.add(cname)
                    changed = True
                    break
    return names


def _funcs(cat):
    for cname, ds in cat.decls.items():
        for d in ds:
            if d.kind == 'func' and d.file in FILES and d.body:
                yield d


def analyse(ctx):
    """-> dict with everything the S1 rules report (one clang run)."""
    cat = ctx.cat
    accessors = {}
    for n in (TEST, UNSET, GET):
        ds = [d for d in cat.decls.get(n, ()) if d.kind == 'func' and d.file in FILES]
        if not ds:
            raise AnalysisError('%s is no longer defined in %s' % (n, '/'.join(FILES)))
        accessors[n] = ds
    # functions that assert the flag: `assert(__Pyx_Coroutine_get_is_running(param))`
    requires = {}
    for d in _funcs(cat):
        if d.name in accessors:
            continue
        for m in re.finditer(r'\bassert\s*\(\s*%s\s*\(\s*([A-Za-z_]\w*)\s*\)\s*\)' % GET, d.body):
            pn = d.param_names()
            if m.group(1) in pn:
                requires[d.name] = pn.index(m.group(1))
    releasers = {}
    result = None
    for _round in range(4):
        names = _carriers(cat, {TEST, UNSET} | set(requires) | set(releasers))
        pat = re.compile(r'\b(?:%s)\s*\(' % '|'.join(re.escape(n) for n in sorted(names)))
        selected = [d for d in _funcs(cat) if d.name not in accessors and pat.search(d.body)]
        if not selected:
            raise AnalysisError('no function of %s calls %s any more' % ('/'.join(FILES), TEST))
        copies = []           # (copy name, decl, description, multiplicity)
        chunks = []
        stats = {}
        for k, d in enumerate(sorted(selected, key=lambda d: (d.file, d.line))):
            if any('#' in p for p in d.params or ()):
                raise AnalysisError('%s: preprocessor conditionals inside the parameter list are not modelled' % d.name)
            head = '%s %%s(%s)' % (d.ret, ', '.join(d.params or ()))
            confs, natoms, total = configurations(d.body)
            stats[(d.name, d.line)] = (len(confs), natoms, total)
            for j, (txt, desc, mult) in enumerate(confs):
                cname = '%s%d_%d_%s' % (VPFX, k, j, d.name)
                copies.append((cname, d, desc, mult))
                chunks.append(head % cname + ' ' + txt + '\n')
        tu = assemble_tu(ctx, '\n'.join(chunks) + CONTROLS % {'c': CPFX})
        cfgs = parse_cfgs(clang_cfg(tu), (VPFX, CPFX))
        missing = [c[0] for c in copies if c[0] not in cfgs] + [CPFX + n for n in CONTROL_EXPECT if CPFX + n not in cfgs]
        if missing:
            raise AnalysisError('clang produced no CFG for %d functions, e.g. %s' % (len(missing), missing[0]))
        ev = Events(requires, releasers)
        per_copy = {}
        new_rel = {}
        for cname, d, desc, mult in copies:
            fn = cfgs[cname]
            pn = d.param_names()
            held = set()
            text_has_test = re.search(r'\b%s\s*\(' % TEST, d.body) is not None
            if d.name in requires:
                held.add(fn.canon(pn[requires[d.name]]))
            viol, exits, calls = typestate(fn, ev, init_held=held)
            if not text_has_test and d.name not in requires:
                # a function that releases a parameter it never acquired: a release helper, to be called by a holder
                viol2, exits2, _ = typestate(fn, ev, init_held={fn.canon(p) for p in pn if p})
                rel = [p for p in pn if p and exits2.get(fn.canon(p)) == {'R'}]
                mixed = [p for p in pn if p and 'R' in exits2.get(fn.canon(p), ()) and exits2.get(fn.canon(p)) != {'R'}]
                if mixed:
                    raise AnalysisError('%s releases is_running of its parameter %s on some paths only: conditional release helpers are not modelled'
                                        % (d.name, mixed[0]))
                if rel and not viol2:
                    new_rel[d.name] = pn.index(rel[0])
                    viol, exits, calls = viol2, exits2, calls
            per_copy[cname] = (d, desc, mult, viol, calls)
        result = dict(per_copy=per_copy, cfgs=cfgs, requires=requires, releasers=dict(releasers), stats=stats, ev=ev, accessors=accessors)
        if set(new_rel) <= set(releasers):
            break
        releasers.update(new_rel)
    else:
        raise AnalysisError('release-helper summaries do not stabilise')
    # embedded controls
    ctl = {}
    for n, want in CONTROL_EXPECT.items():
        viol, _, _ = typestate(result['cfgs'][CPFX + n], Events({}, {}))
        ctl[n] = {v[0] for v in viol}
    result['controls'] = ctl
    return result


def analysis(ctx):
    return ctx.memo('pC23.analysis', lambda: analyse(ctx))


def _report(r, res, kinds, select):
    """aggregate the per-configuration findings of the kinds in `kinds` per source function"""
    by_fn = {}
    for cname, (d, desc, mult, viol, calls) in res['per_copy'].items():
        if not select(d, calls):
            continue
        e = by_fn.setdefault((d.name, d.line), dict(d=d, n=0, found={}))
        e['n'] += 1
        for kind, detail, msg in viol:
            if kind in kinds:
                e['found'].setdefault((kind, detail, msg), []).append(desc)
    return by_fn


def rule_S1(ctx, floor=4):
    r = Rule('C23-S1', 'is_running acquire/release typestate on the clang CFG: the "already running" branch returns without releasing; '
             'on the acquired branch every path to a return releases exactly once; evaluated for every #if configuration inside the function', floor)
    res = analysis(ctx)
    kinds = ('return-while-held', 'release-without-acquire', 'release-on-busy-branch', 'release-twice', 'release-before-test',
             'result-ignored', 'acquire-while-held')
    by_fn = _report(r, res, kinds, lambda d, calls: any(k in ('test', 'unset') for k, _ in calls))
    for (name, line), e in sorted(by_fn.items()):
        d = e['d']
        nconf, natoms, total = res['stats'][(name, line)]
        r.inst(name, sample='%s: %d distinct bodies from %d #if configurations (%d condition atoms)' % (name, nconf, total, natoms))
        for (kind, detail, msg), descs in sorted(e['found'].items()):
            where = 'in every #if configuration' if len(descs) == e['n'] else 'in %d of %d #if configurations, e.g. [%s]' % (len(descs), e['n'], descs[0])
            r.violate('%s:%s%s' % (name, kind, ':' + re.sub(r'\s+', '', detail) if detail else ''), 'Cython/Utility/' + d.file, d.line,
                      '%s %s (%s)' % (name, msg, where))
    if not any(any(k == 'test' for k, _ in c[4]) for c in res['per_copy'].values()):
        raise AnalysisError('no CFG contains a call of %s' % TEST)
    ctl = res['controls']
    bad = [n for n, want in CONTROL_EXPECT.items() if (want is None and ctl[n]) or (want is not None and want not in ctl[n])]
    r.positive_control(not bad, 'embedded C controls (leak, release on busy branch, double release, ignored result, inverted test; two clean forms)'
                       + (' -- wrong: %s %s' % (bad, {n: sorted(ctl[n]) for n in bad}) if bad else ''))
    return r


def rule_S1b(ctx, floor=11):
    r = Rule('C23-S1b', 'every call of a helper that asserts __Pyx_Coroutine_get_is_running(gen) happens while the caller holds is_running '
             '(after a successful test_and_set and before the release, or inside a function that asserts it itself)', floor)
    res = analysis(ctx)
    if len(res['requires']) < 3:
        raise AnalysisError('only %d functions assert %s on a parameter (expected SendEx, FinishDelegation, SendToDelegate, CloseIter)' % (len(res['requires']), GET))
    by_fn = _report(r, res, ('needs-held',), lambda d, calls: any(k == 'req' for k, _ in calls))
    pairs = set()
    for cname, (d, desc, mult, viol, calls) in res['per_copy'].items():
        for k, callee in calls:
            if k == 'req':
                pairs.add((d.name, callee))
    for caller, callee in sorted(pairs):
        r.inst('%s->%s' % (caller, callee), sample='%s calls %s' % (caller, callee))
    for (name, line), e in sorted(by_fn.items()):
        d = e['d']
        for (kind, detail, msg), descs in sorted(e['found'].items()):
            where = 'in every #if configuration' if len(descs) == e['n'] else 'in %d of %d #if configurations, e.g. [%s]' % (len(descs), e['n'], descs[0])
            r.violate('%s->%s' % (name, detail), 'Cython/Utility/' + d.file, d.line, '%s %s (%s)' % (name, msg, where))
    ev = Events({CPFX + 'needs': 0}, {})
    v1, _, _ = typestate(res['cfgs'][CPFX + 'early'], ev)
    v2, _, _ = typestate(res['cfgs'][CPFX + 'held'], ev)
    r.positive_control(any(v[0] == 'needs-held' for v in v1) and not v2, 'embedded C control: must-hold helper called after the release (and a clean twin)')
    return r


def rule_S1c(ctx, floor=3):
    """The flag is touched only by its three accessors and the constructor; the accessors store the right constants."""
    r = Rule('C23-S1c', 'the is_running field is read/written only inside test_and_set/unset/get and zero-initialised by the constructor; '
             'test_and_set stores non-zero after reading the old value and returns it, unset stores zero', floor)
    cat = ctx.cat
    acc_names = (TEST, UNSET, GET)
    access = re.compile(r'(?:->|\.)\s*%s\b' % FIELD)
    store = re.compile(r'(?:->|\.)\s*%s\s*=(?!=)\s*([^;]+);' % FIELD)

    def check_accessor(name, body):
        probs = []
        stores = [(m.start(), m.group(1).strip()) for m in store.finditer(body)]
        vals = []
        for _, v in stores:
            try:
                vals.append(int(v.strip('()'), 0))
            except ValueError:
                vals.append(None)
        if name == TEST:
            if len(stores) != 1 or vals[0] is None or vals[0] == 0:
                probs.append(('store', 'must store a non-zero constant into is_running exactly once (found %s)' % [v for _, v in stores]))
            reads = [(m.start(), m.group(1)) for m in re.finditer(r'\b([A-Za-z_]\w*)\s*=\s*[A-Za-z_]\w*\s*(?:->|\.)\s*%s\s*;' % FIELD, body)]
            rets = re.findall(r'\breturn\s+\(?\s*([A-Za-z_]\w*)\s*\)?\s*;', body)
            if not reads or not stores or not any(p < stores[0][0] for p, _ in reads):
                probs.append(('read-before-store', 'must read the old value of is_running before overwriting it'))
            elif not rets or any(x not in {v for p, v in reads if p < stores[0][0]} for x in rets):
                probs.append(('return-old', 'must return the value is_running had before the store (returns %s)' % rets))
        elif name == UNSET:
            if len(stores) != 1 or vals[0] != 0:
                probs.append(('store', 'must store 0 into is_running exactly once (found %s)' % [v for _, v in stores]))
        else:
            if stores:
                probs.append(('store', 'must not modify is_running'))
            if not access.search(body):
                probs.append(('read', 'does not read is_running'))
        return probs

    found_acc = set()
    for d in _funcs(cat):
        n = len(access.findall(d.body))
        if not n:
            continue
        key = '%s.%s' % (d.name, FIELD)
        r.inst(key, sample='%s touches ->%s %d times' % (d.name, FIELD, n))
        rel = 'Cython/Utility/' + d.file
        if d.name in acc_names:
            found_acc.add(d.name)
            for k, p in check_accessor(d.name, d.body):
                r.violate('%s:%s' % (d.name, k), rel, d.line, '%s %s: every caller relies on test_and_set returning the previous state and leaving the flag set, '
                          'and on unset clearing it' % (d.name, p))
            continue
        stores = store.findall(d.body)
        others = n - len(stores)
        uses_protocol = re.search(r'\b(?:%s|%s)\s*\(' % (TEST, UNSET), d.body)
        # the one legitimate direct store: the constructor, i.e. the function that also gives resume_label its initial constant
        constructor = re.search(r'->\s*resume_label\s*=(?!=)\s*-?\s*\d+\s*;', d.body) is not None
        if others or uses_protocol or not constructor or any(v.strip().strip('()') not in ('0',) for v in stores):
            r.violate(key, rel, d.line, '%s accesses the is_running field directly (%d stores %s, %d other uses) instead of going through '
                      '%s/%s/%s (only the constructor that also initialises resume_label may zero it): the access is outside the critical section '
                      'and invisible to the acquire/release discipline' % (d.name, len(stores), stores, others, TEST, UNSET, GET))
    for n in acc_names:
        if n not in found_acc:
            raise AnalysisError('%s does not touch ->%s any more' % (n, FIELD))
    # macros must not touch the field either
    for cname, ds in cat.decls.items():
        for d in ds:
            if d.kind == 'macro' and d.file in FILES and d.body and access.search(d.body):
                r.inst('macro ' + cname)
                r.violate('macro:' + cname, 'Cython/Utility/' + d.file, d.line, 'macro %s accesses the is_running field directly' % cname)
    r.positive_control(bool(check_accessor(TEST, '{ char result; result = gen->is_running; gen->is_running = 0; return result; }'))
                       and bool(check_accessor(UNSET, '{ gen->is_running = 1; }'))
                       and not check_accessor(TEST, '{ char old; old = g->is_running; g->is_running = 1; return old; }'),
                       'test_and_set that clears / unset that sets')
    return r


# ====================================================================================================================
# 6. yield labels (Python side) and resume_label value agreement
# ====================================================================================================================
def _class_ast(ctx, rel, cls):
    """ClassDef of a top-level class; only the class block is parsed (the big compiler modules take ~1 s each to parse in full),
    with a fall-back to the full module when the block cannot be cut out by indentation."""
    def build():
        lines = ctx.read(rel).split('\n')
        for i, ln in enumerate(lines):
            if re.match(r'class %s\b' % re.escape(cls), ln):
                j = i + 1
                while j < len(lines) and (not lines[j].strip() or lines[j][0] in ' \t#)'):
                    j += 1
                try:
                    t = ast.parse('\n'.join(lines[i:j]))
                except SyntaxError:
                    break
                ast.increment_lineno(t, i)
                if len(t.body) == 1 and isinstance(t.body[0], ast.ClassDef):
                    return t.body[0]
                break
        for n in ctx.parse(rel).body:
            if isinstance(n, ast.ClassDef) and n.name == cls:
                return n
        return None
    return ctx.memo(('pC23.class', rel, cls), build)


def _find_method(ctx, rel, cls, name):
    c = _class_ast(ctx, rel, cls)
    if c is not None:
        for m in c.body:
            if isinstance(m, ast.FunctionDef) and m.name == name:
                return m
    return None


def _is_attr(n, obj, attr):
    return isinstance(n, ast.Attribute) and n.attr == attr and isinstance(n.value, ast.Name) and n.value.id == obj


def _walk(fn):
    """nodes of a function body without nested function/class bodies"""
    todo = list(fn.body)
    while todo:
        n = todo.pop()
        yield n
        for c in ast.iter_child_nodes(n):
            if not isinstance(c, (ast.FunctionDef, ast.AsyncFunctionDef, ast.ClassDef, ast.Lambda)):
                todo.append(c)


def check_new_yield_label(fn):
    """FunctionState.new_yield_label: numbers are len(self.yield_labels)+k (k>=1) taken before the append, the appended pair
    is (number, label) and is what the caller gets.  -> list of (key, message)"""
    probs = []
    env = {}
    appended = None
    append_pos = None
    returned = None
    for s in fn.body:
        if isinstance(s, ast.Assign) and len(s.targets) == 1 and isinstance(s.targets[0], ast.Name):
            env[s.targets[0].id] = (s.value, s.lineno)
        for n in ast.walk(s):
            if isinstance(n, ast.Call) and isinstance(n.func, ast.Attribute) and n.func.attr == 'append' and _is_attr(n.func.value, 'self', 'yield_labels') and n.args:
                appended, append_pos = n.args[0], s.lineno
        if isinstance(s, ast.Return):
            returned = s.value

    def deref(e):
        pos = None
        while isinstance(e, ast.Name) and e.id in env:
            e, pos = env[e.id]
        return e, pos
    if appended is None:
        return [('append', 'does not append to self.yield_labels: the resume switch gets no case for the new yield point')]
    tup, tup_pos = deref(appended)
    if not (isinstance(tup, ast.Tuple) and len(tup.elts) == 2):
        return [('pair', 'appends %s instead of a (number, label) pair' % node_src(tup, 60))]
    ret, _ = deref(returned) if returned is not None else (None, None)
    same_var = isinstance(returned, ast.Name) and isinstance(appended, ast.Name) and returned.id == appended.id
    last_item = isinstance(returned, ast.Subscript) and _is_attr(returned.value, 'self', 'yield_labels') and \
        isinstance(returned.slice, ast.UnaryOp) and isinstance(returned.slice.op, ast.USub) and getattr(returned.slice.operand, 'value', None) == 1
    stateless_equal = ret is not None and ast.dump(ret) == ast.dump(tup) and 'yield_labels' not in ast.dump(ret) and \
        not any(isinstance(x, ast.Call) for x in ast.walk(ret))
    if not (same_var or last_item or stateless_equal):
        probs.append(('return', 'returns %s, which is not the pair object it appended to self.yield_labels (%s%s): the yield site stores a number / '
                      'places a label that the resume switch does not know'
                      % (node_src(returned, 60) if returned is not None else 'nothing', node_src(appended, 60),
                         '; the same expression evaluated again after the append gives a different number' if ret is not None and ast.dump(ret) == ast.dump(tup) else '')))
    num, num_pos = deref(tup.elts[0])
    num_pos = num_pos or tup_pos or append_pos
    # number = len(self.yield_labels) + k, k >= 1, evaluated before the append
    k = None
    if isinstance(num, ast.BinOp) and isinstance(num.op, ast.Add):
        for a, b in ((num.left, num.right), (num.right, num.left)):
            if isinstance(a, ast.Call) and isinstance(a.func, ast.Name) and a.func.id == 'len' and a.args and _is_attr(a.args[0], 'self', 'yield_labels') \
                    and isinstance(b, ast.Constant) and isinstance(b.value, int):
                k = b.value
    elif isinstance(num, ast.Call) and isinstance(num.func, ast.Name) and num.func.id == 'len' and num.args and _is_attr(num.args[0], 'self', 'yield_labels'):
        k = 0
    if k is None:
        probs.append(('number', 'the label number %s is not len(self.yield_labels) + constant: distinctness of the case numbers is not evident' % node_src(num, 60)))
    else:
        before = num_pos is None or num_pos <= append_pos
        first = k + (0 if before else 1)
        if first < 1:
            probs.append(('number', 'the first yield point gets resume number %d, which collides with `case 0` (first run of the body)' % first))
    lab, _ = deref(tup.elts[1])
    if not (isinstance(lab, ast.Call) and isinstance(lab.func, ast.Attribute) and lab.func.attr == 'new_label'):
        probs.append(('label', 'the second element %s is not a fresh self.new_label(...)' % node_src(lab, 60)))
    return probs


def _fmt_args(call):
    """putln("fmt" % args) / putln(f"...") -> (format string with %-placeholders, [arg nodes]) or None"""
    if not call.args:
        return None
    a = call.args[0]
    if isinstance(a, ast.BinOp) and isinstance(a.op, ast.Mod) and isinstance(a.left, ast.Constant) and isinstance(a.left.value, str):
        args = list(a.right.elts) if isinstance(a.right, ast.Tuple) else [a.right]
        return a.left.value, args
    if isinstance(a, ast.JoinedStr):
        fmt, args = '', []
        for v in a.values:
            if isinstance(v, ast.Constant):
                fmt += str(v.value).replace('%', '%%')
            else:
                fmt += '%s'
                args.append(v.value)
        return fmt, args
    if isinstance(a, ast.Constant) and isinstance(a.value, str):
        return a.value.replace('%', '%%'), []
    return None


def _placeholder_binding(fmt, args, pattern):
    """regex `pattern` with groups over the format string, where each group must be exactly one placeholder -> the arg nodes bound to the groups"""
    m = re.search(pattern, fmt)
    if not m:
        return None
    out = []
    for g in range(1, (m.re.groups or 0) + 1):
        idx = len(re.findall(r'%(?!%)', fmt[:m.start(g)].replace('%%', '')))
        if not re.fullmatch(r'%[sd]', m.group(g)) or idx >= len(args):
            return None
        out.append(args[idx])
    return out


def check_resume_switch(fn):
    """GeneratorBodyDefNode.generate_function_definitions -> (instances, problems)"""
    probs, insts = [], ['loop over yield_labels', 'switch subject', 'order', 'case 0']
    stmts = sorted((n for n in _walk(fn) if isinstance(n, ast.stmt)), key=lambda n: (n.lineno, n.col_offset))
    loops = [n for n in stmts if isinstance(n, ast.For) and isinstance(n.iter, ast.Attribute) and n.iter.attr == 'yield_labels']
    raw_loops = [n for n in stmts if isinstance(n, ast.For) and any(isinstance(x, ast.Attribute) and x.attr == 'yield_labels' for x in ast.walk(n.iter))]
    if not raw_loops:
        return insts, [('switch', 'no loop over code.yield_labels: the resume switch has no case for any yield point, every send() after the first yield falls into `default` and ends the generator')], None
    if not loops:
        return insts, [('switch-iter', 'the resume switch iterates %s instead of the plain code.yield_labels list: some yield points get no case' % node_src(raw_loops[0].iter, 60))], None
    loop = loops[0]
    if not (isinstance(loop.target, ast.Tuple) and len(loop.target.elts) == 2 and all(isinstance(e, ast.Name) for e in loop.target.elts)):
        return insts, [('switch-target', 'the loop over code.yield_labels does not unpack (number, label)')], None
    numv, labv = loop.target.elts[0].id, loop.target.elts[1].id
    body_nodes = [x for s in loop.body for x in ast.walk(s)]
    if any(isinstance(x, (ast.If, ast.IfExp, ast.Continue, ast.Break, ast.Return)) for x in body_nodes):
        probs.append(('switch-conditional', 'a case of the resume switch is emitted only conditionally (if/continue/break inside the loop over code.yield_labels)'))
    case_ok = False
    writer = None
    for x in body_nodes:
        if isinstance(x, ast.Call) and isinstance(x.func, ast.Attribute) and x.func.attr in ('putln', 'put'):
            fa = _fmt_args(x)
            if fa is None:
                continue
            bound = _placeholder_binding(fa[0], fa[1], r'case\s+(%[sd])\s*:\s*goto\s+(%[sd])\s*;')
            if bound is not None:
                writer = x.func.value
                if isinstance(bound[0], ast.Name) and isinstance(bound[1], ast.Name) and bound[0].id == numv and bound[1].id == labv:
                    case_ok = True
                else:
                    probs.append(('switch-case', 'the emitted `case %%d: goto %%s;` binds (%s, %s) but the pairs in code.yield_labels are (number=%s, label=%s): '
                                  'resuming jumps to the wrong yield point' % (node_src(bound[0]), node_src(bound[1]), numv, labv)))
                    case_ok = True
    if not case_ok and not probs:
        probs.append(('switch-case', 'the loop over code.yield_labels emits no `case <number>: goto <label>;`'))
    # the switch subject is <generator>->resume_label, and it is emitted into an insertion point taken before the body is generated
    subj = None
    for n in _walk(fn):
        if isinstance(n, ast.Call) and isinstance(n.func, ast.Attribute) and n.func.attr in ('putln', 'put'):
            fa = _fmt_args(n)
            if fa and re.search(r'switch\s*\(', fa[0]):
                subj = (n, fa)
    if subj is None:
        probs.append(('switch-subject', 'no `switch (...)` is emitted'))
    else:
        m = re.search(r'switch\s*\(\s*(%s)->(\w+)\s*\)', subj[1][0])
        if not m or m.group(2) != 'resume_label':
            probs.append(('switch-subject', 'the resume switch dispatches on %r, the yield sites store the number in ->resume_label' % subj[1][0]))
    body_call = [n for n in stmts if any(isinstance(x, ast.Call) and isinstance(x.func, ast.Attribute) and x.func.attr == 'generate_function_body'
                                          for x in ast.walk(n)) and not isinstance(n, (ast.If, ast.For, ast.While, ast.With, ast.Try))]
    if not body_call:
        probs.append(('order', 'generate_function_body() is no longer called: code.yield_labels stays empty'))
    elif loop.lineno < body_call[0].lineno:
        probs.append(('order', 'the loop over code.yield_labels runs before generate_function_body(): the list is still empty, no case is emitted'))
    elif writer is not None and isinstance(writer, ast.Name):
        ip = [n for n in stmts if isinstance(n, ast.Assign) and any(isinstance(t, ast.Name) and t.id == writer.id for t in n.targets)]
        if not ip or not (isinstance(ip[0].value, ast.Call) and isinstance(ip[0].value.func, ast.Attribute) and ip[0].value.func.attr == 'insertion_point'):
            probs.append(('order', 'the cases are written to %s which is not an insertion point: the switch would be emitted after the function has ended' % writer.id))
        elif ip[0].lineno > body_call[0].lineno:
            probs.append(('order', 'the insertion point %s for the resume switch is taken after the body was generated: the switch is not at the top of the function' % writer.id))
    # case 0 -> first-run label that is placed
    first = None
    for n in _walk(fn):
        if isinstance(n, ast.Call) and isinstance(n.func, ast.Attribute) and n.func.attr in ('putln', 'put'):
            fa = _fmt_args(n)
            if fa:
                m = re.search(r'case\s+(-?\d+)\s*:\s*goto\s+(%s)\s*;', fa[0])
                if m:
                    b = _placeholder_binding(fa[0], fa[1], r'case\s+-?\d+\s*:\s*goto\s+(%s)\s*;')
                    first = (int(m.group(1)), b[0] if b else None)
    if first is None:
        probs.append(('case0', 'no `case 0: goto <first_run_label>;` is emitted: a fresh generator (resume_label == 0) cannot start'))
    else:
        placed = any(isinstance(n, ast.Call) and isinstance(n.func, ast.Attribute) and n.func.attr == 'put_label' and n.args and
                     isinstance(n.args[0], ast.Name) and isinstance(first[1], ast.Name) and n.args[0].id == first[1].id for n in _walk(fn))
        if not placed:
            probs.append(('case0', 'the label of `case %d` is never placed with put_label in this function' % first[0]))
    return insts, probs, (first[0] if first else None)


def check_yield_site(fn):
    """A function that calls code.new_yield_label(): the number it gets is what it stores into ->resume_label before a `return`,
    the label it gets is what it places (once) after that return, on every path."""
    from ..engine import pyflow
    probs = []
    numv = labv = None
    for n in _walk(fn):
        if isinstance(n, ast.Assign) and isinstance(n.value, ast.Call) and isinstance(n.value.func, ast.Attribute) and n.value.func.attr == 'new_yield_label':
            t = n.targets[0]
            if isinstance(t, ast.Tuple) and len(t.elts) == 2 and all(isinstance(e, ast.Name) for e in t.elts):
                numv, labv = t.elts[0].id, t.elts[1].id
    if numv is None:
        return [('unpack', 'the result of new_yield_label() is not unpacked into (number, label)')]

    def tr(node, state):
        s = set(state)
        for c in pyflow.calls_in(node):
            if not isinstance(c.func, ast.Attribute):
                continue
            if c.func.attr in ('putln', 'put'):
                fa = _fmt_args(c)
                if not fa:
                    continue
                b = _placeholder_binding(fa[0], fa[1], r'->\s*resume_label\s*=\s*(%[sd])\s*;')
                if b is not None:
                    if isinstance(b[0], ast.Name) and b[0].id == numv:
                        s.add('set')
                    else:
                        s.add(('BAD', 'stores %s into ->resume_label instead of the number %s returned by new_yield_label()' % (node_src(b[0]), numv)))
                elif re.search(r'->\s*resume_label\s*=', fa[0]):
                    s.add(('BAD', 'stores a value other than the yield number into ->resume_label (%r)' % fa[0]))
                if re.match(r'\s*return\b', fa[0]):
                    if 'set' not in s:
                        s.add(('BAD', 'emits `return` before ->resume_label was set to the yield number: the next send() resumes at the previous yield point'))
                    if 'placed' in s:
                        s.add(('BAD', 'places the resume label before the `return`: the code after the yield runs before the value is yielded'))
                    s.add('ret')
            elif c.func.attr == 'put_label' and c.args and isinstance(c.args[0], ast.Name) and c.args[0].id == labv:
                if 'placed' in s:
                    s.add(('BAD', 'places the resume label twice on one path'))
                if 'ret' not in s:
                    s.add(('BAD', 'places the resume label on a path that did not emit the `return` of the yielded value'))
                s.add('placed')
        return frozenset(s)
    o = pyflow.Flow(tr).run(fn)
    for st in o.normal | o.returns:
        for f in st:
            if isinstance(f, tuple) and f[0] == 'BAD':
                probs.append(('order', f[1]))
        if 'placed' not in st:
            probs.append(('placed', 'there is a path on which the resume label %s is never placed with put_label: `case N: goto label` does not compile / resumes nowhere' % labv))
        if 'set' not in st:
            probs.append(('set', 'there is a path on which ->resume_label is not set to the yield number %s' % numv))
        if 'ret' not in st:
            probs.append(('ret', 'there is a path on which no `return` is emitted at the yield point'))
    return sorted(set(probs))


def rule_YL(ctx, floor=5):
    r = Rule('C23-YL', 'yield points and the resume switch agree: new_yield_label() registers the (number >= 1, fresh label) pair it returns; '
             'every yield site stores that number in ->resume_label, returns, then places that label; the switch in GeneratorBodyDefNode '
             'has `case 0` for the first run and one `case number: goto label` per registered pair, emitted after the body was generated', floor)
    fn = _find_method(ctx, 'Cython/Compiler/Code.py', 'FunctionState', 'new_yield_label')
    if fn is None:
        raise AnalysisError('Code.FunctionState.new_yield_label vanished')
    r.inst('Code.FunctionState.new_yield_label', sample='FunctionState.new_yield_label')
    for k, msg in check_new_yield_label(fn):
        r.violate('Code.FunctionState.new_yield_label:' + k, 'Cython/Compiler/Code.py', fn.lineno, 'FunctionState.new_yield_label ' + msg)
    # the CCodeWriter forwarder
    fw = _find_method(ctx, 'Cython/Compiler/Code.py', 'CCodeWriter', 'new_yield_label')
    if fw is not None:
        r.inst('Code.CCodeWriter.new_yield_label')
        ok = any(isinstance(n, ast.Return) and isinstance(n.value, ast.Call) and isinstance(n.value.func, ast.Attribute) and n.value.func.attr == 'new_yield_label'
                 for n in ast.walk(fw))
        if not ok:
            r.violate('Code.CCodeWriter.new_yield_label:forward', 'Cython/Compiler/Code.py', fw.lineno,
                      'CCodeWriter.new_yield_label does not return funcstate.new_yield_label(...): yield sites get no (number, label) pair')
    gf = _find_method(ctx, 'Cython/Compiler/Nodes.py', 'GeneratorBodyDefNode', 'generate_function_definitions')
    if gf is None:
        raise AnalysisError('Nodes.GeneratorBodyDefNode.generate_function_definitions vanished')
    insts, probs, case0 = check_resume_switch(gf)
    for i in insts:
        r.inst('Nodes.GeneratorBodyDefNode:' + i, sample='resume switch: ' + i)
    for k, msg in probs:
        r.violate('Nodes.GeneratorBodyDefNode.generate_function_definitions:' + k, 'Cython/Compiler/Nodes.py', gf.lineno, 'GeneratorBodyDefNode: ' + msg)
    # yield sites: every function of the compiler that calls new_yield_label
    sites = 0
    base = ctx.path('Cython/Compiler')
    if not os.path.isdir(base):
        raise AnalysisError('Cython/Compiler missing')
    for fnm in sorted(os.listdir(base)):
        if not fnm.endswith('.py'):
            continue
        rel = 'Cython/Compiler/' + fnm
        txt = ctx.read(rel)
        if 'new_yield_label' not in txt:
            continue
        # the top-level classes that mention the name (whole module if it is used outside a top-level class)
        owners, cur = [], None
        for ln in txt.split('\n'):
            if ln[:1] not in ('', ' ', '\t', '#', ')'):
                mc = re.match(r'class (\w+)', ln)
                cur = mc.group(1) if mc else None
            if 'new_yield_label' in ln and cur not in owners:
                owners.append(cur)
        if None in owners:
            classes = [n for n in ast.walk(ctx.parse(rel)) if isinstance(n, ast.ClassDef)]
        else:
            classes = [c for c in (_class_ast(ctx, rel, o) for o in owners) if c is not None]
        for cls in classes:
            for m in cls.body:
                if not isinstance(m, ast.FunctionDef) or m.name == 'new_yield_label':
                    continue
                if any(isinstance(x, ast.Call) and isinstance(x.func, ast.Attribute) and x.func.attr == 'new_yield_label' for x in _walk(m)):
                    sites += 1
                    key = '%s.%s.%s' % (fnm[:-3], cls.name, m.name)
                    r.inst(key, sample=key + ' is a yield site')
                    for k, msg in check_yield_site(m):
                        r.violate('%s:%s' % (key, k), rel, m.lineno, '%s: %s' % (key, msg))
    if not sites:
        raise AnalysisError('no caller of new_yield_label() found in Cython/Compiler')
    pc1 = ast.parse("def new_yield_label(self, t='y'):\n    label = self.new_label('r')\n    p = (len(self.yield_labels), label)\n    self.yield_labels.append(p)\n    return p\n").body[0]
    pc2 = ast.parse("def g(self, code):\n    n, l = code.new_yield_label('y')\n    code.putln('return %s;' % Naming.retval_cname)\n"
                    "    code.putln('%s->resume_label = %d;' % (Naming.generator_cname, n))\n    code.put_label(l)\n").body[0]
    pc3 = ast.parse("def g(self, code):\n    n, l = code.new_yield_label('y')\n    code.putln('%s->resume_label = %d;' % (Naming.generator_cname, n))\n"
                    "    code.putln('return %s;' % Naming.retval_cname)\n    code.put_label(l)\n").body[0]
    r.positive_control(any(k == 'number' for k, _ in check_new_yield_label(pc1)) and bool(check_yield_site(pc2)) and not check_yield_site(pc3),
                       'numbering from 0; return emitted before resume_label is set; (a correct site stays silent)')
    return r


def _drop_asserts(body):
    """remove assert(...) expressions: a test that is meant to be always true is not a state dispatch"""
    out, i = '', 0
    for m in re.finditer(r'\bassert\s*\(', body):
        if m.start() < i:
            continue
        j = match_paren(body, m.end() - 1)
        if j < 0:
            continue
        out += body[i:m.start()]
        i = j + 1
    return out + body[i:]


def rule_RL(ctx, floor=6):
    """Every constant the C side compares ->resume_label with separates values that are really stored."""
    r = Rule('C23-RL', 'resume_label value agreement: the compiler stores -1 (finished) and 1..n (yield points), the C constructor stores the '
             'first-run case number; every C test `->resume_label OP const` distinguishes values that are actually stored', floor)
    gf = _find_method(ctx, 'Cython/Compiler/Nodes.py', 'GeneratorBodyDefNode', 'generate_function_definitions')
    if gf is None:
        raise AnalysisError('Nodes.GeneratorBodyDefNode.generate_function_definitions vanished')
    finished = set()
    case0 = None
    for n in _walk(gf):
        if isinstance(n, ast.Call) and isinstance(n.func, ast.Attribute) and n.func.attr in ('putln', 'put'):
            fa = _fmt_args(n)
            if not fa:
                continue
            for m in re.finditer(r'->\s*resume_label\s*=\s*(-?\d+)\s*;', fa[0]):
                finished.add(int(m.group(1)))
            m = re.search(r'case\s+(-?\d+)\s*:\s*goto', fa[0])
            if m:
                case0 = int(m.group(1))
    if case0 is None:
        raise AnalysisError('GeneratorBodyDefNode no longer emits a constant first-run case')
    r.inst('finished-marker', sample='finished marker(s) %s, first-run case %d' % (sorted(finished), case0))
    if not finished:
        # the emission itself is the obligation: without it nothing ever tells the C runtime that the body ran to its end
        r.violate('finished-marker:missing', 'Cython/Compiler/Nodes.py', gf.lineno,
                  'GeneratorBodyDefNode.generate_function_definitions emits no `->resume_label = <negative constant>;` in the exit code of the generator body: a generator that '
                  'returned keeps the number of its last yield point, the next send()/next() jumps back into the finished body (the C runtime tests resume_label == -1 for "terminated")')
        finished = {-1}     # the value the C side tests for; the remaining clauses are evaluated against it
    for t in sorted(finished):
        if t >= 0:
            r.violate('finished-marker', 'Cython/Compiler/Nodes.py', gf.lineno,
                      'the generator body marks itself finished with resume_label = %d, which is also the number of a live state '
                      '(first run %d / yield points 1..n): a finished generator would be resumed' % (t, case0))
    cat = ctx.cat
    inits = []
    tests = []
    for d in _funcs(cat):
        body = _drop_asserts(d.body)
        for m in re.finditer(r'->\s*resume_label\s*(==|!=|<=|>=|<|>|=)\s*(-?\s*\d+)\b', body):
            op, c = m.group(1), int(m.group(2).replace(' ', ''))
            (inits if op == '=' else tests).append((d, op, c))
    if not inits:
        raise AnalysisError('no C function initialises ->resume_label')
    for d, op, c in inits:
        r.inst('%s:init' % d.name, sample='%s stores resume_label = %d' % (d.name, c))
        if c != case0 and c not in finished:
            r.violate('%s:init' % d.name, 'Cython/Utility/' + d.file, d.line,
                      '%s initialises resume_label to %d but the resume switch starts the body at `case %d`: a new generator falls into `default` and '
                      'finishes without running' % (d.name, c, case0))
    stored = sorted(finished | {c for _, _, c in inits} | {1, 2, 3})      # 1..n stand for the yield numbers (>= 1 by rule YL)

    def outcome(op, c, v):
        return {'==': v == c, '!=': v != c, '<': v < c, '<=': v <= c, '>': v > c, '>=': v >= c}[op]

    def dead(op, c, values):
        return len({outcome(op, c, v) for v in values}) == 1
    for d, op, c in tests:
        key = '%s:resume_label%s%d' % (d.name, op, c)
        r.inst(key, sample='%s tests resume_label %s %d' % (d.name, op, c))
        if dead(op, c, stored):
            r.violate(key, 'Cython/Utility/' + d.file, d.line,
                      '%s tests `resume_label %s %d`, which has the same outcome for every value that is ever stored (%s finished, %s first run, 1..n yield points): '
                      'the finished/unstarted state it is meant to recognise is encoded differently by the compiler'
                      % (d.name, op, c, sorted(finished), case0))
    r.positive_control(dead('==', -1, [-2, 0, 1, 2, 3]) and not dead('==', -1, [-1, 0, 1, 2, 3]), 'C test == -1 against a finished marker of -2')
    return r
