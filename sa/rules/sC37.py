"""C37 strengthening: decision tables of the prange exit protocol and the trip-count arithmetic.

Two rules, both built on a small *world evaluator* for decision fragments of compiler methods (class Mini below):
the method's Python code is interpreted by the checker over a finite, completely enumerated abstract domain (a "world"
fixes the facts the decisions depend on, e.g. which kinds of exit labels the loop body used); tests that do not depend
on the world fork both ways; constructs the evaluator does not know raise AnalysisError.  Nothing from the repository is
imported or run; the result is a table "world -> what is emitted", which is compared with what the protocol needs.

C37-EMIT   for every construct (parallel block / prange) x every set U of exit kinds used by the body: whatever
           trap_parallel_exit writes or saves in that world is declared, initialised, preferred and dispatched by
           end_parallel_control_flow_block in the same world (and the `if (why < N)` guards are emitted whenever a
           breaking exit is trapped).
C37-TRIP   the emitted trip count `nsteps = ...`, the loop header `for (i = 0; i < nsteps; i++)` and the index formula
           `target = start + step * i` enumerate exactly range(start, stop, step): the extracted C expressions are evaluated
           with C semantics over every residue class of (stop - start) modulo |step| for small moduli, both directions,
           empty ranges included, per way the step can be known to the compiler (absent / literal / run time).
"""
import ast, itertools, re

from ..core import Rule, AnalysisError, node_src
from ..engine import cexpr
from ..engine.pyindex import walk_no_nested, is_self_attr
from . import pC37

EMIT = pC37.EMIT


# ================================================================================================ world evaluator
class _Unknown:
    def __repr__(self):
        return 'UNK'

    def __bool__(self):
        raise AnalysisError('internal: truth value of an unknown taken')


UNK = _Unknown()


class Sym:
    """An opaque object of the compiler (a node, a scope ...) whose attributes are given by the world."""
    def __init__(self, name, attrs=None, methods=None):
        self.name, self.attrs, self.methods = name, attrs or {}, methods or {}

    def __repr__(self):
        return '<%s>' % self.name


class Label:
    def __init__(self, kind):
        self.kind = kind

    def __eq__(self, o):
        return isinstance(o, Label) and o.kind == self.kind

    def __hash__(self):
        return hash(('label', self.kind))

    def __repr__(self):
        return 'Label(%s)' % self.kind


class State:
    __slots__ = ('env', 'attrs', 'facts', 'trace')

    def __init__(self, env=None, attrs=None, facts=None, trace=None):
        self.env, self.attrs, self.facts, self.trace = env or {}, attrs or {}, facts or {}, trace or []

    def copy(self):
        return State(dict(self.env), dict(self.attrs), dict(self.facts), list(self.trace))


SPEC = re.compile(r'%(?:\((\w+)\))?[-#0 +]*(?:\d+)?(?:\.\d+)?([diouxXeEfFgGcrsa%])')
PH = '\xa7'


class Mini:
    """Interprets one FunctionDef over concrete/unknown values.  oracle(node, state, mini) may give the value of any
    expression node (return NotImplemented to fall through); on_call(node, state, mini, args, kwargs) is told about every
    call the evaluator does not interpret itself (in evaluation order) and may return a value."""

    def __init__(self, oracle=None, on_call=None, max_paths=3000, what='?', inliner=None, depth=0):
        self.oracle, self.on_call, self.max_paths, self.what = oracle, on_call, max_paths, what
        self.inliner, self.depth = inliner, depth        # inliner(method name) -> FunctionDef of a self.<method> helper to interpret in place
        self.dict_names = set()

    # ------------------------------------------------------------ expressions
    def ev(self, n, st):
        if self.oracle is not None:
            v = self.oracle(n, st, self)
            if v is not NotImplemented:
                return v
        if isinstance(n, ast.Constant):
            return n.value
        if isinstance(n, ast.Name):
            return st.env.get(n.id, UNK)
        if isinstance(n, ast.Attribute):
            if is_self_attr(n):
                return st.attrs.get(n.attr, UNK)
            b = self.ev(n.value, st)
            if isinstance(b, Sym):
                return b.attrs.get(n.attr, UNK)
            return UNK
        if isinstance(n, ast.Tuple):
            return tuple(self.ev(e, st) for e in n.elts)
        if isinstance(n, (ast.List, ast.Dict, ast.Set, ast.ListComp, ast.DictComp, ast.SetComp, ast.GeneratorExp, ast.JoinedStr, ast.Lambda)):
            return UNK          # mutable / lazy values are not tracked
        if isinstance(n, ast.BoolOp):
            x = UNK
            for v in n.values:
                t = self.truth(v, st)
                if t is None:
                    whole = self.truth(n, st)
                    return UNK if whole is None else whole
                x = self.ev(v, st)
                if (isinstance(n.op, ast.And) and not t) or (isinstance(n.op, ast.Or) and t):
                    return x
            return x
        if isinstance(n, ast.UnaryOp):
            if isinstance(n.op, ast.Not):
                t = self.truth(n.operand, st)
                return UNK if t is None else (not t)
            v = self.ev(n.operand, st)
            if isinstance(n.op, ast.USub) and isinstance(v, int):
                return -v
            return UNK
        if isinstance(n, ast.Compare):
            t = self.truth(n, st)
            return UNK if t is None else t
        if isinstance(n, ast.IfExp):
            t = self.truth(n.test, st)
            if t is None:
                a, b = self.ev(n.body, st), self.ev(n.orelse, st)
                return a if (a is not UNK and b is not UNK and type(a) is type(b) and a == b) else UNK
            return self.ev(n.body if t else n.orelse, st)
        if isinstance(n, ast.BinOp):
            a, b = self.ev(n.left, st), self.ev(n.right, st)
            if a is UNK or b is UNK:
                return UNK
            try:
                if isinstance(n.op, ast.Add) and type(a) is type(b) and isinstance(a, (int, tuple, str)):
                    return a + b
                if isinstance(a, int) and isinstance(b, int) and not isinstance(a, bool) and not isinstance(b, bool):
                    if isinstance(n.op, ast.Sub):
                        return a - b
                    if isinstance(n.op, ast.Mult):
                        return a * b
            except Exception:
                return UNK
            return UNK
        if isinstance(n, ast.Subscript):
            b, i = self.ev(n.value, st), self.ev(n.slice, st)
            if isinstance(b, tuple) and isinstance(i, int):
                try:
                    return b[i]
                except IndexError:
                    return UNK
            return UNK
        if isinstance(n, ast.Call):
            return self.call(n, st)
        if isinstance(n, ast.Starred):
            return UNK
        raise AnalysisError('%s: expression not modelled: %s' % (self.what, node_src(n, 60)))

    def call(self, n, st):
        args = [self.ev(a, st) for a in n.args]
        kwargs = {k.arg: self.ev(k.value, st) for k in n.keywords}
        f = n.func
        if isinstance(f, ast.Name) and not n.keywords:
            if f.id == 'bool' and len(n.args) == 1:
                t = self.truth(n.args[0], st)
                return UNK if t is None else t
            if f.id == 'isinstance' and len(args) == 2 and isinstance(n.args[1], ast.Name) and n.args[1].id in ('int', 'str', 'tuple', 'bool'):
                v = args[0]
                if v is UNK or isinstance(v, Sym):
                    return UNK if v is UNK else False
                return isinstance(v, {'int': int, 'str': str, 'tuple': tuple, 'bool': bool}[n.args[1].id])
            if f.id == 'len' and len(args) == 1 and isinstance(args[0], (tuple, str)):
                return len(args[0])
            if f.id in ('tuple',) and len(args) == 1 and isinstance(args[0], tuple):
                return args[0]
            if f.id == 'int' and len(args) == 1 and isinstance(args[0], int):
                return int(args[0])
            if f.id == 'abs' and len(args) == 1 and isinstance(args[0], int):
                return abs(args[0])
        if isinstance(f, ast.Attribute):
            b = self.ev(f.value, st) if not is_self_attr(f) else None
            if isinstance(b, Sym) and f.attr in b.methods:
                return b.methods[f.attr](*args, **kwargs)
        if self.on_call is not None:
            v = self.on_call(n, st, self, args, kwargs)
            if v is not NotImplemented and v is not None:
                return v
        if is_self_attr(f) and self.inliner is not None and not st.env.get('__stop__'):
            callee = self.inliner(f.attr)
            if callee is not None:
                v = self.inline(callee, n, args, kwargs, st) if self.depth < 3 else NotImplemented
                if v is not NotImplemented:
                    return v
                st.trace.append(('opaque', f.attr, None, n))
        return UNK

    def inline(self, callee, n, args, kwargs, st):
        """Interpret a helper method in place when it has exactly one normal path in this state (a straight-line helper extracted from the
        analysed method); otherwise the call stays opaque (and is marked so in the trace)."""
        a = callee.args
        params = [x.arg for x in a.posonlyargs + a.args][1:]
        if len(args) > len(params) or any(isinstance(x, ast.Starred) for x in n.args) or any(k.arg is None for k in n.keywords):
            return NotImplemented
        bound = dict(zip(params, args))
        bound.update(kwargs)
        sub = Mini(self.oracle, self.on_call, self.max_paths, callee.name, self.inliner, self.depth + 1)
        s2 = State({}, dict(st.attrs), dict(st.facts), list(st.trace))
        try:
            paths = [p for p in sub.run(callee, s2, bound) if p[1] != 'raise']
        except AnalysisError:
            return NotImplemented
        if len(paths) != 1:
            return NotImplemented
        s3, flow, val = paths[0]
        st.attrs.clear()
        st.attrs.update(s3.attrs)
        st.trace[:] = s3.trace
        self.dict_names |= sub.dict_names
        return UNK if val is None and flow != 'return' else (val if val is not None else UNK)

    def truth(self, n, st):
        """True / False / None (not decided in this world)."""
        if st.facts:
            key = ast.unparse(n)
            if key in st.facts:
                return st.facts[key]
        if isinstance(n, ast.BoolOp):
            ts = [self.truth(v, st) for v in n.values]
            if isinstance(n.op, ast.And):
                return False if any(t is False for t in ts) else True if all(t is True for t in ts) else None
            return True if any(t is True for t in ts) else False if all(t is False for t in ts) else None
        if isinstance(n, ast.UnaryOp) and isinstance(n.op, ast.Not):
            t = self.truth(n.operand, st)
            return None if t is None else (not t)
        if isinstance(n, ast.Compare):
            if self.oracle is not None:
                v = self.oracle(n, st, self)
                if v is not NotImplemented:
                    return None if v is UNK else bool(v)
            left = self.ev(n.left, st)
            res = True
            for op, c in zip(n.ops, n.comparators):
                right = self.ev(c, st)
                r = self.cmp(op, left, right)
                if r is None:
                    return None
                if not r:
                    res = False
                left = right
            return res
        v = self.ev(n, st)
        if v is UNK:
            return None
        if isinstance(v, (Sym, Label)):
            return True
        return bool(v)

    @staticmethod
    def cmp(op, a, b):
        if isinstance(op, (ast.Is, ast.IsNot)):
            if a is UNK or b is UNK:
                return None
            if a is None or b is None or isinstance(a, bool) or isinstance(b, bool):
                same = a is b
            elif isinstance(a, (Sym, Label)) or isinstance(b, (Sym, Label)):
                same = (a == b)
            else:
                return None
            return same if isinstance(op, ast.Is) else not same
        if a is UNK or b is UNK:
            return None
        if isinstance(op, (ast.Eq, ast.NotEq)):
            if isinstance(a, tuple) and UNK in a or isinstance(b, tuple) and UNK in b:
                return None
            return (a == b) if isinstance(op, ast.Eq) else (a != b)
        if isinstance(op, (ast.In, ast.NotIn)):
            if isinstance(b, (tuple, str, frozenset)) and not (isinstance(b, tuple) and UNK in b):
                try:
                    r = a in b
                except TypeError:
                    return None
                return r if isinstance(op, ast.In) else not r
            return None
        if isinstance(a, int) and isinstance(b, int):
            return {ast.Lt: a < b, ast.LtE: a <= b, ast.Gt: a > b, ast.GtE: a >= b}[type(op)]
        return None

    # ------------------------------------------------------------ templates
    def render(self, node, st):
        """Emitted C text of a string expression in this state: definite parts inline, %(key)s of a dict operand as the bare key,
        anything else as the placeholder character.  None = not a string template."""
        if isinstance(node, ast.Constant) and isinstance(node.value, str):
            return node.value.replace(PH, '?')
        if isinstance(node, ast.JoinedStr):
            out = ''
            for v in node.values:
                if isinstance(v, ast.Constant):
                    out += str(v.value).replace(PH, '?')
                else:
                    out += self._piece(v.value, st) if v.format_spec is None and v.conversion == -1 else PH
            return out
        if isinstance(node, ast.BinOp) and isinstance(node.op, ast.Add):
            a, b = self.render(node.left, st), self.render(node.right, st)
            return None if a is None or b is None else a + b
        if isinstance(node, ast.BinOp) and isinstance(node.op, ast.Mod):
            fmt = self.render(node.left, st)
            if fmt is None or PH in fmt:
                return None
            specs = [m for m in SPEC.finditer(fmt) if m.group(2) != '%']
            right = node.right
            named = [m for m in specs if m.group(1)]
            if named:
                if len(named) != len(specs):
                    return None
                out, pos = '', 0
                for m in SPEC.finditer(fmt):
                    out += fmt[pos:m.start()]
                    pos = m.end()
                    out += '%' if m.group(2) == '%' else m.group(1)
                if isinstance(right, ast.Name):
                    self.dict_names.add(right.id)
                return out + fmt[pos:]
            if isinstance(right, ast.Tuple):
                pieces = [self._piece(e, st) for e in right.elts]
            else:
                v = self.ev(right, st)
                if isinstance(v, tuple) and len(v) == len(specs):
                    pieces = [self._show(x) for x in v]
                elif len(specs) == 1:
                    pieces = [self._piece(right, st)]
                else:
                    return None
            if len(pieces) != len(specs):
                return None
            out, pos, k = '', 0, 0
            for m in SPEC.finditer(fmt):
                out += fmt[pos:m.start()]
                pos = m.end()
                if m.group(2) == '%':
                    out += '%'
                else:
                    out += pieces[k]
                    k += 1
            return out + fmt[pos:]
        return None

    def _piece(self, e, st):
        if isinstance(e, ast.Subscript) and isinstance(e.value, ast.Name) and isinstance(e.slice, ast.Constant) and isinstance(e.slice.value, str) \
                and st.env.get(e.value.id, UNK) is UNK:
            self.dict_names.add(e.value.id)
            return e.slice.value
        return self._show(self.ev(e, st))

    @staticmethod
    def _show(v):
        if isinstance(v, bool) or v is None:
            return PH
        if isinstance(v, (str, int)):
            return str(v)
        return PH

    # ------------------------------------------------------------ statements
    def run(self, fn, st, bound=None):
        """-> list of (state, flow, value) for every path through fn; flow in next/return/raise."""
        a = fn.args
        params = [x.arg for x in a.posonlyargs + a.args]
        defaults = dict(zip(params[len(params) - len(a.defaults):], a.defaults))
        for p in params[1:]:
            if bound is not None and p in bound:
                st.env[p] = bound[p]
            elif p in defaults:
                st.env[p] = self.ev(defaults[p], st)
            else:
                st.env[p] = UNK
        for p, d in zip(a.kwonlyargs, a.kw_defaults):
            st.env[p.arg] = bound[p.arg] if bound is not None and p.arg in bound else (self.ev(d, st) if d is not None else UNK)
        self._paths = 0
        out = []
        for s, flow, val in self.block(fn.body, st):
            out.append((s, 'next' if flow in ('next',) else flow, val))
        return out

    def block(self, stmts, st):
        cur = [(st, 'next', None)]
        for s in stmts:
            nxt = []
            for state, flow, val in cur:
                if flow != 'next':
                    nxt.append((state, flow, val))
                else:
                    nxt.extend(self.stmt(s, state))
            cur = [(a, 'return' if (f == 'next' and a.env.get('__stop__')) else f, v) for a, f, v in nxt]
            if len(cur) > self.max_paths:
                raise AnalysisError('%s: more than %d paths' % (self.what, self.max_paths))
        return cur

    def assign(self, t, v, st):
        if isinstance(t, ast.Name):
            st.env[t.id] = v
            for k in [k for k in st.facts if re.search(r'\b%s\b' % re.escape(t.id), k)]:
                del st.facts[k]
        elif is_self_attr(t):
            st.attrs[t.attr] = v
            for k in [k for k in st.facts if re.search(r'\bself\.%s\b' % re.escape(t.attr), k)]:
                del st.facts[k]
        elif isinstance(t, (ast.Tuple, ast.List)):
            if isinstance(v, tuple) and len(v) == len(t.elts):
                for e, x in zip(t.elts, v):
                    self.assign(e, x, st)
            else:
                for e in t.elts:
                    self.assign(e, UNK, st)
        elif isinstance(t, (ast.Subscript, ast.Attribute)):
            pass
        elif isinstance(t, ast.Starred):
            self.assign(t.value, UNK, st)
        else:
            raise AnalysisError('%s: assignment target not modelled: %s' % (self.what, node_src(t, 40)))

    def iterate(self, it, st):
        """-> list of per-iteration target values, or None when the iterable is not known."""
        if isinstance(it, ast.Call) and isinstance(it.func, ast.Name) and it.func.id == 'enumerate' and it.args:
            seq = self.iterate(it.args[0], st)
            start = 0
            if len(it.args) > 1:
                start = self.ev(it.args[1], st)
            for k in it.keywords:
                if k.arg == 'start':
                    start = self.ev(k.value, st)
            if seq is None or not isinstance(start, int):
                return None
            return [(i + start, x) for i, x in enumerate(seq)]
        if isinstance(it, ast.Call) and isinstance(it.func, ast.Name) and it.func.id == 'zip' and it.args and not it.keywords:
            seqs = [self.iterate(a, st) for a in it.args]
            if any(s is None for s in seqs):
                return None
            return [tuple(row) for row in zip(*seqs)]
        v = self.ev(it, st)
        if isinstance(v, tuple):
            return list(v)
        return None

    def stmt(self, s, st):
        if isinstance(s, ast.Expr):
            self.ev(s.value, st)
            return [(st, 'next', None)]
        if isinstance(s, ast.Assign):
            v = self.ev(s.value, st)
            for t in s.targets:
                self.assign(t, v, st)
            return [(st, 'next', None)]
        if isinstance(s, ast.AnnAssign):
            if s.value is not None:
                self.assign(s.target, self.ev(s.value, st), st)
            return [(st, 'next', None)]
        if isinstance(s, ast.AugAssign):
            cur = self.ev(ast.copy_location(ast.BinOp(left=_load(s.target), op=s.op, right=s.value), s), st) \
                if isinstance(s.target, (ast.Name, ast.Attribute)) else UNK
            self.assign(s.target, cur, st)
            return [(st, 'next', None)]
        if isinstance(s, ast.If):
            t = self.truth(s.test, st)
            if t is not None:
                return self.block(s.body if t else s.orelse, st)
            key = ast.unparse(s.test)
            pure = not any(isinstance(x, ast.Call) and not (isinstance(x.func, ast.Name) and x.func.id in ('isinstance', 'len', 'bool')) and
                           not (isinstance(x.func, ast.Attribute) and not x.args and not x.keywords) for x in ast.walk(s.test))
            out = []
            for truth, body in ((True, s.body), (False, s.orelse)):
                s2 = st.copy()
                if pure:
                    s2.facts[key] = truth
                out.extend(self.block(body, s2))
            return out
        if isinstance(s, ast.For):
            items = self.iterate(s.iter, st)
            if items is None:
                # unknown iterable: zero iterations, or one iteration with unknown targets
                s0 = st.copy()
                res = list(self.block(s.orelse, s0)) if s.orelse else [(s0, 'next', None)]
                s1 = st.copy()
                self.assign(s.target, UNK, s1)
                for state, flow, val in self.block(s.body, s1):
                    if flow in ('break', 'continue'):
                        flow = 'next'
                    res.append((state, flow, val))
                return res
            cur = [(st, 'next', None)]
            for item in items:
                nxt = []
                for state, flow, val in cur:
                    if flow != 'next':
                        nxt.append((state, flow, val))
                        continue
                    self.assign(s.target, item, state)
                    for s3, f3, v3 in self.block(s.body, state):
                        if f3 == 'continue':
                            f3 = 'next'
                        nxt.append((s3, f3, v3))
                cur = nxt
                if len(cur) > self.max_paths:
                    raise AnalysisError('%s: more than %d paths' % (self.what, self.max_paths))
            out = []
            for state, flow, val in cur:
                if flow == 'break':
                    out.append((state, 'next', None))
                elif flow == 'next' and s.orelse:
                    out.extend(self.block(s.orelse, state))
                else:
                    out.append((state, flow, val))
            return out
        if isinstance(s, ast.Return):
            return [(st, 'return', self.ev(s.value, st) if s.value is not None else None)]
        if isinstance(s, ast.Raise):
            return [(st, 'raise', None)]
        if isinstance(s, ast.Continue):
            return [(st, 'continue', None)]
        if isinstance(s, ast.Break):
            return [(st, 'break', None)]
        if isinstance(s, (ast.Pass, ast.Global, ast.Nonlocal, ast.Import, ast.ImportFrom, ast.Assert, ast.Delete)):
            return [(st, 'next', None)]
        if isinstance(s, (ast.FunctionDef, ast.ClassDef)):
            st.env[s.name] = UNK
            return [(st, 'next', None)]
        if isinstance(s, ast.With):
            for it in s.items:
                v = self.ev(it.context_expr, st)
                if it.optional_vars is not None:
                    self.assign(it.optional_vars, UNK, st)
            return self.block(s.body, st)
        raise AnalysisError('%s: statement not modelled: %s' % (self.what, node_src(s, 60)))


def _load(t):
    t2 = ast.copy_location(ast.Name(id=t.id, ctx=ast.Load()), t) if isinstance(t, ast.Name) else \
        ast.copy_location(ast.Attribute(value=t.value, attr=t.attr, ctx=ast.Load()), t)
    return t2


def path_conditions(fn, target):
    """[(test node, polarity)] that must hold for control to reach `target` (a node inside fn): enclosing if-branches plus the
    negation of every earlier `if T: <always leaves>` in the enclosing statement lists (early return / raise / continue)."""
    found = []

    def leaves(stmts):
        for s in stmts:
            if isinstance(s, (ast.Return, ast.Raise, ast.Continue, ast.Break)):
                return True
            if isinstance(s, ast.If) and s.orelse and leaves(s.body) and leaves(s.orelse):
                return True
        return False

    def contains(s):
        return any(x is target for x in ast.walk(s))

    def rec(stmts, conds):
        conds = list(conds)
        for s in stmts:
            if contains(s):
                if isinstance(s, ast.If):
                    if any(x is target for x in ast.walk(s.test)):
                        found.append(conds)
                    elif any(contains(b) for b in s.body):
                        rec(s.body, conds + [(s.test, True)])
                    else:
                        rec(s.orelse, conds + [(s.test, False)])
                elif isinstance(s, (ast.For, ast.While)):
                    rec(s.body if any(contains(b) for b in s.body) else s.orelse, conds)
                elif isinstance(s, ast.With):
                    rec(s.body, conds)
                elif isinstance(s, ast.Try):
                    for part in [s.body, s.orelse, s.finalbody] + [h.body for h in s.handlers]:
                        if any(contains(b) for b in part):
                            rec(part, conds)
                else:
                    found.append(conds)
                return
            if isinstance(s, ast.If):
                if leaves(s.body) and not s.orelse:
                    conds.append((s.test, False))
                elif s.orelse and leaves(s.orelse) and not leaves(s.body):
                    conds.append((s.test, True))
                elif s.orelse and leaves(s.body) and not leaves(s.orelse):
                    conds.append((s.test, False))
    rec(fn.body, [])
    if len(found) != 1:
        raise AnalysisError('cannot locate %s inside %s' % (node_src(target, 50), fn.name))
    return found[0]


def const_attr_node(ctx, cls, attr):
    """The one expression node self.<attr> is bound to in the class family (class-level constant, or a single `self.<attr> = ...` in a
    method), when it is a tuple/string literal; else None."""
    ix = ctx.index
    binds = []
    for c in ix.mro(cls) + ix.subclasses(cls):
        if attr in c.attrs:
            binds.append(c.attrs[attr])
        for fn in c.methods.values():
            for n in walk_no_nested(fn):
                if isinstance(n, (ast.Assign, ast.AugAssign, ast.AnnAssign)):
                    tgts = n.targets if isinstance(n, ast.Assign) else [n.target]
                    for t in tgts:
                        for x in ast.walk(t):
                            if is_self_attr(x) and x.attr == attr:
                                binds.append(n.value if isinstance(n, ast.Assign) and t is x else None)
    if len(binds) != 1 or binds[0] is None:
        return None
    v = binds[0]
    if isinstance(v, ast.Tuple) or (isinstance(v, ast.Constant) and isinstance(v.value, str)):
        return v
    return None


def class_const(ctx, cls, attr, mini, st):
    """Value of self.<attr> when the class family binds it exactly once, to a tuple/string literal; else NotImplemented."""
    key = ('sC37.const', cls.qual, attr)
    v = ctx.memo(key, lambda: const_attr_node(ctx, cls, attr))
    if v is None:
        return NotImplemented
    return mini.ev(v, st)


# ================================================================================================ C37-EMIT
KINDS = ('continue', 'break', 'return', 'error')
BREAKING = ('break', 'return', 'error')


def _label_oracle(ctx, U, kinds, fresh, cls=None):
    naming = pC37.naming_values(ctx)

    def oracle(n, st, mini):
        if cls is not None and is_self_attr(n) and n.attr not in st.attrs:
            return class_const(ctx, cls, n.attr, mini, st)
        if isinstance(n, ast.Attribute) and isinstance(n.value, ast.Name):
            if n.value.id == 'Naming':
                return naming.get(n.attr, UNK)
            if n.value.id != 'self' and pC37.label_kind(n):
                return Label(pC37.label_kind(n))
        if isinstance(n, ast.Call) and isinstance(n.func, ast.Attribute) and not is_self_attr(n.func):
            a = n.func.attr
            if a == 'get_all_labels' and not n.args:
                return tuple(Label(k) for k in kinds)
            if a == 'label_used' and len(n.args) == 1:
                v = mini.ev(n.args[0], st)
                if isinstance(v, Label):
                    return v.kind in U
                return UNK
            if a == 'new_label':
                fresh[0] += 1
                return Label('tmp%d' % fresh[0])
        return NotImplemented
    return oracle


def helper_inliner(ctx, cls, needles, skip=()):
    """inliner for Mini: self.<name> helpers of cls whose source mentions one of the needles (so that emissions moved into a helper stay visible)."""
    ix = ctx.index

    def get(name):
        if name in skip:
            return None
        def build():
            r = ix.find_method(cls, name)
            if r is None:
                return None
            src = ast.unparse(r[1])
            return r[1] if any(x in src for x in needles) else None
        return ctx.memo(('sC37.inl', cls.qual, name, tuple(needles)), build)
    return get


EMIT_NEEDLES = ('parallel_why', 'parallel_exc')


def _recorder(n, st, mini, args, kwargs):
    f = n.func
    if isinstance(f, ast.Attribute):
        if f.attr in EMIT and n.args:
            text = mini.render(n.args[0], st)
            st.trace.append(('emit', ast.unparse(f.value), text, n))
        elif f.attr in ('put_label', 'put_goto') and args:
            st.trace.append((f.attr, args[0], None, n))
        elif is_self_attr(f):
            st.trace.append(('self', f.attr, None, n))
        else:
            st.trace.append(('call', f.attr, None, n))
    return NotImplemented


def trap_world(ctx, psn, trapfn, kinds, should_flush, U, why):
    """Evaluate trap_parallel_exit in the world `U` -> (flags set on self, kinds that store into why, fetch emitted?)"""
    fresh = [0]
    m = Mini(_label_oracle(ctx, U, kinds, fresh, psn), _recorder, what='trap_parallel_exit', inliner=helper_inliner(ctx, psn, EMIT_NEEDLES))
    paths = m.run(trapfn, State(), {'should_flush': should_flush})
    res = set()
    for st, flow, val in paths:
        if flow == 'raise':
            continue
        writers, fetch, cur = set(), False, None
        for ev in st.trace:
            if ev[0] == 'put_label' and isinstance(ev[1], Label):
                cur = ev[1].kind
            elif ev[0] == 'self' and ev[1] == 'fetch_parallel_exception':
                fetch = True
            elif ev[0] == 'emit' and ev[2] is not None and re.search(re.escape(why) + r'\s*=(?!=)', ev[2]):
                if cur is None:
                    raise AnalysisError('trap_parallel_exit stores into %s outside any label' % why)
                writers.add(cur)
        flags = tuple(sorted((k, v) for k, v in st.attrs.items() if isinstance(v, bool)))
        res.add((flags, frozenset(writers), fetch))
    if len(res) != 1:
        raise AnalysisError('trap_parallel_exit is not deterministic in the world U=%s (%d outcomes)' % (sorted(U), len(res)))
    flags, writers, fetch = next(iter(res))
    return dict(flags), writers, fetch


def _sites(ctx, psn):
    """[(class, method FunctionDef, end-call node, should_flush values of the trap calls of that class)]"""
    ix = ctx.index
    out = []
    for cls in [psn] + ix.subclasses(psn):
        traps = set()
        ends = []
        for name, fn in cls.methods.items():
            for c in walk_no_nested(fn):
                if pC37.self_call(c, ('trap_parallel_exit',)):
                    sf = False
                    if len(c.args) > 1:
                        sf = c.args[1]
                    for k in c.keywords:
                        if k.arg == 'should_flush':
                            sf = k.value
                    if isinstance(sf, ast.Constant):
                        sf = sf.value
                    if not isinstance(sf, bool):
                        raise AnalysisError('%s.%s: should_flush of trap_parallel_exit is not a constant' % (cls.name, name))
                    traps.add(sf)
                if pC37.self_call(c, ('end_parallel_control_flow_block',)):
                    ends.append((fn, c))
        for fn, c in ends:
            if len(traps) != 1:
                raise AnalysisError('%s: cannot pair end_parallel_control_flow_block with one trap_parallel_exit call (%d variants)' % (cls.name, len(traps)))
            out.append((cls, fn, c, next(iter(traps))))
    return out


def emit_problems(ctx, psn, trapfn, endfn, sites, guard_sites, codes, kinds, naming):
    """Yield (key, ok, sample, message, line) for every obligation of every world."""
    why, exc_type = naming['parallel_why'], naming['parallel_exc_type']
    params = [a.arg for a in endfn.args.args[1:]] + [a.arg for a in endfn.args.kwonlyargs]
    for cls, fn, call, should_flush in sites:
        env = pC37.local_assigns(fn)
        for r_ in range(len(KINDS) + 1):
            for U in itertools.combinations(KINDS, r_):
                U = frozenset(U)
                flags, writers, fetch = trap_world(ctx, psn, trapfn, kinds, should_flush, U, why)
                wname = '%s:U={%s}' % (cls.name, ','.join(k for k in KINDS if k in U))
                # arguments passed at the site, evaluated in the same world
                fresh = [0]
                m = Mini(_label_oracle(ctx, U, kinds, fresh), _recorder, what='%s.%s' % (cls.name, fn.name))
                st = State(attrs=dict(flags))
                bound = {}
                for i, a in enumerate(call.args):
                    if i < len(params) and i > 0:
                        bound[params[i]] = m.ev(pC37.deref(a, env), st)
                for k in call.keywords:
                    bound[k.arg] = m.ev(pC37.deref(k.value, env), st)
                for p, v in bound.items():
                    if v is UNK:
                        raise AnalysisError('%s.%s: cannot evaluate what is passed as %s to end_parallel_control_flow_block' % (cls.name, fn.name, p))
                m2 = Mini(_label_oracle(ctx, U, kinds, fresh, cls), _recorder, what='end_parallel_control_flow_block', inliner=helper_inliner(ctx, cls, EMIT_NEEDLES))
                paths = m2.run(endfn, State(attrs=dict(flags)), bound)
                paths = [p for p in paths if p[1] != 'raise']
                if not paths:
                    raise AnalysisError('end_parallel_control_flow_block has no normal path in world %s' % wname)

                def all_paths(pred):
                    for st, _, _ in paths:
                        if not any(ev[0] == 'emit' and ev[2] is not None and pred(ev[2]) for ev in st.trace):
                            op = [ev[1] for ev in st.trace if ev[0] == 'opaque']
                            if op:
                                raise AnalysisError('end_parallel_control_flow_block: helper self.%s() could not be interpreted in place (world %s); '
                                                    'cannot decide what it emits' % (op[0], wname))
                            return False
                    return True

                line = call.lineno
                others = writers - {'error'}
                if writers:
                    ok = all_paths(lambda t: re.search(r'\bint\s+' + re.escape(why) + r'\s*;', t)) and \
                        all_paths(lambda t: re.search(re.escape(why) + r'\s*=\s*0\s*;', t))
                    yield ('emit:decl:' + wname, ok, 'body uses {%s}: %s is written for %s -> declared and zeroed' % (','.join(sorted(U)), why, sorted(writers)),
                           'the body of a %s uses the exit kinds {%s}: trap_parallel_exit stores into %s for %s, but end_parallel_control_flow_block (called with %s) '
                           'does not emit the declaration `int %s;` and the `%s = 0;` initialisation in that case: the generated C does not compile / reads an '
                           'uninitialised exit code' % (cls.name, ','.join(sorted(U)), why, sorted(writers), _show_bound(bound), why, why), line)
                if fetch:
                    ok = all_paths(lambda t: 'PyObject' in t and re.search(r'\b' + re.escape(exc_type) + r'\b', t))
                    yield ('emit:exc-decl:' + wname, ok, 'error trapped -> %s declared' % exc_type,
                           'the body of a %s can raise (exit kinds {%s}): fetch_parallel_exception is emitted, but end_parallel_control_flow_block (called with %s) does '
                           'not declare the shared exception slots %s... in that case' % (cls.name, ','.join(sorted(U)), _show_bound(bound), exc_type), line)
                    case = r'\bcase\s+%d\s*:' % codes['error']

                    def restored(st):
                        seen_case = False
                        for ev in st.trace:
                            if ev[0] == 'emit' and ev[2] is not None and re.search(case, ev[2]):
                                seen_case = True
                            elif seen_case and ev[0] == 'self' and ev[1] == 'restore_parallel_exception':
                                return True
                        return False
                    ok = all(restored(st) for st, _, _ in paths)
                    yield ('emit:exc-dispatch:' + wname, ok, 'error trapped -> case %d re-raises' % codes['error'],
                           'the body of a %s can raise (exit kinds {%s}): the exception is saved by fetch_parallel_exception, but end_parallel_control_flow_block '
                           '(called with %s) does not emit `case %d:` + restore_parallel_exception in that case: the exception is swallowed and the saved '
                           'exception object leaks' % (cls.name, ','.join(sorted(U)), _show_bound(bound), codes['error']), line)
                if fetch and others:
                    ok = all_paths(lambda t: re.search(re.escape(why) + r'\s*=\s*%d\s*;' % codes['error'], t))
                    yield ('emit:prefer-error:' + wname, ok, 'error + %s trapped -> `%s = %d` fix-up emitted' % (sorted(others), why, codes['error']),
                           'the body of a %s uses the exit kinds {%s}: another thread can overwrite the error code in %s with the code of %s after an exception was '
                           'saved, but end_parallel_control_flow_block (called here with %s) does not emit the `if (%s) %s = %d;` fix-up in that case: the switch '
                           'sees %s, the exception is swallowed and the saved exception object leaks' % (
                               cls.name, ','.join(sorted(U)), why, '/'.join(sorted(others)), _show_bound(bound), exc_type, why, codes['error'],
                               '/'.join('%d' % codes[k] for k in sorted(others))), line)
                # guards around the loop body / else clause
                for gcls, gfn, gcall, extra in guard_sites:
                    if not ctx.index.is_subclass(cls, gcls.name) and cls is not gcls:
                        continue
                    if not (writers & set(BREAKING)):
                        continue
                    mg = Mini(_label_oracle(ctx, U, kinds, fresh), None, what='%s.%s' % (gcls.name, gfn.name))
                    sg = State(attrs=dict(flags))
                    vals = []
                    for test, pol in extra:
                        t = mg.truth(test, sg)
                        if t is None:
                            raise AnalysisError('%s.%s: cannot evaluate the condition `%s` of an exit-code guard in world %s' % (gcls.name, gfn.name, node_src(test, 50), wname))
                        vals.append(t == pol)
                    yield ('emit:guard:%s.%s:%s' % (gcls.name, gfn.name, wname), all(vals), 'breaking exit trapped -> guard emitted',
                           '%s.%s emits its `if (%s < N)` guard only under `%s`, which is false when the loop body uses the exit kinds {%s}: after a %s in one iteration '
                           'the remaining iterations (or the else clause) still run' % (
                               gcls.name, gfn.name, why, ' and '.join(('' if p else 'not ') + node_src(t, 50) for t, p in extra), ','.join(sorted(U)),
                               '/'.join(sorted(writers & set(BREAKING)))), gcall.lineno)


def _show_bound(bound):
    return ', '.join('%s=%s' % kv for kv in sorted(bound.items())) or 'no flags'


class _Deref(ast.NodeTransformer):
    def __init__(self, env):
        self.env = env

    def visit_Name(self, n):
        if isinstance(n.ctx, ast.Load) and len(self.env.get(n.id, ())) == 1:
            return self.visit(ast.parse(ast.unparse(self.env[n.id][0]), mode='eval').body) if self.depth_ok(n) else n
        return n

    _seen = 0

    def depth_ok(self, n):
        self._seen += 1
        return self._seen < 50


def guard_sites(ctx, prn, why):
    """Emissions of `if (why <op> N)` in the prange class with the conditions they have beyond those of the code they guard."""
    ix = ctx.index
    out = []
    for cls in [prn] + ix.subclasses(prn):
        for name, fn in cls.methods.items():
            m = Mini(_label_oracle(ctx, frozenset(), KINDS, [0]), None, what=name)
            guarded = [c for c in walk_no_nested(fn) if isinstance(c, ast.Call) and isinstance(c.func, ast.Attribute) and c.func.attr == 'generate_execution_code'
                       and is_self_attr(c.func.value) and c.func.value.attr in ('body', 'else_clause')]
            for c in walk_no_nested(fn):
                if not (isinstance(c, ast.Call) and isinstance(c.func, ast.Attribute) and c.func.attr in EMIT and c.args):
                    continue
                text = m.render(c.args[0], State())
                if text is None or not re.search(r'\bif\s*\(\s*' + re.escape(why) + r'\s*(<=|>=|==|!=|<|>)', text):
                    continue
                if not guarded:
                    raise AnalysisError('%s.%s emits an exit-code guard but generates neither the loop body nor the else clause' % (cls.name, name))
                tgt = [g for g in guarded if g.func.value.attr == 'else_clause'] or guarded
                base = {(ast.unparse(t), p) for t, p in path_conditions(fn, tgt[0])}
                env = pC37.local_assigns(fn)
                extra = [(_Deref(env).visit(ast.parse(ast.unparse(t), mode='eval').body), p) for t, p in path_conditions(fn, c) if (ast.unparse(t), p) not in base]
                out.append((cls, fn, c, extra))
    return out


def rule_emit(ctx):
    ix = ctx.index
    r = Rule('C37-EMIT', 'for every parallel construct x every set of exit kinds used by its body: what trap_parallel_exit writes/saves is declared, zeroed, '
             'error-preferred and dispatched by end_parallel_control_flow_block in the same world; exit-code guards are emitted whenever a breaking exit is trapped',
             floor=90)
    psn = ix.cls('Nodes', 'ParallelStatNode')
    prn = ix.cls('Nodes', 'ParallelRangeNode')
    rel = psn.module.rel
    naming = pC37.naming_values(ctx)
    w = pC37.writer_codes(ctx, psn)
    _, trapfn = pC37.method(ix, psn, 'trap_parallel_exit')
    _, endfn = pC37.method(ix, psn, 'end_parallel_control_flow_block')
    sites = _sites(ctx, psn)
    if len(sites) < 2:
        raise AnalysisError('only %d call sites of end_parallel_control_flow_block found' % len(sites))
    gs = guard_sites(ctx, prn, naming['parallel_why'])
    if len(gs) < 2:
        raise AnalysisError('only %d exit-code guard emissions found in ParallelRangeNode' % len(gs))
    failing = {}
    for key, ok, sample, msg, line in emit_problems(ctx, psn, trapfn, endfn, sites, gs, w['codes'], w['kinds'], naming):
        r.inst(key, sample=key + ': ' + sample)
        if not ok:
            failing.setdefault(key.rsplit(':U=', 1)[0], []).append((key.rsplit(':U=', 1)[1], msg, line))
    for vkey, lst in sorted(failing.items()):
        lst.sort(key=lambda x: (x[0].count(','), x[0]))
        r.violate(vkey, rel, lst[0][2], lst[0][1] + ' (%d world(s) fail: U=%s)' % (len(lst), ' U='.join(x[0] for x in lst)))
    # positive control: an end block that emits the fix-up only when an exit is propagated
    pc = ast.parse(
        "class P:\n"
        "  def trap_parallel_exit(self, code, should_flush=False):\n"
        "    self.error_label_used = False\n    self.breaking_label_used = False\n    self.return_label_used = False\n"
        "    for i, label in enumerate(code.get_all_labels()):\n"
        "      if not code.label_used(label):\n        continue\n"
        "      self.breaking_label_used = self.breaking_label_used or label != code.continue_label\n"
        "      self.return_label_used = self.return_label_used or label == code.return_label\n"
        "      code.put_label(label)\n"
        "      if should_flush and label == code.continue_label:\n        continue\n"
        "      if label == code.error_label:\n        self.error_label_used = True\n        self.fetch_parallel_exception(code)\n"
        "      code.putln('%s = %d;' % (Naming.parallel_why, i + 1))\n"
        "  def end_parallel_control_flow_block(self, code, break_=False, continue_=False, return_=False):\n"
        "    if self.error_label_used:\n"
        "      code.putln('PyObject *%s = NULL;' % Naming.parallel_exc_type)\n"
        "      if break_ or return_:\n        code.putln('if (%s) %s = 4;' % (Naming.parallel_exc_type, Naming.parallel_why))\n"
        "    if self.breaking_label_used:\n"
        "      code.putln('int %s;' % Naming.parallel_why)\n      code.putln('%s = 0;' % Naming.parallel_why)\n"
        "      if self.error_label_used:\n        code.putln('case 4:')\n        self.restore_parallel_exception(code)\n"
        "  def gen(self, code):\n    self.trap_parallel_exit(code, True)\n    self.end_parallel_control_flow_block(code, return_=self.return_label_used)\n").body[0]
    fns = {f.name: f for f in pc.body}
    bad = [k for k, ok, _, _, _ in emit_problems(ctx, psn, fns['trap_parallel_exit'], fns['end_parallel_control_flow_block'],
                                                 [(psn, fns['gen'], [c for c in ast.walk(fns['gen']) if pC37.self_call(c, ('end_parallel_control_flow_block',))][0], True)],
                                                 [], {'continue': 1, 'break': 2, 'return': 3, 'error': 4}, KINDS, naming) if not ok]
    r.positive_control(bool(bad) and all(k.startswith('emit:prefer-error:') for k in bad) and any('U={break,error}' in k for k in bad),
                       'error fix-up emitted only when an exit is propagated')
    return r


# ================================================================================================ C37-TRIP
STEPS = (1, 2, 3, 5, -1, -2, -3, -5)
STARTS = (-2, 0, 3)


def step_worlds():
    yield ('absent', None)
    for k in STEPS:
        yield ('literal', k)
    for k in STEPS:
        yield ('runtime', k)


def _node_sym(name, how, k=None):
    if how == 'literal':
        return Sym(name, dict(is_literal=True, constant_result=k, is_temp=False), dict(has_constant_result=lambda: True, is_simple=lambda: True))
    if how == 'runtime':
        return Sym(name, dict(is_literal=False, is_temp=UNK), dict(has_constant_result=lambda: False))
    return Sym(name, dict(is_literal=UNK), dict(has_constant_result=lambda: UNK))


C_ASSIGN = re.compile(r'^\s*([A-Za-z_]\w*)\s*=(?!=)\s*(.+?)\s*;\s*$', re.S)
C_IF = re.compile(r'^\s*if\s*\((.*)\)\s*\{?\s*$', re.S)
C_FOR = re.compile(r'^\s*for\s*\((.*)\)\s*\{?\s*$', re.S)
VARS = ('start', 'stop', 'step', 'nsteps', 'i', 'target')


def _cparse(text, what):
    text = re.sub(r'\(\s*target_type\s*\)', '', text)
    try:
        return cexpr.parse(' '.join(text.split()))
    except cexpr.ParseError as e:
        raise AnalysisError('cannot parse the emitted C expression `%s` (%s): %s' % (text, what, e))


def _ceval(e, env, what):
    try:
        return cexpr.evaluate(e, env, calls={'abs': abs, 'labs': abs, 'llabs': abs})
    except cexpr.EvalError as x:
        raise AnalysisError('cannot evaluate the emitted C expression of %s: %s' % (what, x))


def loop_shape(ctx, prn):
    """generate_loop: the for header and the index assignment, which must be emitted unconditionally."""
    ix = ctx.index
    header = index = None
    for cls in [prn]:
        for name, fn in cls.methods.items():
            m = Mini(None, None, what=name)
            for c in walk_no_nested(fn):
                if not (isinstance(c, ast.Call) and isinstance(c.func, ast.Attribute) and c.func.attr in EMIT and c.args):
                    continue
                text = m.render(c.args[0], State())
                if text is None:
                    continue
                mf = C_FOR.match(text)
                if mf and re.search(r'\bnsteps\b', text):
                    if header is not None:
                        raise AnalysisError('ParallelRangeNode emits more than one `for (...nsteps...)` header')
                    header = (fn, c, mf.group(1))
                ma = C_ASSIGN.match(text)
                if ma and ma.group(1) == 'target':
                    if index is not None:
                        raise AnalysisError('ParallelRangeNode assigns the target index in more than one emission')
                    index = (fn, c, ma.group(2))
    if header is None or index is None:
        raise AnalysisError('ParallelRangeNode: for header / target index assignment not found (header=%s, index=%s)' % (header is not None, index is not None))
    for fn, c, _ in (header, index):
        if path_conditions(fn, c):
            raise AnalysisError('%s: the loop header / index assignment is emitted conditionally; not modelled' % fn.name)
    parts = header[2].split(';')
    if len(parts) != 3:
        raise AnalysisError('cannot split the emitted for header `%s`' % header[2])
    mi = C_ASSIGN.match(parts[0] + ';')
    if not mi or mi.group(1) != 'i':
        raise AnalysisError('for header does not initialise the counter: `%s`' % parts[0])
    inc = ''.join(parts[2].split())
    if inc not in ('i++', '++i', 'i+=1', 'i=i+1'):
        raise AnalysisError('for header increment `%s` is not a unit increment' % parts[2])
    return dict(fn=header[0], init=_cparse(mi.group(2), 'for init'), cond=_cparse(parts[1], 'for condition'),
                index=_cparse(index[2], 'index'), header_text=header[2], index_text=index[2], header_call=header[1], index_call=index[1])


def trip_paths(ctx, prn, fn, how, k):
    """Paths of generate_execution_code in one step world -> list of C statement lists (text) emitted before the loop is generated."""
    step = None if how == 'absent' else _node_sym('step', how, k)

    def oracle(n, st, mini):
        if is_self_attr(n) and n.attr == 'step' and 'step' not in st.attrs:
            return step
        if is_self_attr(n) and n.attr not in st.attrs:
            return class_const(ctx, prn, n.attr, mini, st)
        if isinstance(n, ast.Attribute) and isinstance(n.value, ast.Name) and n.value.id == 'Naming':
            return pC37.naming_values(ctx).get(n.attr, UNK)
        return NotImplemented

    def rec(n, st, mini, args, kwargs):
        f = n.func
        if isinstance(f, ast.Attribute):
            if f.attr in EMIT and n.args:
                st.trace.append(('emit', mini.render(n.args[0], st), n))
            elif is_self_attr(f) and f.attr == 'generate_loop':
                st.trace.append(('loop', None, n))
                st.env['__stop__'] = True
            elif f.attr == 'begin_block':
                st.trace.append(('begin', None, n))
        return NotImplemented
    m = Mini(oracle, rec, max_paths=20000, what='ParallelRangeNode.%s' % fn.name, inliner=helper_inliner(ctx, prn, ("nsteps",), skip=('generate_loop',)))
    out = []
    for st, flow, val in m.run(fn, State()):
        if flow == 'raise' or not any(ev[0] == 'loop' for ev in st.trace):
            continue
        seq = []
        for ev in st.trace:
            if ev[0] == 'loop':
                break
            seq.append(ev)
        sig = tuple((e[0], e[1]) for e in seq if e[0] == 'begin' or (e[1] is not None and re.search(r'\b(nsteps|target)\b', e[1])))
        out.append((sig, seq))
    uniq = {}
    for sig, seq in out:
        uniq.setdefault(sig, seq)
    return list(uniq.values())


def trip_check(seq, shape, how, k, label):
    """Evaluate one emitted statement sequence + loop over the box; -> None or a counterexample message."""
    stmts = []
    pending_if = None
    for ev in seq:
        if ev[0] == 'begin':
            if pending_if is not None:
                stmts.append(('guard', pending_if))
                pending_if = None
            continue
        pending_if = None
        text = ev[1]
        if text is None or not re.search(r'\b(nsteps|target)\b', text):
            continue
        ma = C_ASSIGN.match(text)
        mi = C_IF.match(text)
        if ma and ma.group(1) in ('nsteps', 'target'):
            stmts.append(('assign', ma.group(1), _cparse(ma.group(2), label), text))
        elif mi:
            pending_if = (_cparse(mi.group(1), label), text)
        else:
            raise AnalysisError('%s: emitted statement mentioning nsteps/target not modelled: `%s`' % (label, text))
    if not any(s[0] == 'assign' and s[1] == 'nsteps' for s in stmts):
        raise AnalysisError('%s: no assignment to the trip count is emitted before the loop' % label)
    step = 1 if k is None else k
    for start in STARTS:
        for d in range(-3 * abs(step) - 2, 3 * abs(step) + 3):
            stop = start + d
            env = {'start': start, 'stop': stop, 'step': step}
            skip = False
            for s in stmts:
                if s[0] == 'assign':
                    env[s[1]] = _ceval(s[2], env, label)
                elif s[0] == 'guard':
                    if not _ceval(s[1][0], env, label):
                        skip = True
            got = []
            if not skip:
                env['i'] = _ceval(shape['init'], env, 'for init')
                n = 0
                while _ceval(shape['cond'], env, 'for condition'):
                    got.append(_ceval(shape['index'], env, 'index'))
                    env['i'] += 1
                    n += 1
                    if n > 200:
                        break
            want = list(range(start, stop, step))
            if got != want:
                return ('prange(%d, %d%s) with %s step: the emitted code computes nsteps=%s and runs the iterations %s (index ends at %s); the sequential loop runs %s '
                        '(ends at %s)' % (start, stop, '' if k is None else ', %d' % k, how, env.get('nsteps'), got[:8], got[-1] if got else 'unchanged',
                                          want[:8], want[-1] if want else 'unchanged'))
    return None


def names_pairing(ctx, prn, fn):
    """The loop that fills fmt_dict: (node attribute, key, default) rows."""
    ix = ctx.index
    env = pC37.local_assigns(fn)
    for n in walk_no_nested(fn):
        if isinstance(n, ast.For) and isinstance(n.iter, ast.Call) and isinstance(n.iter.func, ast.Name) and n.iter.func.id == 'zip' and len(n.iter.args) == 3:
            cols = []
            for a in n.iter.args:
                a = pC37.deref(a, env)
                if is_self_attr(a):
                    a = const_attr_node(ctx, prn, a.attr) or a
                if not isinstance(a, (ast.Tuple, ast.List)):
                    cols = None
                    break
                cols.append(list(a.elts))
            if cols and len({len(c) for c in cols}) == 1:
                rows = []
                for x, y, z in zip(*cols):
                    rows.append((x.attr if is_self_attr(x) else None, y.value if isinstance(y, ast.Constant) else None, z.value if isinstance(z, ast.Constant) else None, n))
                if all(r_[0] and isinstance(r_[1], str) for r_ in rows):
                    return rows
    return None


def rule_trip(ctx):
    ix = ctx.index
    r = Rule('C37-TRIP', 'the emitted trip count, loop header and index formula of prange enumerate exactly range(start, stop, step) (C semantics, every residue class '
             'of the distance modulo small |step|, both directions, empty ranges) for every way the step is known to the compiler', floor=18)
    prn = ix.cls('Nodes', 'ParallelRangeNode')
    rel = prn.module.rel
    _, fn = pC37.method(ix, prn, 'generate_execution_code')
    shape = loop_shape(ctx, prn)
    rows = names_pairing(ctx, prn, fn)
    if rows is None:
        raise AnalysisError('ParallelRangeNode.generate_execution_code: cannot see how start/stop/step are stored into the format dict')
    want_default = {'start': '0', 'step': '1'}
    for attr, key, default, node in rows:
        r.inst('trip:operand:' + attr, sample='self.%s -> %%(%s)s, default %r' % (attr, key, default))
        if attr != key:
            r.violate('trip:operand:' + attr, rel, node.lineno,
                      'ParallelRangeNode stores the C value of self.%s under the key %r of the format dict: the trip count and index formula then use %s in place of %s'
                      % (attr, key, attr, key))
        elif key in want_default and default != want_default[key]:
            r.violate('trip:operand:' + attr, rel, node.lineno, 'an omitted prange %s defaults to %r instead of %r' % (key, default, want_default[key]))
    failing = {}
    for how, k in step_worlds():
        key = 'trip:%s%s' % (how, '' if k is None else ':%d' % k)
        seqs = trip_paths(ctx, prn, fn, how, k)
        if not seqs:
            raise AnalysisError('ParallelRangeNode.generate_execution_code: no path reaches generate_loop in the world %s' % key)
        r.inst(key, sample='%s: %d distinct emitted nsteps sequence(s); loop `for (%s)` index `%s`' % (key, len(seqs), shape['header_text'], shape['index_text']))
        for seq in seqs:
            msg = trip_check(seq, shape, how, k, key)
            if msg and any(e[0] == 'opaque' for e in seq):
                raise AnalysisError('ParallelRangeNode.generate_execution_code: helper self.%s() mentions the trip count but could not be interpreted in place'
                                    % [e[1] for e in seq if e[0] == 'opaque'][0])
            if msg:
                failing.setdefault('trip:' + how, []).append((k, msg, [e for e in seq if e[1] and 'nsteps' in e[1]][-1][2].lineno))
                break
    for vkey, lst in sorted(failing.items()):
        lst.sort(key=lambda x: (abs(x[0] or 0), x[0] or 0))
        r.violate(vkey, rel, lst[0][2], lst[0][1] + ' - reductions miss terms and the lastprivate index is wrong on every schedule (failing steps: %s)'
                  % ', '.join(str(x[0]) for x in lst))
    # positive control: a descending-step formula without the rounding term
    bad_seq = [('emit', 'nsteps = (start - stop) / (-(step));', None), ('emit', 'if (nsteps > 0)', None), ('begin', None, None)]
    ok_seq = [('emit', 'nsteps = (stop - start + step - step/abs(step)) / step;', None), ('emit', 'if (nsteps > 0)', None), ('begin', None, None)]
    pshape = dict(init=cexpr.parse('0'), cond=cexpr.parse('i < nsteps'), index=cexpr.parse('start + step * i'))
    r.positive_control(trip_check(bad_seq, pshape, 'literal', -3, 'pc') is not None and trip_check(bad_seq, pshape, 'literal', -1, 'pc') is None and
                       trip_check(ok_seq, pshape, 'literal', -3, 'pc') is None and trip_check(ok_seq, pshape, 'runtime', 5, 'pc') is None,
                       'floor instead of ceiling for a descending stride')
    return r
