"""C37 strengthening: decision tables of the prange exit protocol and the trip-count arithmetic.

Two rules, both built on a small *world evaluator* for decision fragments of compiler methods (class Mini below):
the method's Python code is interpreted by the checker over a finite, completely enumerated abstract domain (a "world"
fixes the facts the decisions depend on, e.g. which kinds of exit labels the loop body used); tests that do not depend
on the world fork both ways; constructs the evaluator does not know raise AnalysisError.  Nothing from the repository is
imported or run; the result is a table "world -> what is emitted", which is compared with what the protocol needs.

C37-EMIT   for every construct (parallel block / prange) x every set U of exit kinds used by the body: whatever
           trap_parallel_exit writes or saves in that world is declared, initialised, preferred and dispatched by
           end_parallel_control_flow_block in the same world (and the `if (why < N)` guards are emitted whenever a
           breaking exit is trapped).
C37-TRIP   the emitted trip count `nsteps = ...`, the loop header `for (i = 0; i < nsteps; i++)` and the index formula
           `target = start + step * i` enumerate exactly range(start, stop, step): the extracted C expressions are evaluated
           with C semantics over every residue class of (stop - start) modulo |step| for small moduli, both directions,
           empty ranges included, per way the step can be known to the compiler (absent / literal / run time).
"""
import ast, itertools, re

from ..core import Rule, AnalysisError, node_src
from ..engine import cexpr
from ..engine.pyindex import walk_no_nested, is_self_attr
from . import pC37

EMIT = pC37.EMIT


# ================================================================================================ world evaluator
class _Unknown:
    def __repr__(self):
        return 'UNK'

    def __bool__(self):
        raise AnalysisError('internal: truth value of an unknown taken')


UNK = _Unknown()


class Sym:
    """An opaque object of the compiler (a node, a scope ...) whose attributes are given by the world."""
    def __init__(self, name, attrs=None, methods=None):
        self.name, self.attrs, self.methods = name, attrs or {}, methods or {}

    def __repr__(self):
        return '<%s>' % self.name


class Label:
    def __init__(self, kind):
        self.kind = kind

    def __eq__(self, o):
        return isinstance(o, Label) and o.kind == self.kind

    def __hash__(self):
        return hash(('label', self.kind))

    def __repr__(self):
        return 'Label(%s)' % self.kind


class State:
    __slots__ = ('env', 'attrs', 'facts', 'trace')

    def __init__(self, env=None, attrs=None, facts=None, trace=None):
        self.env, self.attrs, self.facts, self.trace = env or {}, attrs or {}, facts or {}, trace or []

    def copy(self):
        return State(dict(self.env), dict(self.attrs), dict(self.facts), list(self.trace))


SPEC = re.compile(r'%(?:\((\w+)\))?[-#0 +]*(?:\d+)?(?:\.\d+)?([diouxXeEfFgGcrsa%])')
PH = '\xa7'


class Mini:
    """Interprets one FunctionDef over concrete/unknown values.  oracle(node, state, mini) may give the value of any
    expression node (return NotImplemented to fall through); on_call(node, state, mini, args, kwargs) is told about every
    call the evaluator does not interpret itself (in evaluation order) and may return a value."""

    def __init__(self, oracle=None, on_call=None, max_paths=3000, what='?', inliner=None, depth=0):
        self.oracle, self.on_call, self.max_paths, self.what = oracle, on_call, max_paths, what
        self.inliner, self.depth = inliner, depth        # inliner(method name) -> FunctionDef of a self.<method> helper to interpret in place
        self.dict_names = set()

    # ------------------------------------------------------------ expressions
    def ev(self, n, st):
        if self.oracle is not None:
            v = self.oracle(n, st, self)
            if v is not NotImplemented:
                return v
        if isinstance(n, ast.Constant):
            return n.value
        if isinstance(n, ast.Name):
            return st.env.get(n.id, UNK)
        if isinstance(n, ast.Attribute):
            if is_self_attr(n):
                return st.attrs.get(n.attr, UNK)
            b = self.ev(n.value, st)
            if isinstance(b, Sym):
                return b.attrs.get(n.attr, UNK)
            return UNK
        if isinstance(n, ast.Tuple):
            return tuple(self.ev(e, st) for e in n.elts)
        if isinstance(n, (ast.List, ast.Dict, ast.Set, ast.ListComp, ast.DictComp, ast.SetComp, ast.GeneratorExp, ast.JoinedStr, ast.Lambda)):
            return UNK          # mutable / lazy values are not tracked
        if isinstance(n, ast.BoolOp):
            x = UNK
            for v in n.values:
                t = self.truth(v, st)
                if t is None:
                    whole = self.truth(n, st)
                    return UNK if whole is None else whole
                x = self.ev(v, st)
                if (isinstance(n.op, ast.And) and not t) or (isinstance(n.op, ast.Or) and t):
                    return x
            return x
        if isinstance(n, ast.UnaryOp):
            if isinstance(n.op, ast.Not):
                t = self.truth(n.operand, st)
                return UNK if t is None else (not t)
            v = self.ev(n.operand, st)
            if isinstance(n.op, ast.USub) and isinstance(v, int):
                return -v
            return UNK
        if isinstance(n, ast.Compare):
            t = self.truth(n, st)
            return UNK if t is None else t
        if isinstance(n, ast.IfExp):
            t = self.truth(n.test, st)
            if t is None:
                a, b = self.ev(n.body, st), self.ev(n.orelse, st)
                return a if (a is not UNK and b is not UNK and type(a) is type(b) and a == b) else UNK
            return self.ev(n.body if t else n.orelse, st)
        if isinstance(n, ast.BinOp):
            a, b = self.ev(n.left, st), self.ev(n.right, st)
            if a is UNK or b is UNK:
                return UNK
            try:
                if isinstance(n.op, ast.Add) and type(a) is type(b) and isinstance(a, (int, tuple, str)):
                    return a + b
                if isinstance(a, int) and isinstance(b, int) and not isinstance(a, bool) and not isinstance(b, bool):
                    if isinstance(n.op, ast.Sub):
                        return a - b
                    if isinstance(n.op, ast.Mult):
                        return a * b
            except Exception:
                return UNK
            return UNK
        if isinstance(n, ast.Subscript):
            b, i = self.ev(n.value, st), self.ev(n.slice, st)
            if isinstance(b, tuple) and isinstance(i, int):
                try:
                    return b[i]
                except IndexError:
                    return UNK
            return UNK
        if isinstance(n, ast.Call):
            return self.call(n, st)
        if isinstance(n, ast.Starred):
            return UNK
        raise AnalysisError('%s: expression not modelled: %s' % (self.what, node_src(n, 60)))

    def call(self, n, st):
        args = [self.ev(a, st) for a in n.args]
        kwargs = {k.arg: self.ev(k.value, st) for k in n.keywords}
        f = n.func
        if isinstance(f, ast.Name) and not n.keywords:
            if f.id == 'bool' and len(n.args) == 1:
                t = self.truth(n.args[0], st)
                return UNK if t is None else t
            if f.id == 'isinstance' and len(args) == 2 and isinstance(n.args[1], ast.Name) and n.args[1].id in ('int', 'str', 'tuple', 'bool'):
                v = args[0]
                if v is UNK or isinstance(v, Sym):
                    return UNK if v is UNK else False
                return isinstance(v, {'int': int, 'str': str, 'tuple': tuple, 'bool': bool}[n.args[1].id])
            if f.id == 'len' and len(args) == 1 and isinstance(args[0], (tuple, str)):
                return len(args[0])
            if f.id in ('tuple',) and len(args) == 1 and isinstance(args[0], tuple):
                return args[0]
            if f.id == 'int' and len(args) == 1 and isinstance(args[0], int):
                return int(args[0])
            if f.id == 'abs' and len(args) == 1 and isinstance(args[0], int):
                return abs(args[0])
        if isinstance(f, ast.Attribute):
            b = self.ev(f.value, st) if not is_self_attr(f) else None
            if isinstance(b, Sym) and f.attr in b.methods:
                return b.methods[f.attr](*args, **kwargs)
        if self.on_call is not None:
            v = self.on_call(n, st, self, args, kwargs)
            if v is not NotImplemented and v is not None:
                return v
        if is_self_attr(f) and self.inliner is not None and not st.env.get('__stop__'):
            callee = self.inliner(f.attr)
            if callee is not None:
                v = self.inline(callee, n, args, kwargs, st) if self.depth < 3 else NotImplemented
                if v is not NotImplemented:
                    return v
                st.trace.append(('opaque', f.attr, None, n))
        return UNK

    def inline(self, callee, n, args, kwargs, st):
        """Interpret a helper method in place when it has exactly one normal path in this state (a straight-line helper extracted from the
        analysed method); otherwise the call stays opaque (and is marked so in the trace)."""
        a = callee.args
        params = [x.arg for x in a.posonlyargs + a.args][1:]
        if len(args) > len(params) or any(isinstance(x, ast.Starred) for x in n.args) or any(k.arg is None for k in n.keywords):
            return NotImplemented
        bound = dict(zip(params, args))
        bound.update(kwargs)
        sub = Mini(self.oracle, self.on_call, self.max_paths, callee.name, self.inliner, self.depth + 1)
        s2 = State({}, dict(st.attrs), dict(st.facts), list(st.trace))
        try:
            paths = [p for p in sub.run(callee, s2, bound) if p[1] != 'raise']
        except AnalysisError:
            return NotImplemented
        if len(paths) != 1:
            return NotImplemented
        s3, flow, val = paths[0]
        st.attrs.clear()
        st.attrs.update(s3.attrs)
        st.trace[:] = s3.trace
        self.dict_names |= sub.dict_names
        return UNK if val is None and flow != 'return' else (val if val is not None else UNK)

    def truth(self, n, st):
        """True / False / None (not decided in this world)."""
        if st.facts:
            key = ast.unparse(n)
            if key in st.facts:
                return st.facts[key]
        if isinstance(n, ast.BoolOp):
            ts = [self.truth(v, st) for v in n.values]
            if isinstance(n.op, ast.And):
                return False if any(t is False for t in ts) else True if all(t is True for t in ts) else None
            return True if any(t is True for t in ts) else False if all(t is False for t in ts) else None
        if isinstance(n, ast.UnaryOp) and isinstance(n.op, ast.Not):
            t = self.truth(n.operand, st)
            return None if t is None else (not t)
        if isinstance(n, ast.Compare):
            if self.oracle is not None:
                v = self.oracle(n, st, self)
                if v is not NotImplemented:
                    return None if v is UNK else bool(v)
            left = self.ev(n.left, st)
            res = True
            for op, c in zip(n.ops, n.comparators):
                right = self.ev(c, st)
                r = self.cmp(op, left, right)
                if r is None:
                    return None
                if not r:
                    res = False
                left = right
            return res
        v = self.ev(n, st)
        if v is UNK:
            return None
        if isinstance(v, (Sym, Label)):
            return True
        return bool(v)

    @staticmethod
    def cmp(op, a, b):
        if isinstance(op, (ast.Is, ast.IsNot)):
            if a is UNK or b is UNK:
                return None
            if a is None or b is None or isinstance(a, bool) or isinstance(b, bool):
                same = a is b
            elif isinstance(a, (Sym, Label)) or isinstance(b, (Sym, Label)):
                same = (a == b)
            else:
                return None
            return same if isinstance(op, ast.Is) else not same
        if a is UNK or b is UNK:
            return None
        if isinstance(op, (ast.Eq, ast.NotEq)):
            if isinstance(a, tuple) and UNK in a or isinstance(b, tuple) and UNK in b:
                return None
            return (a == b) if isinstance(op, ast.Eq) else (a != b)
        if isinstance(op, (ast.In, ast.NotIn)):
            if isinstance(b, (tuple, str, frozenset)) and not (isinstance(b, tuple) and UNK in b):
                try:
                    r = a in b
                except TypeError:
                    return None
                return r if isinstance(op, ast.In) else not r
            return None
        if isinstance(a, int) and isinstance(b, int):
            return {ast.Lt: a < b, ast.LtE: a <= b, ast.Gt: a > b, ast.GtE: a >= b}[type(op)]
        return None

    # ------------------------------------------------------------ templates
    def render(self, node, st):
        """Emitted C text of a string expression in this state: definite parts inline, %(key)s of a dict operand as the bare key,
        anything else as the placeholder character.  None = not a string template."""
        if isinstance(node, ast.Constant) and isinstance(node.value, str):
            return node.value.replace(PH, '?')
        if isinstance(node, ast.JoinedStr):
            out = ''
            for v in node.values:
                if isinstance(v, ast.Constant):
                    out += str(v.value).replace(PH, '?')
                else:
                    out += self._piece(v.value, st) if v.format_spec is None and v.conversion == -1 else PH
            return out
        if isinstance(node, ast.BinOp) and isinstance(node.op, ast.Add):
            a, b = self.render(node.left, st), self.render(node.right, st)
            return None if a is None or b is None else a + b
        if isinstance(node, ast.BinOp) and isinstance(node.op, ast.Mod):
            fmt = self.render(node.left, st)
            if fmt is None or PH in fmt:
                return None
            specs = [m for m in SPEC.finditer(fmt) if m.group(2) != '%']
            right = node.right
            named = [m for m in specs if m.group(1)]
            if named:
                if len(named) != len(specs):
                    return None
                out, pos = '', 0
                for m in SPEC.finditer(fmt):
                    out += fmt[pos:m.start()]
                    pos = m.end()
                    out += '%' if m.group(2) == '%' else m.group(1)
                if isinstance(right, ast.Name):
                    self.dict_names.add(right.id)
                return out + fmt[pos:]
            if isinstance(right, ast.Tuple):
                pieces = [self._piece(e, st) for e in right.elts]
            else:
                v = self.ev(right, st)
                if isinstance(v, tuple) and len(v) == len(specs):
                    pieces = [self._show(x) for x in v]
                elif len(specs) == 1:
                    pieces = [self._piece(right, st)]
                else:
                    return None
            if len(pieces) != len(specs):
                return None
            out, pos, k = '', 0, 0
            for m in SPEC.finditer(fmt):
                out += fmt[pos:m.start()]
                pos = m.end()
                if m.group(2) == '%':
                    out += '%'
                else:
                    out += pieces[k]
                    k += 1
            return out + fmt[pos:]
        return None

    def _piece(self, e, st):
        if isinstance(e, ast.Subscript) and isinstance(e.value, ast.Name) and isinstance(e.slice, ast.Constant) and isinstance(e.slice.value, str) \
                and st.env.get(e.value.id, UNK) is UNK:
            self.dict_names.add(e.value.id)
            return e.slice.value
        return self._show(self.ev(e, st))

    @staticmethod
    def _show(v):
        if isinstance(v, bool) or v is None:
            return PH
        if isinstance(v, (str, int)):
            return str(v)
        return PH

    # ------------------------------------------------------------ statements
    def run(self, fn, st, bound=None):
        """-> list of (state, flow, value) for every path through fn; flow in next/return/raise."""
        a = fn.args
        params = [x.arg for x in a.posonlyargs + a.args]
        defaults = dict(zip(params[len(params) - len(a.defaults):], a.defaults))
        for p in params[1:]:
            if bound is not None and p in bound:
                st.env[p] = bound[p]
            elif p in defaults:
                st.env[p] = self.ev(defaults[p], st)
            else:
                st.env[p] = UNK
        for p, d in zip(a.kwonlyargs, a.kw_defaults):
            st.env[p.arg] = bound[p.arg] if bound is not None and p.arg in bound else (self.ev(d, st) if d is not None else UNK)
        self._paths = 0
        out = []
        for s, flow, val in self.block(fn.body, st):
            out.append((s, 'next' if flow in ('next',) else flow, val))
        return out

    def block(self, stmts, st):
        cur = [(st, 'next', None)]
        for s in stmts:
            nxt = []
            for state, flow, val in cur:
                if flow != 'next':
                    nxt.append((state, flow, val))
                else:
                    nxt.extend(self.stmt(s, state))
            cur = [(a, 'return' if (f == 'next' and a.env.get('__stop__')) else f, v) for a, f, v in nxt]
            if len(cur) > self.max_paths:
                raise AnalysisError('%s: more than %d paths' % (self.what, self.max_paths))
        return cur

    def assign(self, t, v, st):
        if isinstance(t, ast.Name):
            st.env[t.id] = v
            for k in [k for k in st.facts if re.search(r'\b%s\b' % re.escape(t.id), k)]:
                del st.facts[k]
        elif is_self_attr(t):
            st.attrs[t.attr] = v
            for k in [k for k in st.facts if re.search(r'\bself\.%s\b' % re.escape(t.attr), k)]:
                del st.facts[k]
        elif isinstance(t, (ast.Tuple, ast.List)):
            if isinstance(v, tuple) and len(v) == len(t.elts):
                for e, x in zip(t.elts, v):
                    self.assign(e, x, st)
            else:
                for e in t.elts:
                    self.assign(e, UNK, st)
        elif isinstance(t, (ast.Subscript, ast.Attribute)):
            pass
        elif isinstance(t, ast.Starred):
            self.assign(t.value, UNK, st)
        else:
            raise AnalysisError('%s: assignment target not modelled: %s' % (self.what, node_src(t, 40)))

    def iterate(self, it, st):
        """-> list of per-iteration target values, or None when the iterable is not known."""
        if isinstance(it, ast.Call) and isinstance(it.func, ast.Name) and it.func.id == 'enumerate' and it.args:
            seq = self.iterate(it.args[0], st)
            start = 0
            if len(it.args) > 1:
                start = self.ev(it.args[1], st)
            for k in it.keywords:
                if k.arg == 'start':
                    start = self.ev(k.value, st)
            if seq is None or not isinstance(start, int):
                return None
            return [(i + start, x) for i, x in enumerate(seq)]
        if isinstance(it, ast.Call) and isinstance(it.func, ast.Name) and it.func.id == 'zip' and it.args and not it.keywords:
            seqs = [self.iterate(a, st) for a in it.args]
            if any(s is None for s in seqs):
                return None
            return [tuple(row) for row in zip(*seqs)]
        v = self.ev(it, st)
        if isinstance(v, tuple):
            return list(v)
        return None

    def stmt(self, s, st):
        if isinstance(s, ast.Expr):
            self.ev(s.value, st)
            return [(st, 'next', None)]
        if isinstance(s, ast.Assign):
            v = self.ev(s.value, st)
            for t in s.targets:
                self.assign(t, v, st)
            return [(st, 'next', None)]
        if isinstance(s, ast.AnnAssign):
            if s.value is not None:
                self.assign(s.target, self.ev(s.value, st), st)
            return [(st, 'next', None)]
        if isinstance(s, ast.AugAssign):
            cur = self.ev(ast.copy_location(ast.BinOp(left=_load(s.target), op=s.op, right=s.value), s), st) \
                if isinstance(s.target, (ast.Name, ast.Attribute)) else UNK
            self.assign(s.target, cur, st)
            return [(st, 'next', None)]
        if isinstance(s, ast.If):
            t = self.truth(s.test, st)
            if t is not None:
                return self.block(s.body if t else s.orelse, st)
            key = ast.unparse(s.test)
            pure = not any(isinstance(x, ast.Call) and not (isinstance(x.func, ast.Name) and x.func.id in ('isinstance', 'len', 'bool')) and
                           not (isinstance(x.func, ast.Attribute) and not x.args and not x.keywords) for x in ast.walk(s.test))
            out = []
            for truth, body in ((True, s.body), (False, s.orelse)):
                s2 = st.copy()
                if pure:
                    s2.facts[key] = truth
                out.extend(self.block(body, s2))
            return out
        if isinstance(s, ast.For):
            items = self.iterate(s.iter, st)
            if items is None:
                # unknown iterable: zero iterations, or one iteration with unknown targets
                s0 = st.copy()
                res = list(self.block(s.orelse, s0)) if s.orelse else [(s0, 'next', None)]
                s1 = st.copy()
                self.assign(s.target, UNK, s1)
                for state, flow, val in self.block(s.body, s1):
                    if flow in ('break', 'continue'):
                        flow = 'next'
                    res.append((state, flow, val))
                return res
            cur = [(st, 'next', None)]
            for item in items:
                nxt = []
                for state, flow, val in cur:
                    if flow != 'next':
                        nxt.append((state, flow, val))
                        continue
                    self.assign(s.target, item, state)
                    for s3, f3, v3 in self.block(s.body, state):
                        if f3 == 'continue':
                            f3 = 'next'
                        nxt.append((s3, f3, v3))
                cur = nxt
                if len(cur) > self.max_paths:
                    raise AnalysisError('%s: more than %d paths' % (self.what, self.max_paths))
            out = []
            for state, flow, val in cur:
                if flow == 'break':
                    out.append((state, 'next', None))
                elif flow == 'next' and s.orelse:
                    out.extend(self.block(s.orelse, state))
                else:
                    out.append((state, flow, val))
            return out
        if isinstance(s, ast.Return):
            return [(st, 'return', self.ev(s.value, st) if s.value is not None else None)]
        if isinstance(s, ast.Raise):
            return [(st, 'raise', None)]
        if isinstance(s, ast.Continue):
            return [(st, 'continue', None)]
        if isinstance(s, ast.Break):
            return [(st, 'break', None)]
        if isinstance(s, (ast.Pass, ast.Global, ast.Nonlocal, ast.Import, ast.ImportFrom, ast.Assert, ast.Delete)):
            return [(st, 'next', None)]
        if isinstance(s, (ast.FunctionDef, ast.ClassDef)):
            st.env[s.name] = UNK
            return [(st, 'next', None)]
        if isinstance(s, ast.With):
            for it in s.items:
                v = self.ev(it.context_expr, st)
                if it.optional_vars is not None:
                    self.assign(it.optional_vars, UNK, st)
            return self.block(s.body, st)
        raise AnalysisError('%s: statement not modelled: %s' % (self.what, node_src(s, 60)))


def _load(t):
    t2 = ast.copy_location(ast.Name(id=t.id, ctx=ast.Load()), t) if isinstance(t, ast.Name) else \
        ast.copy_location(ast.Attribute(value=t.value, attr=t.attr, ctx=ast.Load()), t)
    return t2


def path_conditions(fn, target):
    """[(test node, polarity)] that must hold for control to reach `target` (a node inside fn): enclosing if-branches plus the
    negation of every earlier `if T: <always leaves>` in the enclosing statement lists (early return / raise / continue)."""
    found = []

    def leaves(stmts):
        for s in stmts:
            if isinstance(s, (ast.Return, ast.Raise, ast.Continue, ast.Break)):
                return True
            if isinstance(s, ast.If) and s.orelse and leaves(s.body) and leaves(s.orelse):
                return True
        return False

    def contains(s):
        return any(x is target for x in ast.walk(s))

    def rec(stmts, conds):
        conds = list(conds)
        for s in stmts:
            if contains(s):
                if isinstance(s, ast.If):
                    if any(x is target for x in ast.walk(s.test)):
                        found.append(conds)
                    elif any(contains(b) for b in s.body):
                        rec(s.body, conds + [(s.test, True)])
                    else:
                        rec(s.orelse, conds + [(s.test, False)])
                elif isinstance(s, (ast.For, ast.While)):
                    rec(s.body if any(contains(b) for b in s.body) else s.orelse, conds)
                elif isinstance(s, ast.With):
                    rec(s.body, conds)
                elif isinstance(s, ast.Try):
                    for part in [s.body, s.orelse, s.finalbody] + [h.body for h in s.handlers]:
                        if any(contains(b) for b in part):
                            rec(part, conds)
                else:
                    found.append(conds)
                return
            if isinstance(s, ast.If):
                if leaves(s.body) and not s.orelse:
                    conds.append((s.test, False))
                elif s.orelse and leaves(s.orelse) and not leaves(s.body):
                    conds.append((s.test, True))
                elif s.orelse and leaves(s.body) and not leaves(s.orelse):
                    conds.append((s.test, False))
    rec(fn.body, [])
    if len(found) != 1:
        raise AnalysisError('cannot locate %s inside %s' % (node_src(target, 50), fn.name))
    return found[0]


def const_attr_node(ctx, cls, attr):
    """The one expression node self.<attr> is bound to in the class family (class-level constant, or a single `self.<attr> = ...` in a
    method), when it is a tuple/string literal; else None."""
    ix = ctx.index
    binds = []
    for c in ix.mro(cls) + ix.subclasses(cls):
        if attr in c.attrs:
            binds.append(c.attrs[attr])
        for fn in c.methods.values():
            for n in walk_no_nested(fn):
                if isinstance(n, (ast.Assign, ast.AugAssign, ast.AnnAssign)):
                    tgts = n.targets if isinstance(n, ast.Assign) else [n.target]
                    for t in tgts:
                        for x in ast.walk(t):
                            if is_self_attr(x) and x.attr == attr:
                                binds.append(n.value if isinstance(n, ast.Assign) and t is x else None)
    if len(binds) != 1 or binds[0] is None:
        return None
    v = binds[0]
    if isinstance(v, ast.Tuple) or (isinstance(v, ast.Constant) and isinstance(v.value, str)):
        return v
    return None


def class_const(ctx, cls, attr, mini, st):
    """Value of self.<attr> when the class family binds it exactly once, to a tuple/string literal; else NotImplemented."""
    key = ('sC37.const', cls.qual, attr)
    v = ctx.memo(key, lambda: const_attr_node(ctx, cls, attr))
    if v is None:
        return NotImplemented
    return mini.ev(v, st)


# ================================================================================================ C37-EMIT
KINDS = ('continue', 'break', 'return', 'error')
BREAKING = ('break', 'return', 'error')


def _label_oracle(ctx, U, kinds, fresh, cls=None):
    naming = pC37.naming_values(ctx)

    def oracle(n, st, mini):
        if cls is not None and is_self_attr(n) and n.attr not in st.attrs:
            return class_const(ctx, cls, n.attr, mini, st)
        if isinstance(n, ast.Attribute) and isinstance(n.value, ast.Name):
            if n.value.id == 'Naming':
                return naming.get(n.attr, UNK)
            if n.value.id != 'self' and pC37.label_kind(n):
                return Label(pC37.label_kind(n))
        if isinstance(n, ast.Call) and isinstance(n.func, ast.Attribute) and not is_self_attr(n.func):
            a = n.func.attr
            if a == 'get_all_labels' and not n.args:
                return tuple(Label(k) for k in kinds)
            if a == 'label_used' and len(n.args) == 1:
                v = mini.ev(n.args[0], st)
                if isinstance(v, Label):
                    return v.kind in U
                return UNK
            if a == 'new_label':
                fresh[0] += 1
                return Label('tmp%d' % fresh[0])
        return NotImplemented
    return oracle


def helper_inliner(ctx, cls, needles, skip=()):
    """inliner for Mini: self.<name> helpers of cls whose source mentions one of the needles (so that emissions moved into a helper stay visible)."""
    ix = ctx.index

    def get(name):
        if name in skip:
            return None
        def build():
            r = ix.find_method(cls, name)
            if r is None:
                return None
            src = ast.unparse(r[1])
            return r[1] if any(x in src for x in needles) else None
        return ctx.memo(('sC37.inl', cls.qual, name, tuple(needles)), build)
    return get


EMIT_NEEDLES = ('parallel_why', 'parallel_exc')


def _recorder(n, st, mini, args, kwargs):
    f = n.func
    if isinstance(f, ast.Attribute):
        if f.attr in EMIT and n.args:
            text = mini.render(n.args[0], st)
            st.trace.append(('emit', ast.unparse(f.value), text, n))
        elif f.attr in ('put_label', 'put_goto') and args:
            st.trace.append((f.attr, args[0], None, n))
        elif is_self_attr(f):
            st.trace.append(('self', f.attr, None, n))
        else:
            st.trace.append(('call', f.attr, None, n))
    return NotImplemented


def trap_world(ctx, psn, trapfn, kinds, should_flush, U, why):
    """Evaluate trap_parallel_exit in the world `U` -> (flags set on self, kinds that store into why, fetch emitted?)"""
    fresh = [0]
    m = Mini(_label_oracle(ctx, U, kinds, fresh, psn), _recorder, what='trap_parallel_exit', inliner=helper_inliner(ctx, psn, EMIT_NEEDLES))
    paths = m.run(trapfn, State(), {'should_flush': should_flush})
    res = set()
    for st, flow, val in paths:
        if flow == 'raise':
            continue
        writers, fetch, cur = set(), False, None
        for ev in st.trace:
            if ev[0] == 'put_label' and isinstance(ev[1], Label):
                cur = ev[1].kind
            elif ev[0] == 'self' and ev[1] == 'fetch_parallel_exception':
                fetch = True
            elif ev[0] == 'emit' and ev[2] is not None and re.search(re.escape(why) + r'\s*=(?!=)', ev[2]):
                if cur is None:
                    raise AnalysisError('trap_parallel_exit stores into %s outside any label' % why)
                writers.add(cur)
        flags = tuple(sorted((k, v) for k, v in st.attrs.items() if isinstance(v, bool)))
        res.add((flags, frozenset(writers), fetch))
    if len(res) != 1:
        raise AnalysisError('trap_parallel_exit is not deterministic in the world U=%s (%d outcomes)' % (sorted(U), len(res)))
    flags, writers, fetch = next(iter(res))
    return dict(flags), writers, fetch


def _sites(ctx, psn):
    """[(class, method FunctionDef, end-call node, should_flush values of the trap calls of that class)]"""
    ix = ctx.index
    out = []
    for cls in [psn] + ix.subclasses(psn):
        traps = set()
        ends = []
        for name, fn in cls.methods.items():
            for c in walk_no_nested(fn):
                if pC37.self_call(c, ('trap_parallel_exit',)):
                    sf = False
                    if len(c.args) > 1:
                        sf = c.args[1]
                    for k in c.keywords:
                        if k.arg == 'should_flush':
                            sf = k.value
                    if isinstance(sf, ast.Constant):
                        sf = sf.value
                    if not isinstance(sf, bool):
                        raise AnalysisError('%s.%s: should_flush of trap_parallel_exit is not a constant' % (cls.name, name))
                    traps.add(sf)
                if pC37.self_call(c, ('end_parallel_control_flow_block',)):
                    ends.append((fn, c))
        for fn, c in ends:
            if len(traps) != 1:
                raise AnalysisError('%s: cannot pair end_parallel_control_flow_block with one trap_parallel_exit call (%d variants)' % (cls.name, len(traps)))
            out.append((cls, fn, c, next(iter(traps))))
    return out


def emit_problems(ctx, psn, trapfn, endfn, sites, guard_sites, codes, kinds, naming):
    """Yield (key, ok, sample, message, line) for every obligation of every world."""
    why, exc_type = naming['parallel_why'], naming['parallel_exc_type']
    params = [a.arg for a in endfn.args.args[1:]] + [a.arg for a in endfn.args.kwonlyargs]
    for cls, fn, call, should_flush in sites:
        env = pC37.local_assigns(fn)
        for r_ in range(len(KINDS) + 1):
            for U in itertools.combinations(KINDS, r_):
                U = frozenset(U)
                flags, writers, fetch = trap_world(ctx, psn, trapfn, kinds, should_flush, U, why)
                wname = '%s:U={%s}' % (cls.name, ','.join(k for k in KINDS if k in U))
                # arguments passed at the site, evaluated in the same world
                fresh = [0]
                m = Mini(_label_oracle(ctx, U, kinds, fresh), _recorder, what='%s.%s' % (cls.name, fn.name))
                st = State(attrs=dict(flags))
                bound = {}
                for i, a in enumerate(call.args):
                    if i < len(params) and i > 0:
                        bound[params[i]] = m.ev(pC37.deref(a, env), st)
                for k in call.keywords:
                    bound[k.arg] = m.ev(pC37.deref(k.value, env), st)
                for p, v in bound.items():
                    if v is UNK:
                        raise AnalysisError('%s.%s: cannot evaluate what is passed as %s to end_parallel_control_flow_block' % (cls.name, fn.name, p))
                m2 = Mini(_label_oracle(ctx, U, kinds, fresh, cls), _recorder, what='end_parallel_control_flow_block', inliner=helper_inliner(ctx, cls, EMIT_NEEDLES))
                paths = m2.run(endfn, State(attrs=dict(flags)), bound)
                paths = [p for p in paths if p[1] != 'raise']
                if not paths:
                    raise AnalysisError('end_parallel_control_flow_block has no normal path in world %s' % wname)

                def all_paths(pred):
                    for st, _, _ in paths:
                        if not any(ev[0] == 'emit' and ev[2] is not None and pred(ev[2]) for ev in st.trace):
                            op = [ev[1] for ev in st.trace if ev[0] == 'opaque']
                            if op:
                                raise AnalysisError('end_parallel_control_flow_block: helper self.%s() could not be interpreted in place (world %s); '
                                                    'cannot decide what it emits' % (op[0], wname))
                            return False
                    return True

                line = call.lineno
                others = writers - {'error'}
                if writers:
                    ok = all_paths(lambda t: re.search(r'\bint\s+' + re.escape(why) + r'\s*(?:=\s*0\s*)?;', t)) and \
                        all_paths(lambda t: re.search(re.escape(why) + r'\s*=\s*0\s*;', t))
                    yield ('emit:decl:' + wname, ok, 'body uses {%s}: %s is written for %s -> declared and zeroed' % (','.join(sorted(U)), why, sorted(writers)),
                           'the body of a %s uses the exit kinds {%s}: trap_parallel_exit stores into %s for %s, but end_parallel_control_flow_block (called with %s) '
                           'does not emit the declaration `int %s;` and the `%s = 0;` initialisation in that case: the generated C does not compile / reads an '
                           'uninitialised exit code' % (cls.name, ','.join(sorted(U)), why, sorted(writers), _show_bound(bound), why, why), line)
                if fetch:
                    ok = all_paths(lambda t: 'PyObject' in t and re.search(r'\b' + re.escape(exc_type) + r'\b', t))
                    yield ('emit:exc-decl:' + wname, ok, 'error trapped -> %s declared' % exc_type,
                           'the body of a %s can raise (exit kinds {%s}): fetch_parallel_exception is emitted, but end_parallel_control_flow_block (called with %s) does '
                           'not declare the shared exception slots %s... in that case' % (cls.name, ','.join(sorted(U)), _show_bound(bound), exc_type), line)
                    case = r'\bcase\s+%d\s*:' % codes['error']

                    def restored(st):
                        seen_case = False
                        for ev in st.trace:
                            if ev[0] == 'emit' and ev[2] is not None and re.search(case, ev[2]):
                                seen_case = True
                            elif seen_case and ev[0] == 'self' and ev[1] == 'restore_parallel_exception':
                                return True
                        return False
                    ok = all(restored(st) for st, _, _ in paths)
                    yield ('emit:exc-dispatch:' + wname, ok, 'error trapped -> case %d re-raises' % codes['error'],
                           'the body of a %s can raise (exit kinds {%s}): the exception is saved by fetch_parallel_exception, but end_parallel_control_flow_block '
                           '(called with %s) does not emit `case %d:` + restore_parallel_exception in that case: the exception is swallowed and the saved '
                           'exception object leaks' % (cls.name, ','.join(sorted(U)), _show_bound(bound), codes['error']), line)
                if fetch and others:
                    ok = all_paths(lambda t: re.search(re.escape(why) + r'\s*=\s*%d\s*;' % codes['error'], t))
                    yield ('emit:prefer-error:' + wname, ok, 'error + %s trapped -> `%s = %d` fix-up emitted' % (sorted(others), why, codes['error']),
                           'the body of a %s uses the exit kinds {%s}: another thread can overwrite the error code in %s with the code of %s after an exception was '
                           'saved, but end_parallel_control_flow_block (called here with %s) does not emit the `if (%s) %s = %d;` fix-up in that case: the switch '
                           'sees %s, the exception is swallowed and the saved exception object leaks' % (
                               cls.name, ','.join(sorted(U)), why, '/'.join(sorted(others)), _show_bound(bound), exc_type, why, codes['error'],
                               '/'.join('%d' % codes[k] for k in sorted(others))), line)
                # guards around the loop body / else clause
                for gcls, gfn, gcall, extra in guard_sites:
                    if not ctx.index.is_subclass(cls, gcls.name) and cls is not gcls:
                        continue
                    if not (writers & set(BREAKING)):
                        continue
                    mg = Mini(_label_oracle(ctx, U, kinds, fresh), None, what='%s.%s' % (gcls.name, gfn.name))
                    sg = State(attrs=dict(flags))
                    vals = []
                    for test, pol in extra:
                        t = mg.truth(test, sg)
                        if t is None:
                            raise AnalysisError('%s.%s: cannot evaluate the condition `%s` of an exit-code guard in world %s' % (gcls.name, gfn.name, node_src(test, 50), wname))
                        vals.append(t == pol)
                    yield ('emit:guard:%s.%s:%s' % (gcls.name, gfn.name, wname), all(vals), 'breaking exit trapped -> guard emitted',
                           '%s.%s emits its `if (%s < N)` guard only under `%s`, which is false when the loop body uses the exit kinds {%s}: after a %s in one iteration '
                           'the remaining iterations (or the else clause) still run' % (
                               gcls.name, gfn.name, why, ' and '.join(('' if p else 'not ') + node_src(t, 50) for t, p in extra), ','.join(sorted(U)),
                               '/'.join(sorted(writers & set(BREAKING)))), gcall.lineno)


def _show_bound(bound):
    return ', '.join('%s=%s' % kv for kv in sorted(bound.items())) or 'no flags'


class _Deref(ast.NodeTransformer):
    def __init__(self, env):
        self.env = env

    def visit_Name(self, n):
        if isinstance(n.ctx, ast.Load) and len(self.env.get(n.id, ())) == 1:
            return self.visit(ast.parse(ast.unparse(self.env[n.id][0]), mode='eval').body) if self.depth_ok(n) else n
        return n

    _seen = 0

    def depth_ok(self, n):
        self._seen += 1
        return self._seen < 50


def guard_sites(ctx, prn, why):
    """Emissions of `if (why <op> N)` in the prange class with the conditions they have beyond those of the code they guard."""
    ix = ctx.index
    out = []
    for cls in [prn] + ix.subclasses(prn):
        for name, fn in cls.methods.items():
            m = Mini(_label_oracle(ctx, frozenset(), KINDS, [0]), None, what=name)
            guarded = [c for c in walk_no_nested(fn) if isinstance(c, ast.Call) and isinstance(c.func, ast.Attribute) and c.func.attr == 'generate_execution_code'
                       and is_self_attr(c.func.value) and c.func.value.attr in ('body', 'else_clause')]
            for c in walk_no_nested(fn):
                if not (isinstance(c, ast.Call) and isinstance(c.func, ast.Attribute) and c.func.attr in EMIT and c.args):
                    continue
                text = m.render(c.args[0], State())
                if text is not None and PH in text:
                    # a part of the text comes from a local (`why_name = Naming.parallel_why`): resolve single-assignment locals first
                    text = m.render(_Deref(pC37.local_assigns(fn)).visit(ast.parse(ast.unparse(c.args[0]), mode='eval').body), State())
                if text is None or not re.search(r'\bif\s*\(\s*' + re.escape(why) + r'\s*(<=|>=|==|!=|<|>)', text):
                    continue
                if not guarded:
                    raise AnalysisError('%s.%s emits an exit-code guard but generates neither the loop body nor the else clause' % (cls.name, name))
                tgt = [g for g in guarded if g.func.value.attr == 'else_clause'] or guarded
                base = {(ast.unparse(t), p) for t, p in path_conditions(fn, tgt[0])}
                env = pC37.local_assigns(fn)
                extra = [(_Deref(env).visit(ast.parse(ast.unparse(t), mode='eval').body), p) for t, p in path_conditions(fn, c) if (ast.unparse(t), p) not in base]
                out.append((cls, fn, c, extra))
    return out


def rule_emit(ctx):
    ix = ctx.index
    r = Rule('C37-EMIT', 'for every parallel construct x every set of exit kinds used by its body: what trap_parallel_exit writes/saves is declared, zeroed, '
             'error-preferred and dispatched by end_parallel_control_flow_block in the same world; exit-code guards are emitted whenever a breaking exit is trapped',
             floor=85)
    psn = ix.cls('Nodes', 'ParallelStatNode')
    prn = ix.cls('Nodes', 'ParallelRangeNode')
    rel = psn.module.rel
    naming = pC37.naming_values(ctx)
    w = pC37.writer_codes(ctx, psn)
    _, trapfn = pC37.method(ix, psn, 'trap_parallel_exit')
    _, endfn = pC37.method(ix, psn, 'end_parallel_control_flow_block')
    sites = _sites(ctx, psn)
    if len(sites) < 2:
        raise AnalysisError('only %d call sites of end_parallel_control_flow_block found' % len(sites))
    gs = guard_sites(ctx, prn, naming['parallel_why'])
    if len(gs) < 2:
        # a missing guard is a finding of C37-WHY (why:body-guard / why:else-guard), not a reason to stop deciding the rest here
        r.info('only %d exit-code guard emission(s) found in ParallelRangeNode (C37-WHY decides whether body and else clause are guarded)' % len(gs))
    failing = {}
    for key, ok, sample, msg, line in emit_problems(ctx, psn, trapfn, endfn, sites, gs, w['codes'], w['kinds'], naming):
        r.inst(key, sample=key + ': ' + sample)
        if not ok:
            failing.setdefault(key.rsplit(':U=', 1)[0], []).append((key.rsplit(':U=', 1)[1], msg, line))
    for vkey, lst in sorted(failing.items()):
        lst.sort(key=lambda x: (x[0].count(','), x[0]))
        r.violate(vkey, rel, lst[0][2], lst[0][1] + ' (%d world(s) fail: U=%s)' % (len(lst), ' U='.join(x[0] for x in lst)))
    # positive control: an end block that emits the fix-up only when an exit is propagated
    pc = ast.parse(
        "class P:\n"
        "  def trap_parallel_exit(self, code, should_flush=False):\n"
        "    self.error_label_used = False\n    self.breaking_label_used = False\n    self.return_label_used = False\n"
        "    for i, label in enumerate(code.get_all_labels()):\n"
        "      if not code.label_used(label):\n        continue\n"
        "      self.breaking_label_used = self.breaking_label_used or label != code.continue_label\n"
        "      self.return_label_used = self.return_label_used or label == code.return_label\n"
        "      code.put_label(label)\n"
        "      if should_flush and label == code.continue_label:\n        continue\n"
        "      if label == code.error_label:\n        self.error_label_used = True\n        self.fetch_parallel_exception(code)\n"
        "      code.putln('%s = %d;' % (Naming.parallel_why, i + 1))\n"
        "  def end_parallel_control_flow_block(self, code, break_=False, continue_=False, return_=False):\n"
        "    if self.error_label_used:\n"
        "      code.putln('PyObject *%s = NULL;' % Naming.parallel_exc_type)\n"
        "      if break_ or return_:\n        code.putln('if (%s) %s = 4;' % (Naming.parallel_exc_type, Naming.parallel_why))\n"
        "    if self.breaking_label_used:\n"
        "      code.putln('int %s;' % Naming.parallel_why)\n      code.putln('%s = 0;' % Naming.parallel_why)\n"
        "      if self.error_label_used:\n        code.putln('case 4:')\n        self.restore_parallel_exception(code)\n"
        "  def gen(self, code):\n    self.trap_parallel_exit(code, True)\n    self.end_parallel_control_flow_block(code, return_=self.return_label_used)\n").body[0]
    fns = {f.name: f for f in pc.body}
    bad = [k for k, ok, _, _, _ in emit_problems(ctx, psn, fns['trap_parallel_exit'], fns['end_parallel_control_flow_block'],
                                                 [(psn, fns['gen'], [c for c in ast.walk(fns['gen']) if pC37.self_call(c, ('end_parallel_control_flow_block',))][0], True)],
                                                 [], {'continue': 1, 'break': 2, 'return': 3, 'error': 4}, KINDS, naming) if not ok]
    r.positive_control(bool(bad) and all(k.startswith('emit:prefer-error:') for k in bad) and any('U={break,error}' in k for k in bad),
                       'error fix-up emitted only when an exit is propagated')
    return r


# ================================================================================================ C37-TRIP
STEPS = (1, 2, 3, 5, -1, -2, -3, -5)
STARTS = (-2, 0, 3)


def step_worlds():
    yield ('absent', None)
    for k in STEPS:
        yield ('literal', k)
    for k in STEPS:
        yield ('runtime', k)


def _node_sym(name, how, k=None):
    if how == 'literal':
        return Sym(name, dict(is_literal=True, constant_result=k, is_temp=False), dict(has_constant_result=lambda: True, is_simple=lambda: True))
    if how == 'runtime':
        return Sym(name, dict(is_literal=False, is_temp=UNK), dict(has_constant_result=lambda: False))
    return Sym(name, dict(is_literal=UNK), dict(has_constant_result=lambda: UNK))


C_ASSIGN = re.compile(r'^\s*([A-Za-z_]\w*)\s*=(?!=)\s*(.+?)\s*;\s*$', re.S)
C_IF = re.compile(r'^\s*if\s*\((.*)\)\s*\{?\s*$', re.S)
C_FOR = re.compile(r'^\s*for\s*\((.*)\)\s*\{?\s*$', re.S)
VARS = ('start', 'stop', 'step', 'nsteps', 'i', 'target')


def _cparse(text, what):
    text = re.sub(r'\(\s*target_type\s*\)', '', text)
    try:
        return cexpr.parse(' '.join(text.split()))
    except cexpr.ParseError as e:
        raise AnalysisError('cannot parse the emitted C expression `%s` (%s): %s' % (text, what, e))


def _ceval(e, env, what):
    try:
        return cexpr.evaluate(e, env, calls={'abs': abs, 'labs': abs, 'llabs': abs})
    except cexpr.EvalError as x:
        raise AnalysisError('cannot evaluate the emitted C expression of %s: %s' % (what, x))


def loop_shape(ctx, prn):
    """generate_loop: the for header and the index assignment, which must be emitted unconditionally."""
    ix = ctx.index
    header = index = None
    for cls in [prn]:
        for name, fn in cls.methods.items():
            m = Mini(None, None, what=name)
            for c in walk_no_nested(fn):
                if not (isinstance(c, ast.Call) and isinstance(c.func, ast.Attribute) and c.func.attr in EMIT and c.args):
                    continue
                text = m.render(c.args[0], State())
                if text is None:
                    continue
                mf = C_FOR.match(text)
                if mf and re.search(r'\bnsteps\b', text):
                    if header is not None:
                        raise AnalysisError('ParallelRangeNode emits more than one `for (...nsteps...)` header')
                    header = (fn, c, mf.group(1))
                ma = C_ASSIGN.match(text)
                if ma and ma.group(1) == 'target':
                    if index is not None:
                        raise AnalysisError('ParallelRangeNode assigns the target index in more than one emission')
                    index = (fn, c, ma.group(2))
    if header is None or index is None:
        raise AnalysisError('ParallelRangeNode: for header / target index assignment not found (header=%s, index=%s)' % (header is not None, index is not None))
    for fn, c, _ in (header, index):
        if path_conditions(fn, c):
            raise AnalysisError('%s: the loop header / index assignment is emitted conditionally; not modelled' % fn.name)
    parts = header[2].split(';')
    if len(parts) != 3:
        raise AnalysisError('cannot split the emitted for header `%s`' % header[2])
    mi = C_ASSIGN.match(parts[0] + ';')
    if not mi or mi.group(1) != 'i':
        raise AnalysisError('for header does not initialise the counter: `%s`' % parts[0])
    inc = ''.join(parts[2].split())
    if inc not in ('i++', '++i', 'i+=1', 'i=i+1'):
        raise AnalysisError('for header increment `%s` is not a unit increment' % parts[2])
    return dict(fn=header[0], init=_cparse(mi.group(2), 'for init'), cond=_cparse(parts[1], 'for condition'),
                index=_cparse(index[2], 'index'), header_text=header[2], index_text=index[2], header_call=header[1], index_call=index[1])


def trip_paths(ctx, prn, fn, how, k):
    """Paths of generate_execution_code in one step world -> list of C statement lists (text) emitted before the loop is generated."""
    step = None if how == 'absent' else _node_sym('step', how, k)

    def oracle(n, st, mini):
        if is_self_attr(n) and n.attr == 'step' and 'step' not in st.attrs:
            return step
        if is_self_attr(n) and n.attr not in st.attrs:
            return class_const(ctx, prn, n.attr, mini, st)
        if isinstance(n, ast.Attribute) and isinstance(n.value, ast.Name) and n.value.id == 'Naming':
            return pC37.naming_values(ctx).get(n.attr, UNK)
        return NotImplemented

    def rec(n, st, mini, args, kwargs):
        f = n.func
        if isinstance(f, ast.Attribute):
            if f.attr in EMIT and n.args:
                st.trace.append(('emit', mini.render(n.args[0], st), n))
            elif is_self_attr(f) and f.attr == 'generate_loop':
                st.trace.append(('loop', None, n))
                st.env['__stop__'] = True
            elif f.attr == 'begin_block':
                st.trace.append(('begin', None, n))
        return NotImplemented
    m = Mini(oracle, rec, max_paths=20000, what='ParallelRangeNode.%s' % fn.name, inliner=helper_inliner(ctx, prn, ("nsteps",), skip=('generate_loop',)))
    out = []
    for st, flow, val in m.run(fn, State()):
        if flow == 'raise' or not any(ev[0] == 'loop' for ev in st.trace):
            continue
        seq = []
        for ev in st.trace:
            if ev[0] == 'loop':
                break
            seq.append(ev)
        sig = tuple((e[0], e[1]) for e in seq if e[0] == 'begin' or (e[1] is not None and re.search(r'\b(nsteps|target)\b', e[1])))
        out.append((sig, seq))
    uniq = {}
    for sig, seq in out:
        uniq.setdefault(sig, seq)
    return list(uniq.values())


def trip_check(seq, shape, how, k, label):
    """Evaluate one emitted statement sequence + loop over the box; -> None or a counterexample message."""
    stmts = []
    pending_if = None
    for ev in seq:
        if ev[0] == 'begin':
            if pending_if is not None:
                stmts.append(('guard', pending_if))
                pending_if = None
            continue
        pending_if = None
        text = ev[1]
        if text is None or not re.search(r'\b(nsteps|target)\b', text):
            continue
        ma = C_ASSIGN.match(text)
        mi = C_IF.match(text)
        if ma and ma.group(1) in ('nsteps', 'target'):
            stmts.append(('assign', ma.group(1), _cparse(ma.group(2), label), text))
        elif mi:
            pending_if = (_cparse(mi.group(1), label), text)
        else:
            raise AnalysisError('%s: emitted statement mentioning nsteps/target not modelled: `%s`' % (label, text))
    if not any(s[0] == 'assign' and s[1] == 'nsteps' for s in stmts):
        raise AnalysisError('%s: no assignment to the trip count is emitted before the loop' % label)
    step = 1 if k is None else k
    for start in STARTS:
        for d in range(-3 * abs(step) - 2, 3 * abs(step) + 3):
            stop = start + d
            env = {'start': start, 'stop': stop, 'step': step}
            skip = False
            for s in stmts:
                if s[0] == 'assign':
                    env[s[1]] = _ceval(s[2], env, label)
                elif s[0] == 'guard':
                    if not _ceval(s[1][0], env, label):
                        skip = True
            got = []
            if not skip:
                env['i'] = _ceval(shape['init'], env, 'for init')
                n = 0
                while _ceval(shape['cond'], env, 'for condition'):
                    got.append(_ceval(shape['index'], env, 'index'))
                    env['i'] += 1
                    n += 1
                    if n > 200:
                        break
            want = list(range(start, stop, step))
            if got != want:
                return ('prange(%d, %d%s) with %s step: the emitted code computes nsteps=%s and runs the iterations %s (index ends at %s); the sequential loop runs %s '
                        '(ends at %s)' % (start, stop, '' if k is None else ', %d' % k, how, env.get('nsteps'), got[:8], got[-1] if got else 'unchanged',
                                          want[:8], want[-1] if want else 'unchanged'))
    return None


def names_pairing(ctx, prn, fn):
    """The loop that fills fmt_dict: (node attribute, key, default) rows."""
    ix = ctx.index
    env = pC37.local_assigns(fn)
    for n in walk_no_nested(fn):
        if isinstance(n, ast.For) and isinstance(n.iter, ast.Call) and isinstance(n.iter.func, ast.Name) and n.iter.func.id == 'zip' and len(n.iter.args) == 3:
            cols = []
            for a in n.iter.args:
                a = pC37.deref(a, env)
                if is_self_attr(a):
                    a = const_attr_node(ctx, prn, a.attr) or a
                if not isinstance(a, (ast.Tuple, ast.List)):
                    cols = None
                    break
                cols.append(list(a.elts))
            if cols and len({len(c) for c in cols}) == 1:
                rows = []
                for x, y, z in zip(*cols):
                    rows.append((x.attr if is_self_attr(x) else None, y.value if isinstance(y, ast.Constant) else None, z.value if isinstance(z, ast.Constant) else None, n))
                if all(r_[0] and isinstance(r_[1], str) for r_ in rows):
                    return rows
    return None


def rule_trip(ctx):
    ix = ctx.index
    r = Rule('C37-TRIP', 'the emitted trip count, loop header and index formula of prange enumerate exactly range(start, stop, step) (C semantics, every residue class '
             'of the distance modulo small |step|, both directions, empty ranges) for every way the step is known to the compiler', floor=18)
    prn = ix.cls('Nodes', 'ParallelRangeNode')
    rel = prn.module.rel
    _, fn = pC37.method(ix, prn, 'generate_execution_code')
    shape = loop_shape(ctx, prn)
    rows = names_pairing(ctx, prn, fn)
    if rows is None:
        raise AnalysisError('ParallelRangeNode.generate_execution_code: cannot see how start/stop/step are stored into the format dict')
    want_default = {'start': '0', 'step': '1'}
    for attr, key, default, node in rows:
        r.inst('trip:operand:' + attr, sample='self.%s -> %%(%s)s, default %r' % (attr, key, default))
        if attr != key:
            r.violate('trip:operand:' + attr, rel, node.lineno,
                      'ParallelRangeNode stores the C value of self.%s under the key %r of the format dict: the trip count and index formula then use %s in place of %s'
                      % (attr, key, attr, key))
        elif key in want_default and default != want_default[key]:
            r.violate('trip:operand:' + attr, rel, node.lineno, 'an omitted prange %s defaults to %r instead of %r' % (key, default, want_default[key]))
    failing = {}
    for how, k in step_worlds():
        key = 'trip:%s%s' % (how, '' if k is None else ':%d' % k)
        seqs = trip_paths(ctx, prn, fn, how, k)
        if not seqs:
            raise AnalysisError('ParallelRangeNode.generate_execution_code: no path reaches generate_loop in the world %s' % key)
        r.inst(key, sample='%s: %d distinct emitted nsteps sequence(s); loop `for (%s)` index `%s`' % (key, len(seqs), shape['header_text'], shape['index_text']))
        for seq in seqs:
            msg = trip_check(seq, shape, how, k, key)
            if msg and any(e[0] == 'opaque' for e in seq):
                raise AnalysisError('ParallelRangeNode.generate_execution_code: helper self.%s() mentions the trip count but could not be interpreted in place'
                                    % [e[1] for e in seq if e[0] == 'opaque'][0])
            if msg:
                failing.setdefault('trip:' + how, []).append((k, msg, [e for e in seq if e[1] and 'nsteps' in e[1]][-1][2].lineno))
                break
    for vkey, lst in sorted(failing.items()):
        lst.sort(key=lambda x: (abs(x[0] or 0), x[0] or 0))
        r.violate(vkey, rel, lst[0][2], lst[0][1] + ' - reductions miss terms and the lastprivate index is wrong on every schedule (failing steps: %s)'
                  % ', '.join(str(x[0]) for x in lst))
    # positive control: a descending-step formula without the rounding term
    bad_seq = [('emit', 'nsteps = (start - stop) / (-(step));', None), ('emit', 'if (nsteps > 0)', None), ('begin', None, None)]
    ok_seq = [('emit', 'nsteps = (stop - start + step - step/abs(step)) / step;', None), ('emit', 'if (nsteps > 0)', None), ('begin', None, None)]
    pshape = dict(init=cexpr.parse('0'), cond=cexpr.parse('i < nsteps'), index=cexpr.parse('start + step * i'))
    r.positive_control(trip_check(bad_seq, pshape, 'literal', -3, 'pc') is not None and trip_check(bad_seq, pshape, 'literal', -1, 'pc') is None and
                       trip_check(ok_seq, pshape, 'literal', -3, 'pc') is None and trip_check(ok_seq, pshape, 'runtime', 5, 'pc') is None,
                       'floor instead of ceiling for a descending stride')
    return r


# ================================================================================================ fourth round: C37-SEQ, C37-FLOW, C37-NODE
class Mini2(Mini):
    """Mini that also follows stores to attributes of opaque objects (`node.is_parallel = ...`, setattr) in a per-path overlay kept in
    State.attrs under the key (id of the object, attribute), and list-like push/pop on a tuple-valued self attribute."""

    @staticmethod
    def sym_get(st, sym, attr):
        k = (id(sym), attr)
        if k in st.attrs:
            return st.attrs[k]
        return sym.attrs.get(attr, UNK)

    def ev(self, n, st):
        if isinstance(n, ast.Attribute) and not is_self_attr(n):
            if self.oracle is not None:
                v = self.oracle(n, st, self)
                if v is not NotImplemented:
                    return v
            b = self.ev(n.value, st)
            if isinstance(b, Sym):
                return self.sym_get(st, b, n.attr)
            return UNK
        return Mini.ev(self, n, st)

    def assign(self, t, v, st):
        if isinstance(t, ast.Attribute) and not is_self_attr(t):
            b = self.ev(t.value, st)
            if isinstance(b, Sym):
                st.attrs[(id(b), t.attr)] = v
                st.trace.append(('store', b, t.attr, v))
            return
        Mini.assign(self, t, v, st)

    def call(self, n, st):
        f = n.func
        if isinstance(f, ast.Name) and f.id in ('getattr', 'setattr') and not n.keywords and len(n.args) in (2, 3):
            obj, name = self.ev(n.args[0], st), self.ev(n.args[1], st)
            if isinstance(obj, Sym) and isinstance(name, str):
                if f.id == 'getattr':
                    v = self.sym_get(st, obj, name)
                    return self.ev(n.args[2], st) if (v is UNK and len(n.args) == 3 and name not in obj.attrs and (id(obj), name) not in st.attrs) else v
                if len(n.args) == 3:
                    v = self.ev(n.args[2], st)
                    st.attrs[(id(obj), name)] = v
                    st.trace.append(('store', obj, name, v))
                    return None
            return UNK
        if isinstance(f, ast.Attribute) and f.attr in ('append', 'pop') and is_self_attr(f.value) and isinstance(st.attrs.get(f.value.attr), tuple):
            cur = st.attrs[f.value.attr]
            if f.attr == 'append' and len(n.args) == 1:
                st.attrs[f.value.attr] = cur + (self.ev(n.args[0], st),)
                return None
            if f.attr == 'pop' and not n.args:
                if not cur:
                    raise AnalysisError('%s: pop from an empty %s' % (self.what, f.value.attr))
                st.attrs[f.value.attr] = cur[:-1]
                return cur[-1]
        return Mini.call(self, n, st)


def _normal_paths(paths, what):
    out = [p for p in paths if p[1] != 'raise']
    if not out:
        raise AnalysisError('%s has no normal path in the analysed world' % what)
    return out


# ------------------------------------------------------------------------------------------------ C37-SEQ
def trap_trace(ctx, psn, trapfn, kinds, should_flush, U):
    """The event trace of trap_parallel_exit in the world (should_flush, U): one list, the method is deterministic in a world."""
    fresh = [0]
    m = Mini(_label_oracle(ctx, U, kinds, fresh, psn), _recorder, what='trap_parallel_exit', inliner=helper_inliner(ctx, psn, EMIT_NEEDLES + ('put_label', 'put_goto')))
    paths = _normal_paths(m.run(trapfn, State(), {'should_flush': should_flush}), 'trap_parallel_exit')
    traces = []
    for st, _, _ in paths:
        t = [(e[0], e[1] if e[0] != 'emit' else e[2]) for e in st.trace if e[0] in ('emit', 'put_label', 'put_goto', 'self', 'opaque')]
        if t not in traces:
            traces.append(t)
    if len(traces) != 1:
        raise AnalysisError('trap_parallel_exit is not deterministic in the world U=%s (%d traces)' % (sorted(U), len(traces)))
    if any(e[0] == 'opaque' for e in traces[0]):
        raise AnalysisError('trap_parallel_exit: helper self.%s() could not be interpreted in place' % [e[1] for e in traces[0] if e[0] == 'opaque'][0])
    return traces[0]


def seq_problems(trace, U, should_flush, why, codes):
    """-> [(key, ok, message)] for the emitted skeleton  goto D; (L_k: [why = code_k;] goto D;)*  D:  of one world."""
    out = []
    ctl = [(i, e) for i, e in enumerate(trace) if e[0] in ('put_label', 'put_goto')]
    used = [k for k in KINDS if k in U]
    if not used:
        return out
    tmp = [e[1] for _, e in ctl if isinstance(e[1], Label) and e[1].kind.startswith('tmp')]
    join = tmp[-1] if tmp else None
    first = ctl[0][1] if ctl else None
    out.append(('seq:skip', first is not None and first[0] == 'put_goto' and first[1] == join and join is not None,
                'the code after the loop body / block body falls into the first trapped label: trap_parallel_exit does not start with a jump over the label blocks, so a '
                'body that completes normally stores the exit code of %s (every prange with a %s stops after one iteration per thread)' % (used[0], used[0])))
    out.append(('seq:join', bool(ctl) and ctl[-1][1][0] == 'put_label' and ctl[-1][1][1] == join,
                'the label blocks of trap_parallel_exit do not end at a common join label placed after the last block'))
    for pos, (i, e) in enumerate(ctl):
        if e[0] != 'put_label' or not isinstance(e[1], Label) or e[1].kind not in KINDS:
            continue
        k = e[1].kind
        nxt = ctl[pos + 1][1] if pos + 1 < len(ctl) else None
        later = [x[1].kind for _, x in ctl[pos + 1:] if x[0] == 'put_label' and isinstance(x[1], Label) and x[1].kind in KINDS]
        # leaving the block by `goto J` or by running straight into `J:` (last block) are the same program
        out.append(('seq:no-fallthrough:' + k, nxt is not None and nxt[0] in ('put_goto', 'put_label') and nxt[1] == join,
                    'the block that traps a %s is not closed by a jump to the join label: it falls through into the block of %s, so a %s is reported with the exit code of %s'
                    % (k, later[0] if later else 'the code after it', k, later[-1] if later else 'nothing')))
        end = ctl[pos + 1][0] if pos + 1 < len(ctl) else len(trace)
        block = trace[i + 1:end]
        stores = [int(m.group(1)) for x in block if x[0] == 'emit' and x[1] for m in re.finditer(re.escape(why) + r'\s*=(?!=)\s*(-?\d+)\s*;', x[1])]
        if should_flush and k == 'continue':
            continue        # prange: a continue is a direct jump to the end of the iteration, nothing to report
        out.append(('seq:store:' + k, stores == [codes[k]],
                    'a %s that leaves the parallel block is trapped but its block stores %s into %s instead of %d: end_parallel_control_flow_block cannot dispatch it to the '
                    'enclosing %s target, the statement is silently dropped' % (k, stores or 'nothing', why, codes[k], k)))
    return out


def _writer_kind(ctx, psn, fn, writer_src, env):
    """'before' when the writer expression of an emission resolves to an insertion point captured by setup_parallel_control_flow_block,
    'after' when it is the code writer parameter of fn, None when it cannot be resolved."""
    try:
        e = ast.parse(writer_src, mode='eval').body
    except SyntaxError:
        return None
    e = pC37.deref(e, env)
    params = [a.arg for a in fn.args.args[1:]]
    if isinstance(e, ast.Name) and e.id in params:
        return 'after'
    if is_self_attr(e):
        _, setup = pC37.method(ctx.index, psn, 'setup_parallel_control_flow_block')
        for n in walk_no_nested(setup):
            if isinstance(n, ast.Assign) and any(is_self_attr(t) and t.attr == e.attr for t in n.targets) and isinstance(n.value, ast.Call) and \
                    isinstance(n.value.func, ast.Attribute) and n.value.func.attr == 'insertion_point':
                return 'before'
    return None


def place_problems(ctx, psn, endfn, sites, codes, kinds, naming, trapfn):
    """Placement of what end_parallel_control_flow_block emits relative to the parallel region, per site and world."""
    why, exc_type = naming['parallel_why'], naming['parallel_exc_type']
    params = [a.arg for a in endfn.args.args[1:]] + [a.arg for a in endfn.args.kwonlyargs]
    env_end = pC37.local_assigns(endfn)
    for cls, fn, call, should_flush in sites:
        env = pC37.local_assigns(fn)
        for U in (frozenset(('break', 'error')), frozenset(('return',)), frozenset(KINDS)):
            flags, writers, fetch = trap_world(ctx, psn, trapfn, kinds, should_flush, U, why)
            wname = '%s:U={%s}' % (cls.name, ','.join(k for k in KINDS if k in U))
            fresh = [0]
            m = Mini(_label_oracle(ctx, U, kinds, fresh), _recorder, what='%s.%s' % (cls.name, fn.name))
            st = State(attrs=dict(flags))
            bound = {}
            for i, a in enumerate(call.args):
                if 0 < i < len(params):
                    bound[params[i]] = m.ev(pC37.deref(a, env), st)
            for k in call.keywords:
                bound[k.arg] = m.ev(pC37.deref(k.value, env), st)
            m2 = Mini(_label_oracle(ctx, U, kinds, fresh, cls), _recorder, what='end_parallel_control_flow_block', inliner=helper_inliner(ctx, cls, EMIT_NEEDLES))
            paths = _normal_paths(m2.run(endfn, State(attrs=dict(flags)), bound), 'end_parallel_control_flow_block')
            zero_ok = fix_ok = cond_ok = True
            zero_seen = fix_seen = cond_seen = False
            cond_text = None
            for stt, _, _ in paths:
                ems = [e for e in stt.trace if e[0] == 'emit' and e[2] is not None]
                for j, e in enumerate(ems):
                    wk = _writer_kind(ctx, psn, endfn, e[1], env_end)
                    if re.search(re.escape(why) + r'\s*=\s*0\s*;', e[2]) or re.search(r'\bint\s+' + re.escape(why) + r'\s*(?:=\s*0\s*)?;', e[2]):
                        zero_seen = True
                        if wk != 'before':
                            zero_ok = False
                    if re.search(re.escape(why) + r'\s*=\s*%d\s*;' % codes['error'], e[2]):
                        fix_seen = True
                        if wk != 'after':
                            fix_ok = False
                        prev = [x for x in ems[:j] if re.search(r'\bif\s*\(', x[2])]
                        if not prev or _writer_kind(ctx, psn, endfn, prev[-1][1], env_end) != 'after':
                            fix_ok = False
                    if re.search(r'\bswitch\s*\(\s*' + re.escape(why) + r'\s*\)', e[2]):
                        cond_seen = True
                        conds = [x for x in ems[:j] if re.match(r'\s*if\s*\((.*)\)\s*\{\s*$', x[2], re.S) and re.search(r'\b' + re.escape(why) + r'\b', x[2])]
                        if wk != 'after' or not conds or _writer_kind(ctx, psn, endfn, conds[-1][1], env_end) != 'after':
                            cond_ok = False
                        else:
                            cond_text = re.match(r'\s*if\s*\((.*)\)\s*\{\s*$', conds[-1][2], re.S).group(1)
                            try:
                                ce = cexpr.parse(cond_text.replace(why, 'why'))
                                vals = {k: cexpr.evaluate(ce, {'why': codes[k]}) for k in writers}
                            except Exception as ex:
                                raise AnalysisError('end_parallel_control_flow_block: cannot evaluate the dispatch condition `%s`: %s' % (cond_text, ex))
                            if not all(vals.values()):
                                cond_ok = False
            if writers and zero_seen:
                yield ('place:init:' + wname, zero_ok, '`int %s; %s = 0;` written in front of the parallel region' % (why, why),
                       'end_parallel_control_flow_block declares / zeroes %s through the code writer that stands AFTER the parallel region instead of the insertion point '
                       'captured by setup_parallel_control_flow_block in front of it: the exit code stored by the threads is wiped (or not yet declared) when the switch reads it - '
                       'break, return and exceptions are swallowed and a saved exception object leaks' % why, call.lineno)
            if fetch and (writers - {'error'}) and fix_seen:
                yield ('place:prefer-error:' + wname, fix_ok, '`if (%s) %s = %d;` written after the parallel region' % (exc_type, why, codes['error']),
                       'end_parallel_control_flow_block writes the `if (%s) %s = %d;` fix-up through the insertion point in FRONT of the parallel region: it runs before any thread '
                       'can have saved an exception, so an error code overwritten by another thread\'s break/return is not restored and the exception is lost'
                       % (exc_type, why, codes['error']), call.lineno)
            if writers and cond_seen:
                yield ('place:dispatch:' + wname, cond_ok, 'switch reached for the exit codes %s (condition `%s`)' % (sorted(codes[k] for k in writers), cond_text),
                       'end_parallel_control_flow_block emits the `switch (%s)` dispatch under the C condition `%s`, which is false for the exit code of %s '
                       '(or emits it in front of the parallel region): the trapped exit is never dispatched, break/return are ignored and a saved exception is swallowed and leaks'
                       % (why, cond_text, '/'.join(sorted(k for k in writers))), call.lineno)


def guard_placement(ctx, gs):
    """For every `if (why < N)` guard emission: (class, fn, call, ok, how) - the guard text must land in front of the code it guards."""
    out = []
    for cls, fn, c, extra in gs:
        guarded = [x for x in walk_no_nested(fn) if isinstance(x, ast.Call) and isinstance(x.func, ast.Attribute) and x.func.attr == 'generate_execution_code'
                   and is_self_attr(x.func.value) and x.func.value.attr in ('body', 'else_clause')]
        tgt = [g for g in guarded if g.func.value.attr == 'else_clause'] or guarded
        tgt = tgt[0]
        env = pC37.local_assigns(fn)
        w = c.func.value
        params = [a.arg for a in fn.args.args[1:]]
        anchor = None
        if isinstance(w, ast.Name) and w.id in params:
            anchor, how = c, 'written through the code writer'
        elif isinstance(w, ast.Name) and len(env.get(w.id, ())) == 1 and isinstance(env[w.id][0], ast.Call) and isinstance(env[w.id][0].func, ast.Attribute) \
                and env[w.id][0].func.attr == 'insertion_point':
            anchor, how = env[w.id][0], 'written through an insertion point'
        if anchor is None:
            raise AnalysisError('%s.%s: cannot resolve the writer `%s` of the exit-code guard' % (cls.name, fn.name, ast.unparse(w)))

        def order_key(node):
            for i, s in enumerate(fn.body):
                if any(x is node for x in ast.walk(s)):
                    return (i, node.lineno, node.col_offset)
            raise AnalysisError('%s.%s: statement of %s not found' % (cls.name, fn.name, node_src(node, 40)))
        out.append((cls, fn, c, order_key(anchor) < order_key(tgt), how, tgt.func.value.attr))
    return out


def rule_seq(ctx):
    ix = ctx.index
    r = Rule('C37-SEQ', 'the C skeleton emitted by trap_parallel_exit (jump over the label blocks, one closed block per trapped label storing its own exit code, common join '
             'label) for every construct x set of exit kinds, and the placement of the exit-code declaration/zeroing (in front of the parallel region), of the prefer-error '
             'fix-up and the dispatch switch (after it, reached for every stored code) and of the `if (why < N)` guards (in front of the guarded code)', floor=110)
    psn = ix.cls('Nodes', 'ParallelStatNode')
    prn = ix.cls('Nodes', 'ParallelRangeNode')
    rel = psn.module.rel
    naming = pC37.naming_values(ctx)
    why = naming['parallel_why']
    w = pC37.writer_codes(ctx, psn)
    codes, kinds = w['codes'], w['kinds']
    _, trapfn = pC37.method(ix, psn, 'trap_parallel_exit')
    _, endfn = pC37.method(ix, psn, 'end_parallel_control_flow_block')
    sites = _sites(ctx, psn)
    failing = {}
    for should_flush in sorted({s[3] for s in sites}):
        cname = '/'.join(sorted({s[0].name for s in sites if s[3] == should_flush}))
        for n_ in range(1, len(KINDS) + 1):
            for U in itertools.combinations(KINDS, n_):
                trace = trap_trace(ctx, psn, trapfn, kinds, should_flush, frozenset(U))
                for key, ok, msg in seq_problems(trace, frozenset(U), should_flush, why, codes):
                    full = '%s:%s:U={%s}' % (key, cname, ','.join(U))
                    r.inst(full, sample=full)
                    if not ok:
                        failing.setdefault('%s:%s' % (key, cname), []).append((','.join(U), msg, trapfn.lineno))
    for key, ok, sample, msg, line in place_problems(ctx, psn, endfn, sites, codes, kinds, naming, trapfn):
        r.inst(key, sample=key + ': ' + sample)
        if not ok:
            failing.setdefault(key.rsplit(':U=', 1)[0], []).append((key.rsplit(':U=', 1)[1].strip('{}'), msg, line))
    for vkey, lst in sorted(failing.items()):
        lst.sort(key=lambda x: (x[0].count(','), x[0]))
        r.violate(vkey, rel, lst[0][2], lst[0][1] + ' (%d world(s) fail, first: U={%s})' % (len(lst), lst[0][0]))
    gs = guard_sites(ctx, prn, why)
    for cls, fn, c, ok, how, what in guard_placement(ctx, gs):
        key = 'place:guard:%s.%s' % (cls.name, fn.name)
        r.inst(key, sample='%s: guard of the %s %s' % (key, what, how))
        if not ok:
            r.violate(key, cls.module.rel, c.lineno,
                      '%s.%s emits its `if (%s < N)` guard (%s) AFTER the code of the %s it is meant to guard has been generated: the guard applies to nothing, iterations '
                      'scheduled after a break/return/raise (or the else clause) still run' % (cls.name, fn.name, why, how, 'loop body' if what == 'body' else 'else clause'))
    # positive control: a trap without the closing goto of each block, and a zeroing written after the region
    pc = ast.parse(
        "class P:\n"
        "  def trap_parallel_exit(self, code, should_flush=False):\n"
        "    dont = code.new_label()\n    labels = code.get_all_labels()\n    used = False\n"
        "    for label in labels:\n      if code.label_used(label):\n        used = True\n"
        "    if used:\n      code.put_goto(dont)\n"
        "    for i, label in enumerate(labels):\n"
        "      if not code.label_used(label):\n        continue\n"
        "      code.put_label(label)\n"
        "      code.putln('%s = %d;' % (Naming.parallel_why, i + 1))\n"
        "    if used:\n      code.put_label(dont)\n").body[0]
    fns = {f.name: f for f in pc.body}
    t = trap_trace(ctx, psn, fns['trap_parallel_exit'], KINDS, False, frozenset(('break', 'return')))
    bad = [k for k, ok, _ in seq_problems(t, frozenset(('break', 'return')), False, why, {'continue': 1, 'break': 2, 'return': 3, 'error': 4}) if not ok]
    r.positive_control(bad == ['seq:no-fallthrough:break', 'seq:no-fallthrough:return'][:len(bad)] and 'seq:no-fallthrough:break' in bad, 'label block without closing goto')
    return r


# ------------------------------------------------------------------------------------------------ C37-NODE
def _class_none_attrs(ctx, cls, names):
    """{name: None} for the attributes that the class family binds to the constant None at class level (else absent)."""
    out = {}
    for nm in names:
        a = ctx.index.find_class_attr(cls, nm)
        if a is not None and isinstance(a[1], ast.Constant) and a[1].value is None:
            out[nm] = None
    return out


def documented_range_signature(ctx):
    """(names of the positional range arguments of prange by arity) from the `.. function:: prange([start,] stop[, step]...` line of the user guide,
    or None when the documentation is not available / not in that shape."""
    try:
        txt = ctx.read('docs/src/userguide/parallelism.rst')
    except Exception:
        return None
    m = re.search(r'^\.\.\s+function::\s+prange\(\s*\[\s*(\w+)\s*,\s*\]\s*(\w+)\s*\[\s*,\s*(\w+)\s*\]', txt, re.M)
    if not m:
        return None
    a, b, c = m.groups()
    return {1: (b,), 2: (a, b), 3: (a, b, c)}


def range_args_table(ctx, prn, fn):
    """arity -> set of (start, stop, step) bindings (names of the positional arguments or None) over the normal paths of analyse_declarations."""
    out = {}
    for nargs in (1, 2, 3):
        args = tuple(Sym('A%d' % i) for i in range(nargs))
        attrs = {'args': args}
        attrs.update(_class_none_attrs(ctx, prn, ('start', 'stop', 'step')))
        m = Mini2(_label_oracle(ctx, frozenset(), KINDS, [0], prn), None, what='ParallelRangeNode.analyse_declarations')
        res = set()
        for st, flow, _ in _normal_paths(m.run(fn, State(attrs=attrs)), 'ParallelRangeNode.analyse_declarations'):
            if st.attrs.get('args') is not args:
                raise AnalysisError('ParallelRangeNode.analyse_declarations rebinds self.args')
            row = []
            for nm in ('start', 'stop', 'step'):
                v = st.attrs.get(nm, UNK)
                row.append(None if v is None else v.name if isinstance(v, Sym) else '?')
            res.add(tuple(row))
        out[nargs] = res
    return out


def is_parallel_table(ctx, mpa, fn):
    """Decision table of MarkParallelAssignments.visit_ParallelStatNode: (node kind, parent kind) -> facts per path."""
    rows = {}
    parents = {
        'none': (),
        'with-block': (dict(is_prange=False, is_parallel=True),),
        'prange': (dict(is_prange=True, is_parallel=True),),
        'prange-in-with': (dict(is_prange=False, is_parallel=True), dict(is_prange=True, is_parallel=False)),
    }
    for kind in ('prange', 'with-block'):
        for pname, chain in parents.items():
            stack = []
            for i, a in enumerate(chain):
                a = dict(a)
                a['parent'] = stack[-1] if stack else None
                stack.append(Sym('P%d' % i, a))
            node = Sym('node', dict(is_prange=(kind == 'prange'), else_clause=Sym('else') if kind == 'prange' else None, pos=Sym('pos')))
            visits = []

            def on_call(n, st, mini, args, kwargs, visits=visits, node=node):
                f = n.func
                if is_self_attr(f) and f.attr in ('visitchildren', 'visit', 'visitchild'):
                    stack_now = st.attrs.get('parallel_block_stack')
                    visits.append((f.attr, args[0] if args else None, kwargs.get('attrs', args[1] if len(args) > 1 else None),
                                   tuple(stack_now) if isinstance(stack_now, tuple) else None, id(st)))
                    st.trace.append(('visit', f.attr, args[0] if args else None, kwargs.get('attrs', args[1] if len(args) > 1 else None),
                                     tuple(stack_now) if isinstance(stack_now, tuple) else None))
                    return UNK
                return NotImplemented
            m = Mini2(None, on_call, what='MarkParallelAssignments.visit_ParallelStatNode')
            attrs = {'parallel_block_stack': tuple(stack), 'parallel_errors': False}
            facts = []
            for st, flow, val in _normal_paths(m.run(fn, State(attrs=attrs), {fn.args.args[1].arg: node}), 'visit_ParallelStatNode'):
                vis = [e for e in st.trace if e[0] == 'visit']
                facts.append(dict(is_parallel=Mini2.sym_get(st, node, 'is_parallel'), parent=Mini2.sym_get(st, node, 'parent'),
                                  want_parent=stack[-1] if stack else None, depth_after=len(st.attrs.get('parallel_block_stack', ())), depth_before=len(stack),
                                  visits=vis, node=node))
            rows[(kind, pname)] = facts
    return rows


def transfer_table(ctx, prt, fn, shared):
    """ParallelRangeTransform.visit_ForInStatNode in the world `the iterator is a prange call`: attribute -> value carried by the node that is returned."""
    vals = {a: Sym('for.' + a) for a in shared}
    prange = Sym('prange-node', {})
    it = Sym('iterator', {'sequence': prange})
    attrs = dict(vals)
    attrs['iterator'] = it
    node = Sym('for-node', attrs)

    def oracle(n, st, mini):
        if isinstance(n, ast.Call) and isinstance(n.func, ast.Name) and n.func.id == 'isinstance' and len(n.args) == 2:
            v = mini.ev(n.args[0], st)
            cls = ast.unparse(n.args[1])
            if isinstance(v, Sym):
                if cls.endswith('ParallelRangeNode'):
                    return v is prange
                if cls.endswith('NameNode'):
                    return True
            return UNK
        return NotImplemented
    m = Mini2(oracle, lambda n, st, mini, a, k: NotImplemented, what='ParallelRangeTransform.visit_ForInStatNode')
    out = []
    for st, flow, val in _normal_paths(m.run(fn, State(attrs={'state': None}), {fn.args.args[1].arg: node}), 'visit_ForInStatNode'):
        if flow != 'return':
            raise AnalysisError('ParallelRangeTransform.visit_ForInStatNode: a path ends without returning a node')
        row = {}
        for a in shared:
            got = Mini2.sym_get(st, val, a) if isinstance(val, Sym) else UNK
            row[a] = got
        out.append((val, row, vals))
    return out, prange


def threadstate_table(ctx, psn, fn):
    """end_parallel_block: (error_label_used, acquire_gil) -> per path the set of GIL bracket calls made."""
    rows = {}
    for err in (False, True):
        for gil in (False, True):
            m = Mini2(_label_oracle(ctx, frozenset(), KINDS, [0]), _recorder, what='end_parallel_block')
            attrs = {'error_label_used': err, 'acquire_gil': gil, 'is_parallel': True, 'is_nested_prange': False, 'temps': ()}
            res = []
            for st, _, _ in _normal_paths(m.run(fn, State(attrs=attrs)), 'end_parallel_block'):
                res.append({e[1] for e in st.trace if e[0] == 'call'})
            rows[(err, gil)] = res
    return rows


def return_table(ctx):
    """(visit_ReturnStatNode: stack empty/non-empty -> in_parallel) and (ReturnStatNode.generate_execution_code: in_parallel x refcounted -> is the
    store into the return value emitted inside an `omp critical` section)."""
    ix = ctx.index
    naming = pC37.naming_values(ctx)
    mpa = ix.cls('TypeInference', 'MarkParallelAssignments')
    _, vfn = pC37.method(ix, mpa, 'visit_ReturnStatNode')
    marks = {}
    for depth in (0, 1):
        node = Sym('ret', {})
        m = Mini2(None, None, what='visit_ReturnStatNode')
        vals = set()
        for st, _, _ in _normal_paths(m.run(vfn, State(attrs={'parallel_block_stack': tuple(Sym('S%d' % i) for i in range(depth))}), {vfn.args.args[1].arg: node}),
                                      'visit_ReturnStatNode'):
            v = Mini2.sym_get(st, node, 'in_parallel')
            vals.add(v if isinstance(v, bool) else '?')
        marks[depth] = vals
    rsn = ix.cls('Nodes', 'ReturnStatNode')
    _, gfn = pC37.method(ix, rsn, 'generate_execution_code')
    retval = naming.get('retval_cname')
    if not retval:
        raise AnalysisError('Naming.retval_cname not found')
    crit = {}
    for in_par in (False, True):
        for refc in (False, True):
            for has_value in (False, True):
                rtype = Sym('rtype', dict(needs_refcounting=refc, is_memoryviewslice=False, is_pyobject=refc, is_returncode=False, is_void=False))
                value = Sym('value', dict(is_none=False)) if has_value else None
                gil = Sym('funcstate', dict(gil_owned=refc))
                code = Sym('code', dict(funcstate=gil))
                m = Mini2(_label_oracle(ctx, frozenset(), KINDS, [0]), _recorder, what='ReturnStatNode.generate_execution_code')
                attrs = {'in_parallel': in_par, 'return_type': rtype, 'value': value, 'in_generator': False, 'in_async_gen': False}
                oks = []
                for st, _, _ in _normal_paths(m.run(gfn, State(attrs=attrs), {gfn.args.args[1].arg: code}), 'ReturnStatNode.generate_execution_code'):
                    open_crit, stored_inside, stored = False, None, False
                    depth = None
                    braces = 0
                    for e in st.trace:
                        if e[0] == 'emit' and e[2] is not None:
                            if re.search(r'#pragma\s+omp\s+critical', e[2]):
                                open_crit, depth = True, None
                            elif open_crit and depth is None and '{' in e[2]:
                                depth = braces
                            if re.search(r'\b' + re.escape(retval) + r'\s*=(?!=)', e[2]):
                                stored = True
                                inside = open_crit and depth is not None and braces > depth
                                stored_inside = inside if stored_inside is None else (stored_inside and inside)
                            braces += e[2].count('{') - e[2].count('}')
                            if open_crit and depth is not None and braces <= depth:
                                open_crit = False
                        elif e[0] == 'call' and e[1] == 'put_init_to_py_none':
                            stored = True
                            inside = open_crit and depth is not None and braces > depth
                            stored_inside = inside if stored_inside is None else (stored_inside and inside)
                    oks.append((stored, stored_inside))
                crit[(in_par, refc, has_value)] = oks
    return marks, crit, vfn, gfn


def rule_node(ctx):
    ix = ctx.index
    r = Rule('C37-NODE', 'decision tables of the prange set-up: positional arguments -> start/stop/step as range() does; a prange inside `with parallel()` joins the enclosing '
             'team (is_parallel False) and its body is visited while it is on the block stack; the node that replaces the for-loop receives target, body and else clause; '
             'worker threads keep a thread state for the whole region whenever an exception can be saved; a return inside a region stores the return value inside '
             'an omp critical section', floor=24)
    prn = ix.cls('Nodes', 'ParallelRangeNode')
    psn = ix.cls('Nodes', 'ParallelStatNode')
    rel = prn.module.rel
    # ---- (a) range arguments
    _, adfn = pC37.method(ix, prn, 'analyse_declarations')
    doc = documented_range_signature(ctx)
    if doc is None:
        r.info('docs/src/userguide/parallelism.rst does not give `prange([start,] stop[, step]...)`; the range() convention of Python is used as reference')
        doc = {1: ('stop',), 2: ('start', 'stop'), 3: ('start', 'stop', 'step')}
    tab = range_args_table(ctx, prn, adfn)
    for nargs in (1, 2, 3):
        want = tuple(('A%d' % doc[nargs].index(nm)) if nm in doc[nargs] else None for nm in ('start', 'stop', 'step'))
        key = 'node:range-args:%d' % nargs
        r.inst(key, sample='prange with %d positional argument(s): (start, stop, step) = %s' % (nargs, sorted(tab[nargs], key=repr)))
        for got in sorted(tab[nargs], key=repr):
            if got != want:
                r.violate(key, rel, adfn.lineno,
                          'ParallelRangeNode.analyse_declarations binds the %d positional argument(s) of prange as (start, stop, step) = %s; prange(%s) is documented (and emulated by '
                          'Shadow.py) like range(): %s - the compiled loop runs over a different index set than the sequential loop' % (
                              nargs, got, ', '.join(doc[nargs]), want))
    # ---- (b) is_parallel / visits
    mpa = ix.cls('TypeInference', 'MarkParallelAssignments')
    _, vfn = pC37.method(ix, mpa, 'visit_ParallelStatNode')
    trel = mpa.module.rel
    for (kind, pname), facts in sorted(is_parallel_table(ctx, mpa, vfn).items()):
        key = 'node:is-parallel:%s:in:%s' % (kind, pname)
        r.inst(key, sample='%s inside %s: is_parallel %s' % (kind, pname, sorted({repr(f['is_parallel']) for f in facts})))
        for f in facts:
            ip = f['is_parallel']
            if kind == 'with-block':
                want = True
            elif pname == 'none':
                want = True
            elif pname == 'with-block':
                want = False
            else:
                want = None       # nested prange: the inner pragma is compiled out, either value gives the same program
            if want is not None and ip is not want:
                r.violate(key, trel, vfn.lineno,
                          'MarkParallelAssignments.visit_ParallelStatNode gives a %s whose parent is %s is_parallel=%r (must be %r): %s' % (
                              kind, pname, ip, want,
                              'generate_loop then opens a second `#pragma omp parallel` inside the enclosing team - every outer thread runs the whole loop and reductions are '
                              'applied once per outer thread' if want is False else
                              'the construct does not open its own parallel region and its temporaries / exit variables are not privatised'))
                break
            if f['parent'] is not f['want_parent']:
                r.violate(key + ':parent', trel, vfn.lineno, 'visit_ParallelStatNode sets node.parent to %r instead of the innermost enclosing parallel node %r' % (f['parent'], f['want_parent']))
                break
        if kind == 'prange':
            key = 'node:body-visited:in:%s' % pname
            r.inst(key, sample='prange inside %s: children visited while on the stack: %s' % (
                pname, sorted({repr(v[3]) for f in facts for v in f['visits'] if v[4] and v[4][-1] is f['node']})))
            for f in facts:
                covered = set()
                for v in f['visits']:
                    if v[1] == 'visitchildren' and v[2] is f['node'] and v[4] and v[4][-1] is f['node']:
                        if v[3] is None or v[3] is UNK:
                            covered |= {'body', 'target'} if v[3] is None else set()
                        elif isinstance(v[3], tuple):
                            covered |= {x for x in v[3] if isinstance(x, str)}
                if 'body' not in covered:
                    r.violate(key, trel, vfn.lineno,
                              'MarkParallelAssignments.visit_ParallelStatNode does not visit the body of a prange while the node is on parallel_block_stack (attributes visited: %s): '
                              'assignments in the loop body are not recorded, nothing is privatised and no reduction is recognised' % sorted(covered))
                    break
    # ---- (c) transfer of the for-loop parts
    prt = ix.cls('ParseTreeTransforms', 'ParallelRangeTransform')
    _, tfn = pC37.method(ix, prt, 'visit_ForInStatNode')
    forin = ix.cls('Nodes', 'ForInStatNode')
    ca_for, ca_prn = ix.class_list_attr(forin, 'child_attrs'), ix.class_list_attr(prn, 'child_attrs')
    if not ca_for or not ca_prn or ca_for[1] is None or ca_prn[1] is None:
        raise AnalysisError('child_attrs of ForInStatNode / ParallelRangeNode are not literal lists')
    shared = [a for a in ca_for[1] if a in ca_prn[1]]
    if len(shared) < 2:
        raise AnalysisError('ForInStatNode and ParallelRangeNode share only the child attributes %s' % shared)
    rows, prange = transfer_table(ctx, prt, tfn, shared)
    for a in shared:
        key = 'node:transfer:' + a
        r.inst(key, sample='for-loop child `%s` carried over to the ParallelRangeNode' % a)
        for val, row, vals in rows:
            if val is not prange:
                raise AnalysisError('ParallelRangeTransform.visit_ForInStatNode does not return the ParallelRangeNode for a prange loop')
            if row[a] is not vals[a]:
                r.violate(key, prt.module.rel, tfn.lineno,
                          'ParallelRangeTransform.visit_ForInStatNode replaces the for-loop by the ParallelRangeNode without copying its `%s` (found %r): %s' % (
                              a, row[a], 'the else clause of a prange loop is never executed' if a == 'else_clause' else 'the loop loses its %s' % a))
                break
    # ---- (d) thread state bracket
    _, efn = pC37.method(ix, psn, 'end_parallel_block')
    for (err, gil), res in sorted(threadstate_table(ctx, psn, efn).items()):
        key = 'node:threadstate:error=%s:gil=%s' % (err, gil)
        r.inst(key, sample='end_parallel_block(error_label_used=%s, acquire_gil=%s): %s' % (err, gil, [sorted(x & {'put_ensure_gil', 'put_release_ensured_gil'}) for x in res]))
        if err or gil:
            for calls in res:
                if not {'put_ensure_gil', 'put_release_ensured_gil'} <= calls:
                    r.violate(key, rel, efn.lineno,
                              'ParallelStatNode.end_parallel_block does not bracket the parallel block with put_ensure_gil / put_release_ensured_gil when %s: each `with gil` '
                              'section inside the region then creates and destroys its own thread state, and the exception it raised is destroyed with it before '
                              'fetch_parallel_exception can save it (the error exit re-raises nothing: SystemError / lost exception)'
                              % ('the body can raise (error_label_used)' if err else 'the loop holds the GIL'))
                    break
    # ---- (e) return inside a region
    marks, crit, rvfn, rgfn = return_table(ctx)
    r.inst('node:return:marked', sample='visit_ReturnStatNode: in_parallel for stack depth 0/1 = %s / %s' % (sorted(marks[0], key=repr), sorted(marks[1], key=repr)))
    if marks[1] != {True}:
        r.violate('node:return:marked', trel, rvfn.lineno, 'MarkParallelAssignments.visit_ReturnStatNode leaves in_parallel = %s for a return statement inside a parallel region: the return '
                  'value is then assigned without the omp critical section - two threads that return at the same time both release the previous value (double free) '
                  'or tear the value' % sorted(marks[1], key=repr))
    for (in_par, refc, has_value), oks in sorted(crit.items()):
        if not in_par:
            continue
        key = 'node:return:critical:refcounted=%s:value=%s' % (refc, has_value)
        r.inst(key, sample='return in a region (refcounted=%s, value=%s): return value stored inside critical section on every path: %s' % (refc, has_value, oks))
        for stored, inside in oks:
            if stored and not inside:
                r.violate(key, rel, rgfn.lineno, 'ReturnStatNode.generate_execution_code stores the return value of a `return` inside a parallel region outside an `omp critical` block: '
                          'concurrent returns race on the shared return slot (an object value is released twice)')
                break
    # positive control: the range table of a swapped unpacking
    pc = ast.parse("class P:\n  def analyse_declarations(self, env):\n    if len(self.args) == 1:\n      self.stop, = self.args\n    elif len(self.args) == 2:\n"
                   "      self.stop, self.start = self.args\n    else:\n      self.start, self.stop, self.step = self.args\n").body[0].body[0]
    t = range_args_table(ctx, prn, pc)
    r.positive_control(t[2] == {('A1', 'A0', None)} and t[1] == {(None, 'A0', None)}, 'start/stop exchanged for two arguments')
    return r


# ------------------------------------------------------------------------------------------------ C37-FLOW
INPLACE_OPS = ('+', '-', '*', '&', '|', '^', '/', '//', '%', '<<', '>>', '**', '@')


def clause_table(ctx, prn, fn=None, ops=None):
    """generate_loop interpreted per (is_parallel, entry is the loop target?, in-place operator, Python object?) ->
    dict(reduction={(op, cname)}, lastprivate={cname}, firstprivate={cname}) (union over the paths of the world, which must agree)."""
    ix = ctx.index
    if fn is None:
        _, fn = pC37.method(ix, prn, 'generate_loop')

    def build():
        table = {}
        for is_parallel in (True, False):
            for which in ('target', 'var'):
                for op in ((None,) + INPLACE_OPS if ops is None else ops):
                    for pyobj in (False,):
                        tentry = Sym('target-entry', {'cname': 'T', 'type': Sym('ttype', {'is_pyobject': pyobj if which == 'target' else False})})
                        ventry = Sym('var-entry', {'cname': 'E', 'type': Sym('vtype', {'is_pyobject': pyobj})})
                        entry = tentry if which == 'target' else ventry
                        items = ((entry, op),)
                        base = _label_oracle(ctx, frozenset(), KINDS, [0], prn)

                        def oracle(n, st, mini, items=items, base=base):
                            if isinstance(n, ast.Call):
                                f = n.func
                                if isinstance(f, ast.Attribute) and f.attr == 'items' and is_self_attr(f.value) and f.value.attr == 'privates' and not n.args:
                                    return items
                                if isinstance(f, ast.Name) and f.id in ('sorted', 'list', 'tuple') and len(n.args) == 1 and not n.keywords:
                                    v = mini.ev(n.args[0], st)
                                    return v if isinstance(v, tuple) else UNK
                            return base(n, st, mini)
                        attrs = dict(is_parallel=is_parallel, is_nested_prange=False, acquire_gil=False, schedule=None, chunksize=None, threading_condition=None,
                                     num_threads=None, breaking_label_used=False, target=Sym('target', {'entry': tentry}),
                                     parent=Sym('parent', {'privatization_insertion_point': Sym('ip')}))
                        m = Mini(oracle, _recorder, what='ParallelRangeNode.generate_loop')
                        rows = []
                        for st, _, _ in _normal_paths(m.run(fn, State(attrs=attrs)), 'ParallelRangeNode.generate_loop'):
                            red, last, first = set(), set(), set()
                            for e in st.trace:
                                if e[0] == 'emit' and e[2] is not None:
                                    red |= set(re.findall(r'\breduction\s*\(\s*([^:\s()]+)\s*:\s*(\w+)\s*\)', e[2]))
                                    last |= set(re.findall(r'\blastprivate\s*\(\s*(\w+)\s*\)', e[2]))
                                    first |= set(re.findall(r'\bfirstprivate\s*\(\s*(\w+)\s*\)', e[2]))
                            row = dict(reduction=frozenset(red), lastprivate=frozenset(last), firstprivate=frozenset(first))
                            if row not in rows:
                                rows.append(row)
                        if len(rows) != 1:
                            raise AnalysisError('ParallelRangeNode.generate_loop: the sharing clauses differ between paths of one world (%d variants)' % len(rows))
                        table[(is_parallel, which, op, pyobj)] = rows[0]
        return table
    return ctx.memo(('sC37.clauses', id(fn), ops), build)


def reduction_ops(ctx, prn):
    """In-place operators that generate_loop turns into a reduction clause for an ordinary C variable."""
    t = clause_table(ctx, prn)
    return sorted({op for (par, which, op, pyobj), row in t.items() if which == 'var' and not pyobj and op is not None and any(c == 'E' for _, c in row['reduction'])})


def _bind_call(call, callee):
    """parameter name -> argument node for a call of a method (self excluded); None when the call shape is not plain."""
    a = callee.args
    if a.vararg or a.kwarg or any(isinstance(x, ast.Starred) for x in call.args) or any(k.arg is None for k in call.keywords):
        return None
    params = [x.arg for x in a.posonlyargs + a.args][1:]
    if len(call.args) > len(params):
        return None
    bound = dict(zip(params, call.args))
    for k in call.keywords:
        bound[k.arg] = k.value
    return bound


def _pattern_paths(t, path=()):
    if isinstance(t, ast.Name):
        yield t.id, path
    elif isinstance(t, (ast.Tuple, ast.List)):
        for i, e in enumerate(t.elts):
            yield from _pattern_paths(e, path + (i,))


FLOW_HOPS = ('flow:privates-store', 'flow:sharing-args', 'flow:propagate-recursion', 'flow:assignments-slot', 'flow:inplace-op', 'flow:sharing-called',
             'flow:target-registered')


def _through_locals(fn, e, stop, depth=0):
    """Follow a name through single plain / pairwise tuple assignments of fn (`pos, op = where, operator`) until it is one of the names in `stop`."""
    while isinstance(e, ast.Name) and e.id not in stop and depth < 4:
        defs = []
        for n in walk_no_nested(fn):
            if isinstance(n, ast.Assign) and len(n.targets) == 1:
                t, v = n.targets[0], n.value
                if isinstance(t, ast.Name) and t.id == e.id:
                    defs.append(v)
                elif isinstance(t, (ast.Tuple, ast.List)) and isinstance(v, (ast.Tuple, ast.List)) and len(t.elts) == len(v.elts):
                    for a, b in zip(t.elts, v.elts):
                        if isinstance(a, ast.Name) and a.id == e.id:
                            defs.append(b)
                elif any(isinstance(x, ast.Name) and x.id == e.id for x in ast.walk(t)):
                    defs.append(None)
        if len(defs) != 1 or defs[0] is None:
            return e
        e = defs[0]
        depth += 1
    return e


def flow_chain(ctx):
    """The reduction operator's way from the in-place assignment to the sharing clause, hop by hop -> [(key, ok, sample, message, rel, line)]."""
    ix = ctx.index
    psn = ix.cls('Nodes', 'ParallelStatNode')
    prn = ix.cls('Nodes', 'ParallelRangeNode')
    mpa = ix.cls('TypeInference', 'MarkParallelAssignments')
    nrel, trel = psn.module.rel, mpa.module.rel
    out = []
    # reader side: analyse_sharing_attributes -> propagate_var_privatization
    _, afn = pC37.method(ix, psn, 'analyse_sharing_attributes')
    _, pfn = pC37.method(ix, psn, 'propagate_var_privatization')
    loops = [n for n in walk_no_nested(afn) if isinstance(n, ast.For) and isinstance(n.iter, ast.Call) and isinstance(n.iter.func, ast.Attribute)
             and n.iter.func.attr == 'items' and is_self_attr(n.iter.func.value) and n.iter.func.value.attr == 'assignments']
    if len(loops) != 1:
        raise AnalysisError('ParallelStatNode.analyse_sharing_attributes: expected one loop over self.assignments.items(), found %d' % len(loops))
    paths = dict(_pattern_paths(loops[0].target))
    calls = [c for c in ast.walk(loops[0]) if pC37.self_call(c, ('propagate_var_privatization',))]
    if not calls:
        raise AnalysisError('ParallelStatNode.analyse_sharing_attributes no longer calls propagate_var_privatization inside the loop')
    pparams = [x.arg for x in pfn.args.args][1:]
    stores = [n for n in walk_no_nested(pfn) if isinstance(n, ast.Assign) and len(n.targets) == 1 and isinstance(n.targets[0], ast.Subscript)
              and is_self_attr(n.targets[0].value) and n.targets[0].value.attr == 'privates']
    if not stores:
        raise AnalysisError('ParallelStatNode.propagate_var_privatization no longer stores into self.privates')
    bad = [s for s in stores if not (isinstance(s.value, ast.Name) and s.value.id in pparams and isinstance(s.targets[0].slice, ast.Name) and s.targets[0].slice.id in pparams)]
    out.append(('flow:privates-store', not bad, 'self.privates[%s] = %s' % (ast.unparse(stores[0].targets[0].slice), ast.unparse(stores[0].value)),
                'ParallelStatNode.propagate_var_privatization stores `%s` into self.privates instead of the operator it was called with: the in-place operator recorded for a variable '
                'is lost, generate_loop declares the variable lastprivate instead of reduction(op:var) and a sum/product computed in a prange is wrong for more than one thread'
                % ast.unparse((bad or stores)[0]), nrel, (bad or stores)[0].lineno))
    if bad:
        return out, None
    p_key, p_op = stores[0].targets[0].slice.id, stores[0].value.id
    slot = None
    for c in calls:
        b = _bind_call(c, pfn)
        if b is None:
            raise AnalysisError('analyse_sharing_attributes: call of propagate_var_privatization has no plain argument list')
        ka, oa = _through_locals(afn, b.get(p_key), paths), _through_locals(afn, b.get(p_op), paths)
        kpath = paths.get(ka.id) if isinstance(ka, ast.Name) else None
        opath = paths.get(oa.id) if isinstance(oa, ast.Name) else None
        ok = kpath == (0,) and opath is not None and len(opath) == 2 and opath[0] == 1
        out.append(('flow:sharing-args', ok, 'propagate_var_privatization(%s=%s, %s=%s) over `for %s in self.assignments.items()`' % (
            p_key, ast.unparse(ka) if ka is not None else None, p_op, ast.unparse(oa) if oa is not None else None, ast.unparse(loops[0].target)),
                    'ParallelStatNode.analyse_sharing_attributes passes `%s` as `%s` and `%s` as `%s` of propagate_var_privatization; the first must be the dictionary key (the entry) and '
                    'the second a member of the recorded (position, operator) value: otherwise the privates table is keyed or filled with the wrong object and no reduction is recognised'
                    % (ast.unparse(ka) if ka is not None else None, p_key, ast.unparse(oa) if oa is not None else None, p_op), nrel, c.lineno))
        if ok:
            slot = opath[1] if slot in (None, opath[1]) else -1
    if slot is None or slot < 0:
        return out, None
    # recursion towards the enclosing pranges keeps the operator
    for c in [c for c in walk_no_nested(pfn) if isinstance(c, ast.Call) and isinstance(c.func, ast.Attribute) and c.func.attr == 'propagate_var_privatization']:
        b = _bind_call(c, pfn)
        ok = b is not None and isinstance(b.get(p_op), ast.Name) and b[p_op].id == p_op and isinstance(b.get(p_key), ast.Name) and b[p_key].id == p_key
        out.append(('flow:propagate-recursion', ok, 'recursive call %s' % node_src(c, 70),
                    'ParallelStatNode.propagate_var_privatization hands the variable on to the enclosing parallel construct with `%s` instead of its own (entry, operator): in nested '
                    'pranges the sharing clauses sit on the outer `#pragma omp parallel for`, which then declares the reduction variable lastprivate - wrong sums' % node_src(c, 70),
                    nrel, c.lineno))
    # writer side: mark_assignment stores (pos, op) ; visit_InPlaceAssignmentNode passes node.operator
    _, mfn = pC37.method(ix, mpa, 'mark_assignment')
    mparams = [x.arg for x in mfn.args.args][1:]
    mstores = [n for n in walk_no_nested(mfn) if isinstance(n, ast.Assign) and len(n.targets) == 1 and isinstance(n.targets[0], ast.Subscript)
               and isinstance(n.targets[0].value, ast.Attribute) and n.targets[0].value.attr == 'assignments']
    if not mstores:
        raise AnalysisError('MarkParallelAssignments.mark_assignment no longer stores into <parallel node>.assignments')
    m_op = None
    for s in mstores:
        v = s.value
        cand = [i for i, e in enumerate(v.elts) if isinstance(e, ast.Name) and e.id in mparams] if isinstance(v, ast.Tuple) else []
        ok = len(cand) == 1
        out.append(('flow:assignments-slot', ok, 'mark_assignment: assignments[...] = %s (operator slot %s)' % (node_src(v, 50), cand),
                    'MarkParallelAssignments.mark_assignment records `%s` for an assigned variable: no member of the recorded value is the in-place operator parameter of '
                    'mark_assignment, so no assignment is ever recognised as a reduction (sum += x in a prange loses updates)' % node_src(v, 50), trel, s.lineno))
        if ok:
            if cand[0] != slot:
                out.append(('flow:sharing-args', False, '',
                            'MarkParallelAssignments.mark_assignment stores the in-place operator at position %d of the value recorded in <node>.assignments, but '
                            'ParallelStatNode.analyse_sharing_attributes passes position %d of that value as `%s` (the operator) to propagate_var_privatization: the '
                            '"operator" tested by generate_loop is the source position, no reduction clause is emitted and sums computed in a prange are wrong'
                            % (cand[0], slot, p_op), nrel, calls[0].lineno))
                return out, slot
            m_op = v.elts[slot].id
    if m_op is None:
        return out, slot
    hits = 0
    for name, fn in mpa.methods.items():
        if 'InPlace' not in name:
            continue
        nodep = fn.args.args[1].arg if len(fn.args.args) > 1 else None
        for c in walk_no_nested(fn):
            if pC37.self_call(c, ('mark_assignment',)):
                hits += 1
                b = _bind_call(c, mfn)
                a = b.get(m_op) if b else None
                ok = isinstance(a, ast.Attribute) and a.attr == 'operator' and isinstance(a.value, ast.Name) and a.value.id == nodep
                out.append(('flow:inplace-op', ok, '%s: mark_assignment(..., %s=%s)' % (name, m_op, ast.unparse(a) if a is not None else '<default>'),
                            'MarkParallelAssignments.%s calls mark_assignment with %s=%s instead of the operator of the in-place assignment: `s += x` in a prange is recorded as a '
                            'plain assignment, s becomes lastprivate instead of reduction(+:s) and the result is wrong for more than one thread'
                            % (name, m_op, ast.unparse(a) if a is not None else 'its default'), trel, c.lineno))
    if not hits:
        raise AnalysisError('MarkParallelAssignments has no visit_InPlaceAssignmentNode calling mark_assignment')
    # the loop target is registered as assigned (without operator) before the sharing analysis runs
    _, efn = pC37.method(ix, prn, 'analyse_expressions')
    sup = [c for c in walk_no_nested(efn) if isinstance(c, ast.Call) and isinstance(c.func, ast.Attribute) and c.func.attr == 'analyse_expressions'
           and isinstance(c.func.value, ast.Call) and isinstance(c.func.value.func, ast.Name) and c.func.value.func.id == 'super']
    if len(sup) != 1:
        raise AnalysisError('ParallelRangeNode.analyse_expressions: expected one super().analyse_expressions() call')
    _, base_fn = pC37.method(ix, psn, 'analyse_expressions')
    if not any(pC37.self_call(c, ('analyse_sharing_attributes',)) for c in walk_no_nested(base_fn)):
        out.append(('flow:sharing-called', False, '', 'ParallelStatNode.analyse_expressions no longer calls analyse_sharing_attributes: no variable is privatised', nrel, base_fn.lineno))
    else:
        out.append(('flow:sharing-called', True, 'ParallelStatNode.analyse_expressions -> analyse_sharing_attributes', '', nrel, base_fn.lineno))
    regs = []
    for n in walk_no_nested(efn):
        if isinstance(n, ast.Assign) and len(n.targets) == 1 and isinstance(n.targets[0], ast.Subscript) and is_self_attr(n.targets[0].value) \
                and n.targets[0].value.attr == 'assignments' and 'target' in ast.unparse(n.targets[0].slice):
            regs.append(n)

    def top_index(node):
        for i, s in enumerate(efn.body):
            if any(x is node for x in ast.walk(s)):
                return (i, node.lineno)
        return (10 ** 6, 0)
    good = [n for n in regs if isinstance(n.value, ast.Tuple) and len(n.value.elts) > slot and isinstance(n.value.elts[slot], ast.Constant) and n.value.elts[slot].value is None
            and top_index(n) < top_index(sup[0])
            and all('target' in ast.unparse(t) for t, _ in path_conditions(efn, n))]
    out.append(('flow:target-registered', bool(good), 'self.assignments[<target entry>] = %s before super().analyse_expressions()' % (node_src(regs[0].value, 40) if regs else None),
                'ParallelRangeNode.analyse_expressions does not register the loop variable in self.assignments (with no operator) before the sharing attributes are analysed: '
                'the index variable gets no lastprivate clause, is shared between the threads and does not end at the last index', nrel, (regs[0] if regs else efn).lineno))
    return out, slot


def rule_flow(ctx):
    ix = ctx.index
    r = Rule('C37-FLOW', 'privatisation: the in-place operator of an assignment inside a prange reaches the sharing clause unchanged (visit_InPlaceAssignmentNode -> mark_assignment '
             '-> assignments -> analyse_sharing_attributes -> propagate_var_privatization -> privates -> generate_loop), the loop variable is registered as assigned, and '
             'generate_loop emits lastprivate(var) for assigned variables / the loop variable and reduction(op:var) for the OpenMP-reducible operators', floor=22)
    prn = ix.cls('Nodes', 'ParallelRangeNode')
    rel = prn.module.rel
    _, gfn = pC37.method(ix, prn, 'generate_loop')
    rows, slot = flow_chain(ctx)
    seen = set()
    for key, ok, sample, msg, frel, line in rows:
        if key not in seen or ok:
            r.inst(key, sample='%s: %s' % (key, sample))
        seen.add(key)
        if not ok:
            r.violate(key, frel, line, msg)
    for key in FLOW_HOPS:
        if key not in seen:
            r.inst(key, sample='%s: not evaluated, an earlier hop of the chain is broken' % key, nontrivial=False)
    t = clause_table(ctx, prn)
    for par in (True, False):
        pn = 'parallel-for' if par else 'for-in-team'
        row = t[(par, 'target', None, False)]
        r.inst('flow:clause:lastprivate:target:' + pn, sample='loop variable: %s' % dict(row))
        if 'T' not in row['lastprivate']:
            r.violate('flow:clause:lastprivate:target', rel, gfn.lineno,
                      'ParallelRangeNode.generate_loop emits no lastprivate(<loop variable>) clause (clauses for it: %s): with OpenMP the index variable keeps its value from before '
                      'the loop instead of ending at the last index' % {k: sorted(v) for k, v in row.items() if v})
        row = t[(par, 'var', None, False)]
        r.inst('flow:clause:lastprivate:var:' + pn, sample='assigned variable: %s' % dict(row))
        if 'E' not in row['lastprivate']:
            r.violate('flow:clause:lastprivate:var', rel, gfn.lineno,
                      'ParallelRangeNode.generate_loop emits no lastprivate(<var>) clause for a C variable assigned in the loop body (clauses: %s): the variable is shared between '
                      'the threads (data race) or does not carry the value of the last iteration out of the loop' % {k: sorted(v) for k, v in row.items() if v})
        row = t[(par, 'target', '+', False)]
        r.inst('flow:clause:target-no-reduction:' + pn, sample='loop variable with in-place operator: %s' % dict(row))
        if any(c == 'T' for _, c in row['reduction']) or 'T' not in row['lastprivate']:
            r.violate('flow:clause:target-no-reduction', rel, gfn.lineno, 'ParallelRangeNode.generate_loop declares the loop variable itself a reduction: the index formula assigns it '
                      'in every iteration, its final value is the combination of per-thread garbage instead of the last index')
        for op in sorted(pC37.SEQUENTIAL_SAFE):
            row = t[(par, 'var', op, False)]
            key = 'flow:clause:reduction:%s' % op
            r.inst(key + ':' + pn, sample='`var %s= ...`: %s' % (op, dict(row)))
            if (op, 'E') not in row['reduction']:
                r.violate(key, rel, gfn.lineno,
                          'ParallelRangeNode.generate_loop does not emit reduction(%s:<var>) for a C variable updated with `%s=` in the loop body (clauses: %s): the per-thread partial '
                          'results are not combined, the result of the loop differs from the sequential loop for more than one thread' % (
                              op, op, {k: sorted(v) for k, v in row.items() if v}))
    # positive control: a generator that treats only the loop variable as reduction
    pc = ast.parse("class P:\n  def generate_loop(self, code, fmt_dict):\n    for entry, op in sorted(self.privates.items()):\n"
                   "      if op and op in '+*' and entry == self.target.entry:\n        code.put(' reduction(%s:%s)' % (op, entry.cname))\n"
                   "      else:\n        code.put(' lastprivate(%s)' % entry.cname)\n").body[0].body[0]
    t2 = clause_table(ctx, prn, pc, ops=(None, '+'))
    r.positive_control(('+', 'E') not in t2[(True, 'var', '+', False)]['reduction'] and ('+', 'T') in t2[(True, 'target', '+', False)]['reduction'], 'reduction clause only for the loop variable')
    return r
