"""C04-BARRIER: the overflow fold never passes through a node whose C operator traps on a wrapped operand.

ConsolidateOverflowCheck lets the checked operations nested in one arithmetic expression write to ONE overflow bit that is tested after
the outermost operation.  That is sound only while every operation between the overflowing sub-expression and the test merely computes
garbage from a wrapped operand.  C `/` and `%` are different: the operator itself traps (SIGFPE) when the divisor wrapped to 0 (and the
node's own zero test raises ZeroDivisionError from the wrapped value) — before the shared bit is looked at.  "never wraps, never
crashes" therefore needs: whichever handler of ConsolidateOverflowCheck runs for a node class that ExprNodes.binop_node_classes builds for
a trapping operator visits that node's operands only with self.overflow_bit_node cleared — on EVERY path, whatever the node's flags
(zerodivision_check, cdivision ...) say, because those flags only remove the *test*, not the C division.

Technique: visitor dispatch is resolved through the class index; a handler is classified as barrier / pass-through by the flow analysis
of props/C04 (`_fold_analyse`, value of self.overflow_bit_node at every child visit) after *summary substitution*: a delegation
`self.visit_X(node)` / `super().visit_X(node)` is replaced by a child visit when the resolved callee is pass-through and dropped when it
is a barrier (recursively).  Branch tests that are decided by the premise "C integer result" (node.type.is_int ...) are folded first."""
import ast, copy

from ..core import Rule, AnalysisError, node_src
from . import pC02 as P2
from . import pC04 as P4

RID = 'C04-BARRIER'
TRAPPING_OPS = ('/', '//', '%')      # spelled with the C operators / and %: undefined behaviour (SIGFPE on x86) for a zero divisor
COC = ('Optimize', 'ConsolidateOverflowCheck')
MAX_DEPTH = 6


def _delegation(call, selfname, nodename):
    """('self'|'super', handler name) if call is self.visit_X(node) / super().visit_X(node) / super(C, self).visit_X(node)"""
    f = call.func
    if not (isinstance(f, ast.Attribute) and f.attr.startswith('visit_')):
        return None
    if not (call.args and isinstance(call.args[0], ast.Name) and call.args[0].id == nodename):
        return None
    if isinstance(f.value, ast.Name) and f.value.id == selfname:
        return 'self', f.attr
    if isinstance(f.value, ast.Call) and isinstance(f.value.func, ast.Name) and f.value.func.id == 'super':
        return 'super', f.attr
    return None


def _resolve(ix, coc, owner, kind, name):
    if kind == 'self':
        return ix.find_method(coc, name)
    mro = ix.mro(owner)
    for k in mro[mro.index(owner) + 1:] if owner in mro else []:
        if name in k.methods:
            return k, k.methods[name]
    return None


class _Summarise(ast.NodeTransformer):
    def __init__(self, classify, selfname, nodename, premise):
        self.classify, self.selfname, self.nodename, self.premise = classify, selfname, nodename, premise

    def visit_If(self, node):
        try:
            v = bool(P2.Ev(subst=self.premise).ev(node.test))
        except P2.Unknown:
            self.generic_visit(node)
            return node
        out = []
        for s in (node.body if v else node.orelse):
            r = self.visit(s)
            if isinstance(r, list):
                out.extend(r)
            elif r is not None:
                out.append(r)
        return out or [ast.copy_location(ast.Pass(), node)]

    def visit_Call(self, node):
        self.generic_visit(node)
        d = _delegation(node, self.selfname, self.nodename)
        if d is None:
            if isinstance(node.func, ast.Attribute) and node.func.attr.startswith('visit_') and \
                    any(isinstance(a, ast.Name) and a.id == self.nodename for a in node.args):
                raise AnalysisError('%s: delegation %s has a shape the barrier analysis does not resolve' % (RID, node_src(node, 80)))
            return node
        passes = self.classify(d)
        new = ast.Call(func=ast.Attribute(value=ast.Name(id=self.selfname, ctx=ast.Load()), attr='visitchildren' if passes else '_barrier_handler_', ctx=ast.Load()),
                       args=[ast.Name(id=self.nodename, ctx=ast.Load())], keywords=[])
        return ast.copy_location(new, node)

    def visit_FunctionDef(self, node):
        self.generic_visit(node)
        return node


def passes_through(ix, coc, owner, fn, fold_analyse, depth=0, stack=()):
    """[(line, text)] of the child visits (own or delegated) of handler fn that happen with the bit node possibly set; [] = barrier."""
    if depth > MAX_DEPTH or (owner.qual, fn.name) in stack:
        raise AnalysisError('%s: handler delegation too deep / cyclic at %s.%s' % (RID, owner.qual, fn.name))
    if len(fn.args.args) < 2:
        raise AnalysisError('handler %s.%s has no node parameter' % (owner.qual, fn.name))
    selfname, nodename = fn.args.args[0].arg, fn.args.args[1].arg
    premise = {'%s.type.is_int' % nodename: True, '%s.type.is_pyobject' % nodename: False, '%s.type.is_float' % nodename: False,
               '%s.type.is_complex' % nodename: False, '%s.type.is_numeric' % nodename: True, '%s.type.is_error' % nodename: False}

    def classify(d):
        hit = _resolve(ix, coc, owner, d[0], d[1])
        if hit is None:
            raise AnalysisError('%s: %s.%s delegates to %s, which cannot be resolved' % (RID, owner.qual, fn.name, d[1]))
        return bool(passes_through(ix, coc, hit[0], hit[1], fold_analyse, depth + 1, stack + ((owner.qual, fn.name),)))
    summ = _Summarise(classify, selfname, nodename, premise).visit(copy.deepcopy(fn))
    ast.fix_missing_locations(summ)
    probs, _n = fold_analyse(summ, False)
    return [(line, text) for code, line, text in probs if code == 'not-cleared']


POSITIVE = '''
class ConsolidateOverflowCheck:
    def visit_Node(self, node):
        if self.overflow_bit_node is not None:
            saved = self.overflow_bit_node
            self.overflow_bit_node = None
            self.visitchildren(node)
            self.overflow_bit_node = saved
        else:
            self.visitchildren(node)
        return node

    def visit_DivNode(self, node):
        if node.zerodivision_check:
            return self.visit_Node(node)
        return self.visit_NumBinopNode(node)

    def visit_ModNode(self, node):
        if node.type.is_float:
            return self.visit_NumBinopNode(node)
        return self.visit_Node(node)

    def visit_NumBinopNode(self, node):
        if node.overflow_check and node.overflow_fold:
            top_level_overflow = self.overflow_bit_node is None
            if top_level_overflow:
                self.overflow_bit_node = node
            else:
                node.overflow_bit_node = self.overflow_bit_node
                node.overflow_check = False
            self.visitchildren(node)
            if top_level_overflow:
                self.overflow_bit_node = None
        else:
            self.visitchildren(node)
        return node
'''


class _FakeIndex:
    """just enough of PyIndex for the embedded example (one class, no bases)"""

    def __init__(self, cls):
        self.c = cls

    def find_method(self, c, name):
        return (c, c.methods[name]) if name in c.methods else None

    def mro(self, c):
        return [c]


class _FakeClass:
    def __init__(self, node):
        self.qual = node.name
        self.methods = {f.name: f for f in node.body if isinstance(f, ast.FunctionDef)}


def rule_barrier(ctx, fold_analyse, floor=2):
    ix = ctx.index
    r = Rule(RID, 'the ConsolidateOverflowCheck handler of every node class built for a trapping C operator (/ // %) visits the operands only with the shared '
                  'overflow bit node cleared, on every path (delegations to other handlers resolved)', floor)
    coc = ix.cls(*COC)
    if coc is None:
        raise AnalysisError('%s.%s vanished' % COC)
    tab = P4.table_classes(ix, 'ExprNodes', 'binop_node_classes')
    classes = {}
    for op in TRAPPING_OPS:
        if op not in tab:
            raise AnalysisError('operator %r vanished from ExprNodes.binop_node_classes' % op)
        c = tab[op]
        if c is None:
            continue            # not a node class: reported by C04-OPS
        classes.setdefault(c.name, (c, []))[1].append(op)
    for c, ops in list(classes.values()):
        for k in ix.subclasses(c):          # a subclass inherits the trapping C operator of its base
            classes.setdefault(k.name, (k, list(ops)))
    numbinop = ix.cls('ExprNodes', 'NumBinopNode')
    for cname, (c, ops) in sorted(classes.items()):
        if numbinop not in ix.mro(c):
            continue            # no overflow plumbing at all, never part of a fold
        h = ix.visitor_handler(coc, c)
        if h is None:
            raise AnalysisError('no handler for %s in ConsolidateOverflowCheck' % cname)
        hk, howner, hfn = h
        key = 'ExprNodes.%s' % cname
        leaks = passes_through(ix, coc, howner, hfn, fold_analyse)
        r.inst(key, sample='%s (%s) handled by %s.%s: %s' % (cname, ' '.join(sorted(set(ops))), howner.name, hfn.name, 'passes the bit through' if leaks else 'barrier'))
        if leaks:
            line = leaks[0][0]
            r.violate(key, howner.module.rel, line,
                      '%s (operators %s) is visited by %s.%s, and on some path of that handler (line %d, delegations resolved) its operands are visited while '
                      'self.overflow_bit_node is still set: a checked divisor such as (a * b) is folded into the enclosing expression\'s bit, the C %s then uses the '
                      'wrapped divisor before that bit is tested — `c + x %s (a * b)` with a*b wrapping to 0 dies with SIGFPE (or raises ZeroDivisionError) '
                      'instead of OverflowError when overflowcheck.fold is on; no flag of the node (zerodivision_check, cdivision) makes the C division safe'
                      % (cname, ' '.join(sorted(set(ops))), howner.name, hfn.name, line, 'division' if 'Div' in cname else 'modulo', sorted(set(ops))[-1]))
    pcc = _FakeClass(ast.parse(POSITIVE).body[0])
    fix = _FakeIndex(pcc)
    got = {n: bool(passes_through(fix, pcc, pcc, pcc.methods[n], fold_analyse)) for n in ('visit_Node', 'visit_DivNode', 'visit_ModNode', 'visit_NumBinopNode')}
    r.positive_control(got == {'visit_Node': False, 'visit_DivNode': True, 'visit_ModNode': False, 'visit_NumBinopNode': True},
                       'barrier made conditional on zerodivision_check (fires) next to one conditional on a float result (silent)')
    return r


# ====================================================================================================================================
# C04-ARITH: the checked-arithmetic helpers of Overflow.c flag every result that does not fit (bounded model check at a model width)
# ====================================================================================================================================
"""(C04-ARITH)  The base-case helpers __Pyx_{add,sub,mul}[_const]_<T>_checking_overflow and __Pyx_lshift_<T>_checking_overflow are
width-parametric C templates: they mention the width of their type only through sizeof(), through the __PYX_MIN/__PYX_MAX/__PYX_HALF_MAX
macros and through the literal 8 (bits per byte).  The rule checks that premise syntactically (no other integer literal than 0, 1, 2, 8)
and then evaluates the helper text with the checker's own C interpreter (rules/pC03.py: integer promotions, usual arithmetic conversions,
unsigned wrap-around, undefined behaviour detected) on model machines whose integer type has W = 4 bits, over ALL 2**W x 2**W operand pairs,
for both signednesses, both preprocessor arms (__builtin_*_overflow / portable fallback), every sizeof() arm of the fallback (a wider
`long`, only a wider `long long`, no wider type) and every answer of __Pyx_is_constant().  Obligations per pair:

    exact result not representable in T   =>  *overflow != 0 afterwards                 (never wraps)
    exact result representable, bit clear =>  returned value == exact result            (exact or raises)
    no undefined C operation is executed                                                   (never crashes)

A spurious overflow bit on a fitting result is tolerated (the property says so) and only counted.  What is NOT decided: that the
production widths behave like the model width (rests on the parametricity premise)."""
import re

from ..engine.cutil import strip_c_comments
from . import pC03 as MC

ARITH_RID = 'C04-ARITH'
OVF = 'Overflow.c'
MODEL_W = 4
ALLOWED_LITERALS = {0, 1, 2, 8}
T = 'sa_t'


def _models(signed):
    """model machines exercising each sizeof() arm of the fallback helpers for the type under test (W bits)"""
    W = MODEL_W
    out = []
    for name, lw, llw in (('wider long', 2 * W, 2 * W), ('wider long long only', W, 2 * W), ('no wider type', W, W)):
        out.append(MC.Model({'char': (W, True), 'short': (W, True), 'int': (W, True), 'long': (lw, True), 'long long': (llw, True),
                             'size_t': (2 * W, False), T: (W, signed)}, name))
    return out


def _hooks(const_names):
    def builtin(op):
        def h(it, args, env):
            if len(args) != 3:
                raise MC.Unsupported('__builtin_%s_overflow with %d arguments' % (op, len(args)))
            a, b = it._int(it.ev(args[0], env)), it._int(it.ev(args[1], env))
            ref = it.ev(args[2], env)
            if not isinstance(ref, MC.Ref):
                raise MC.Unsupported('__builtin_%s_overflow: third argument is not an address' % op)
            exact = {'add': a[0] + b[0], 'sub': a[0] - b[0], 'mul': a[0] * b[0]}[op]
            t = ref.cell.t
            ref.cell.v = MC.wrap(exact, t[0], t[1])
            return (int(not MC.fits(exact, t[0], t[1])), it.model.int_t[0], True)
        return h

    def is_constant(it, args, env):
        if len(args) == 1 and args[0][0] == 'id':
            return (int(bool(const_names.get(args[0][1], 0))), it.model.int_t[0], True)
        return (0, it.model.int_t[0], True)

    def fatal(it, args, env):
        raise MC.CUndefined('Py_FatalError() reached')
    return {'__builtin_add_overflow': builtin('add'), '__builtin_sub_overflow': builtin('sub'), '__builtin_mul_overflow': builtin('mul'),
            '__Pyx_is_constant': is_constant, '__builtin_constant_p': is_constant, 'Py_FatalError': fatal}


def _section(ctx, name, part):
    d = ctx.cat.files.get(OVF, {}).get(name, {})
    s = d.get(part)
    if s is None:
        raise AnalysisError('%s: Overflow.c::%s.%s vanished' % (ARITH_RID, name, part))
    return s


def _common_macros(ctx):
    raw = strip_c_comments(_section(ctx, 'Common', 'proto').raw)
    defs = MC.macros(MC.select_variant(raw, lambda c: False))
    for k in ('__Pyx_is_constant', '__PYX_HAVE_BUILTIN_OVERFLOW'):
        defs.pop(k, None)
    isu = [d for d in ctx.cat.decls.get('__PYX_IS_UNSIGNED', []) if d.kind == 'macro' and 'IMPL' not in (d.body or '')]
    if not isu:
        raise AnalysisError('%s: the C definition of __PYX_IS_UNSIGNED vanished' % ARITH_RID)
    defs['__PYX_IS_UNSIGNED'] = ([p.strip() for p in isu[0].params], ' '.join(isu[0].body.split()))
    return defs


def _instantiate(raw, env):
    text = strip_c_comments(raw)
    text = P4.tempita_subst(text, env)
    if '{{' in text:
        raise AnalysisError('%s: template token left after substitution: %s' % (ARITH_RID, text[text.index('{{'):][:40]))
    return text


def _exact(op, a, b):
    if op == 'add':
        return a + b
    if op == 'sub':
        return a - b
    if op == 'mul':
        return a * b
    if op == 'lshift':
        if b < 0:
            return None         # not a value: must be flagged
        return a << b if b < 64 else (0 if a == 0 else None)
    raise AnalysisError('%s: no reference semantics for helper %r' % (ARITH_RID, op))


def arith_check(text, common, fname, op, signed, builtin_arm, extra_truth=None, memo=None, bit0=0, seen_bits=None):
    """-> (pairs evaluated, spurious, first problem or None, arms seen).  text: instantiated section (impl [+ proto]).
    bit0: value of *overflow on entry.  With bit0 != 0 (the bit was set by an earlier operation of the same folded expression) the only
    obligations are `the bit is still non-zero on return` and `no undefined operation` (rules/s4C04.py, C04-STICKY).
    seen_bits: optional set collecting every value the bit has on return."""
    def truth(c):
        c = ' '.join(c.split())
        if c == 'defined(__PYX_HAVE_BUILTIN_OVERFLOW)':
            return builtin_arm
        if re.fullmatch(r'\d+', c):
            return bool(int(c))
        if extra_truth is not None:
            return extra_truth(c)
        raise AnalysisError('%s: preprocessor condition %r inside the checked-arithmetic helpers is not modelled' % (ARITH_RID, c))
    sel = MC.select_variant(text, truth)
    funcs = MC.functions(sel)
    defs = dict(common)
    defs.update(MC.macros(sel))
    name = fname
    for _ in range(5):          # follow alias macros (#define __Pyx_add_const_X __Pyx_add_X)
        if name in funcs:
            break
        if name in defs and defs[name][0] is None and re.fullmatch(r'\w+', defs[name][1]):
            name = defs[name][1]
        else:
            break
    if name not in funcs:
        return 0, 0, ('missing', 'no definition of %s in this preprocessor variant' % fname), set()
    f = funcs[name]
    if len(f.params) != 3 or not f.params[2][2]:
        return 0, 0, ('signature', '%s does not take (a, b, int *overflow)' % name), set()
    if memo is not None:
        mk = (name, op, signed, builtin_arm, bit0)
        if mk in memo:
            return memo[mk]          # an alias (#define x_const x) of a helper that was evaluated already in this variant
        res = arith_check(text, common, name, op, signed, builtin_arm, extra_truth, bit0=bit0, seen_bits=seen_bits)
        memo[mk] = res
        return res
    lo, hi = MC.lo_hi(MODEL_W, signed)
    n = spurious = 0
    arms = set()
    # the text this helper can reach (callees inside the section, transitively): decides which parameters of the model matter
    reach, todo = {}, [f]
    while todo:
        g = todo.pop()
        if g.name in reach:
            continue
        reach[g.name] = g.body_text
        for other in funcs.values():
            if other.name not in reach and re.search(r'\b%s\b' % re.escape(other.name), g.body_text):
                todo.append(other)
        for mname, (mp, mb) in defs.items():
            if mp is None and re.fullmatch(r'\w+', mb or '') and mb in funcs and re.search(r'\b%s\b' % re.escape(mname), g.body_text):
                todo.append(funcs[mb])
    rtext = '\n'.join(reach.values())
    all_models = _models(signed)
    uses_const = '__Pyx_is_constant' in rtext
    runs = [(m, (0, 0)) for m in (all_models if 'sizeof' in rtext else all_models[:1])]
    if uses_const:
        runs += [(all_models[0], c) for c in ((0, 1), (1, 0), (1, 1))]     # a "constant" operand leads to the *_const helper, which has no sizeof() arm
        if any('sizeof' in funcs[k].body_text for k in reach if k != f.name):
            runs = [(m, c) for m in all_models for c in ((0, 0), (0, 1), (1, 0), (1, 1))]
    cache = {}
    for model, (ca, cb) in runs:
        if True:
            cn = {f.params[0][1]: ca, f.params[1][1]: cb}
            it = MC.Interp(model, funcs, defs, _hooks(cn), cache)
            for a in range(lo, hi + 1):
                for b in range(lo, hi + 1):
                    n += 1
                    bit = MC.Cell(bit0, model.int_t)
                    it.steps = 0
                    it.trace = []
                    where = '%s(%d, %d) on the model machine "%s" (%d-bit %s type%s%s)' % (
                        fname, a, b, model.name, MODEL_W, 'signed' if signed else 'unsigned',
                        ', __builtin_*_overflow arm' if builtin_arm else ', portable arm',
                        '' if not uses_const else ', __Pyx_is_constant(a)=%d (b)=%d' % (ca, cb))
                    try:
                        r = it.call_func(f, [(a, MODEL_W, signed), (b, MODEL_W, signed), MC.Ref(bit)])
                    except MC.CUndefined as u:
                        return n, spurious, ('undefined', '%s executes undefined behaviour: %s' % (where, u)), arms
                    except MC.Goto as g:
                        raise AnalysisError('%s: goto %s leaves %s' % (ARITH_RID, g.label, fname))
                    arms.add(tuple(it.trace))
                    if seen_bits is not None:
                        seen_bits.add(bit.v)
                    if bit0:
                        if not bit.v:
                            return n, spurious, ('cleared', '%s called while the shared overflow bit is already %d (set by an earlier operation of the same folded expression) '
                                                            'returns with the bit 0: the earlier overflow is forgotten and the wrapped value is used' % (where, bit0)), arms
                        continue
                    exact = _exact(op, a, b)
                    ok = exact is not None and MC.fits(exact, MODEL_W, signed)
                    if not ok:
                        if not bit.v:
                            return n, spurious, ('unflagged', '%s: the exact result %s does not fit the type but the overflow bit stays 0 (returned %d): the value wraps silently'
                                                 % (where, 'is undefined' if exact is None else exact, r[0])), arms
                    elif bit.v:
                        spurious += 1
                    elif r[0] != exact:
                        return n, spurious, ('wrong-value', '%s returns %d with a clear overflow bit, the exact result is %d' % (where, r[0], exact)), arms
    return n, spurious, None, arms


ARITH_POSITIVE = '''
static CYTHON_INLINE sa_t __Pyx_add_sa_checking_overflow(sa_t a, sa_t b, int *overflow) {
    unsigned sa_t r = (unsigned sa_t) a + (unsigned sa_t) b;
    *overflow |= (((unsigned sa_t)a ^ (unsigned sa_t)b) & ((unsigned sa_t)a ^ r)) >> (8 * sizeof(sa_t) - 1);
    return (sa_t) r;
}
'''


def op_names(ctx):
    ix = ctx.index
    nb = ix.cls('ExprNodes', 'NumBinopNode')
    tab = P4.literal_dict_attr(ix, nb, 'overflow_op_names') if nb is not None else None
    if not tab:
        raise AnalysisError('%s: ExprNodes.NumBinopNode.overflow_op_names vanished' % ARITH_RID)
    return sorted(set(tab[1].values()))


def rule_arith(ctx, floor=20):
    r = Rule(ARITH_RID, 'the checked-arithmetic helpers of Overflow.c set the overflow bit for every operand pair whose exact result does not fit, return the exact '
                        'result otherwise and execute no undefined C operation: bounded model check of the helper text over all operand pairs of a %d-bit model type' % MODEL_W, floor)
    common = _common_macros(ctx)
    ops = op_names(ctx)
    rel = 'Cython/Utility/' + OVF
    spur_total = 0
    seen_bits = r.bit_values = set()      # every value a helper leaves in the bit (read by C04-STICKY)
    for signed, sec, key in ((True, 'BaseCaseSigned', 'INT'), (False, 'BaseCaseUnsigned', 'UINT')):
        impl, proto = _section(ctx, sec, 'impl'), _section(ctx, sec, 'proto')
        tname = T if signed else 'unsigned ' + T
        # the template spells the unsigned counterpart as `unsigned {{INT}}`: the model type name must survive that prefix
        text = _instantiate(proto.raw + '\n' + impl.raw, {key: T if signed else T, 'NAME': 'sa'})
        if not signed:
            text = text     # UINT := sa_t with the model declaring sa_t unsigned
        lits = MC.literals(MC.select_variant(text, lambda c: True)) | MC.literals(MC.select_variant(text, lambda c: False))
        if not lits <= ALLOWED_LITERALS:
            r.info('%s mentions the integer literal(s) %s: the helpers are not width-parametric any more and are not decided at the model width' % (sec, sorted(lits - ALLOWED_LITERALS)))
            continue
        memo = {}
        for op in ops:
            if op == 'lshift':
                continue
            for variant in (op, op + '_const'):
                fname = '__Pyx_%s_sa_checking_overflow' % variant
                for builtin_arm in (True, False):
                    k = '%s:%s:%s:%s' % (OVF, sec, variant, 'builtin' if builtin_arm else 'portable')
                    n, spurious, prob, arms = arith_check(text, common, fname, op, signed, builtin_arm, memo=memo, seen_bits=seen_bits)
                    spur_total += spurious
                    r.inst(k, sample='%s: %d operand pairs, %d spurious, call chains %s' % (k, n, spurious, sorted({'>'.join(a) for a in arms})[:3]))
                    if prob:
                        line = impl.line + impl.raw[:max(impl.raw.find('__Pyx_%s_{{NAME}}_checking_overflow(' % variant.replace('_const', '') if prob[0] != 'missing' else variant), 0)].count('\n')
                        r.violate('%s:%s' % (k, prob[0]), rel, line, '%s::%s, helper %s: %s' % (OVF, sec, variant, prob[1]))
    # LeftShift
    if 'lshift' in ops:
        ls = _section(ctx, 'LeftShift', 'proto')
        for signed in (True, False):
            text = _instantiate(ls.raw, {'TYPE': T, 'NAME': 'sa', 'SIGNED': '1' if signed else '0'})
            lits = MC.literals(text)
            k = '%s:LeftShift:%s' % (OVF, 'signed' if signed else 'unsigned')
            if not lits <= ALLOWED_LITERALS:
                r.info('LeftShift mentions the integer literal(s) %s: not width-parametric, not decided' % sorted(lits - ALLOWED_LITERALS))
                continue
            memo = {}
            for variant in ('lshift', 'lshift_const'):
                n, spurious, prob, arms = arith_check(text, common, '__Pyx_%s_sa_checking_overflow' % variant, 'lshift', signed, False, memo=memo, seen_bits=seen_bits)
                spur_total += spurious
                r.inst(k + ':' + variant, sample='%s:%s: %d operand pairs, %d spurious' % (k, variant, n, spurious))
                if prob:
                    r.violate('%s:%s:%s' % (k, variant, prob[0]), rel, ls.line, '%s::LeftShift (%s): %s' % (OVF, 'SIGNED' if signed else 'unsigned', prob[1]))
    r.info('%d operand pairs with a spurious overflow bit on a fitting result (tolerated by the property)' % spur_total)
    n, sp, prob, arms = arith_check(ARITH_POSITIVE, common, '__Pyx_add_sa_checking_overflow', 'add', True, False)
    r.positive_control(prob is not None and prob[0] == 'unflagged', 'signed add with the sign formula of the subtraction')
    return r


# ====================================================================================================================================
# dispatch table of Overflow.c::Binop (used by C04-DISPATCH) and the SIGNED key of LeftShift (C04-ARITH context check)
# ====================================================================================================================================
BASE_HELPER_TYPES = ('int', 'unsigned int', 'long', 'unsigned long', 'long long', 'unsigned long long')
DISPATCH_MODELS = {'ILP32': (32, 32), 'LP64': (64, 64), 'LLP64': (32, 64)}


def dispatch_table(ctx, raw=None):
    """decision table of the Binop dispatcher: for every integer type T of at least int rank (both signednesses, ILP32 / LP64 / LLP64) the helper it
    forwards to.  -> (rows [(model, T text, called)], problems [(key, message)]).  The dispatcher text is evaluated by rules/pC03 with the base helpers
    replaced by recording stubs; an arm that computes with the plain C operator (the *_no_overflow macros) shows up as `no helper called`."""
    if raw is None:
        raw = _section(ctx, 'Binop', 'impl').raw
    text = _instantiate(raw, {'TYPE': T, 'NAME': 'sa', 'BINOP': 'add'})
    funcs = MC.functions(text)
    fname = '__Pyx_add_sa_checking_overflow'
    if fname not in funcs:
        raise AnalysisError('C04-DISPATCH: the Binop template no longer defines __Pyx_{{BINOP}}_{{NAME}}_checking_overflow')
    common = _common_macros(ctx)
    rows, probs = [], []
    cache = {}
    for mname, (lbits, pbits) in DISPATCH_MODELS.items():
        base = {'char': (8, True), 'short': (16, True), 'int': (32, True), 'long': (lbits, True), 'long long': (64, True), 'size_t': (pbits, False)}
        for bits in sorted({32, lbits, 64}):
            for signed in (True, False):
                types = dict(base)
                types[T] = (bits, signed)
                model = MC.Model(types, mname)
                called = []

                def stub(name):
                    def h(it, args, env, name=name):
                        called.append(name)
                        return (0, bits, signed)
                    return h
                hooks = {'__Pyx_add_%s_checking_overflow' % x.replace(' ', '_'): stub(x) for x in BASE_HELPER_TYPES}
                hooks['Py_FatalError'] = lambda it, args, env: called.append('Py_FatalError') or (0, 32, True)
                it = MC.Interp(model, funcs, common, hooks, cache)
                try:
                    it.call_func(funcs[fname], [(1, bits, signed), (1, bits, signed), MC.Ref(MC.Cell(0, (32, True)))])
                except MC.Unsupported as u:
                    raise AnalysisError('C04-DISPATCH: the Binop dispatcher is outside the modelled C subset: %s' % u)
                except MC.CUndefined as u:
                    called.append('undefined: %s' % u)
                tdesc = '%s %d-bit type' % ('a signed' if signed else 'an unsigned', bits)
                rows.append((mname, tdesc, list(called)))
                ok = {x for x in BASE_HELPER_TYPES if model.ctype(x) == (bits, signed)}
                if not called:
                    probs.append(('unchecked', 'for %s on %s the dispatcher calls no checked helper at all (it computes with the plain C operator through __Pyx_<op>_no_overflow): '
                                               'the operation wraps silently' % (tdesc, mname)))
                elif called[0] not in ok:
                    probs.append(('wrong-helper:%s' % called[0].replace(' ', '_'), 'for %s on %s the dispatcher forwards to %s, whose type is %d-bit %s: operands are truncated or the '
                                  'overflow bound of another signedness is applied' % (tdesc, mname, called[0] if called[0] in BASE_HELPER_TYPES else called[0],
                                                                                        model.ctype(called[0])[0] if called[0] in BASE_HELPER_TYPES else 0,
                                                                                        ('signed' if model.ctype(called[0])[1] else 'unsigned') if called[0] in BASE_HELPER_TYPES else '?')))
    seen, out = set(), []
    for k, m in probs:
        if k not in seen:
            seen.add(k)
            out.append((k, m))
    return rows, out


def signed_key_problems(ctx):
    """[(site key, rel, line, message)] : the SIGNED key of every LeftShift instantiation is truthy exactly for signed types"""
    out, n = [], 0
    for s in P4.load_sites(ctx, OVF):
        if not s.sections or 'LeftShift' not in s.sections:
            continue
        items = P4.context_items(s)
        if not items or 'SIGNED' not in items:
            continue
        n += 1
        node = items['SIGNED']
        key = '%s.%s:LeftShift:SIGNED' % (s.module.short, s.qual)
        vals = {}
        try:
            for sv in (0, 1, 2):
                vals[sv] = bool(P2.Ev(subst={'self.signed': sv}).ev(node))
        except P2.Unknown:
            out.append((key, s.module.rel, s.call.lineno, None))
            continue
        bad = [sv for sv in (0, 1, 2) if vals[sv] != (sv != 0)]
        if bad:
            out.append((key, s.module.rel, s.call.lineno,
                        '%s instantiates Overflow.c::LeftShift with SIGNED = %s, which is %s for self.signed == %d: the `#if {{SIGNED}}` arm that rejects negative operands '
                        'is compiled for the wrong signedness (a negative shift count / a negative value is shifted, undefined behaviour instead of OverflowError)'
                        % (s.qual, node_src(node, 40), vals[bad[0]], bad[0])))
    return n, out
