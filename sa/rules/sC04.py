"""C04-BARRIER: the overflow fold never passes through a node whose C operator traps on a wrapped operand.

ConsolidateOverflowCheck lets the checked operations nested in one arithmetic expression write to ONE overflow bit that is tested after
the outermost operation.  That is sound only while every operation between the overflowing sub-expression and the test merely computes
garbage from a wrapped operand.  C `/` and `%` are different: the operator itself traps (SIGFPE) when the divisor wrapped to 0 (and the
node's own zero test raises ZeroDivisionError from the wrapped value) — before the shared bit is looked at.  "never wraps, never
crashes" therefore needs: whichever handler of ConsolidateOverflowCheck runs for a node class that ExprNodes.binop_node_classes builds for
a trapping operator visits that node's operands only with self.overflow_bit_node cleared — on EVERY path, whatever the node's flags
(zerodivision_check, cdivision ...) say, because those flags only remove the *test*, not the C division.

Technique: visitor dispatch is resolved through the class index; a handler is classified as barrier / pass-through by the flow analysis
of props/C04 (`_fold_analyse`, value of self.overflow_bit_node at every child visit) after *summary substitution*: a delegation
`self.visit_X(node)` / `super().visit_X(node)` is replaced by a child visit when the resolved callee is pass-through and dropped when it
is a barrier (recursively).  Branch tests that are decided by the premise "C integer result" (node.type.is_int ...) are folded first."""
import ast, copy

from ..core import Rule, AnalysisError, node_src
from . import pC02 as P2
from . import pC04 as P4

RID = 'C04-BARRIER'
TRAPPING_OPS = ('/', '//', '%')      # spelled with the C operators / and %: undefined behaviour (SIGFPE on x86) for a zero divisor
COC = ('Optimize', 'ConsolidateOverflowCheck')
MAX_DEPTH = 6


def _delegation(call, selfname, nodename):
    """('self'|'super', handler name) if call is self.visit_X(node) / super().visit_X(node) / super(C, self).visit_X(node)"""
    f = call.func
    if not (isinstance(f, ast.Attribute) and f.attr.startswith('visit_')):
        return None
    if not (call.args and isinstance(call.args[0], ast.Name) and call.args[0].id == nodename):
        return None
    if isinstance(f.value, ast.Name) and f.value.id == selfname:
        return 'self', f.attr
    if isinstance(f.value, ast.Call) and isinstance(f.value.func, ast.Name) and f.value.func.id == 'super':
        return 'super', f.attr
    return None


def _resolve(ix, coc, owner, kind, name):
    if kind == 'self':
        return ix.find_method(coc, name)
    mro = ix.mro(owner)
    for k in mro[mro.index(owner) + 1:] if owner in mro else []:
        if name in k.methods:
            return k, k.methods[name]
    return None


class _Summarise(ast.NodeTransformer):
    def __init__(self, classify, selfname, nodename, premise):
        self.classify, self.selfname, self.nodename, self.premise = classify, selfname, nodename, premise

    def visit_If(self, node):
        try:
            v = bool(P2.Ev(subst=self.premise).ev(node.test))
        except P2.Unknown:
            self.generic_visit(node)
            return node
        out = []
        for s in (node.body if v else node.orelse):
            r = self.visit(s)
            if isinstance(r, list):
                out.extend(r)
            elif r is not None:
                out.append(r)
        return out or [ast.copy_location(ast.Pass(), node)]

    def visit_Call(self, node):
        self.generic_visit(node)
        d = _delegation(node, self.selfname, self.nodename)
        if d is None:
            if isinstance(node.func, ast.Attribute) and node.func.attr.startswith('visit_') and \
                    any(isinstance(a, ast.Name) and a.id == self.nodename for a in node.args):
                raise AnalysisError('%s: delegation %s has a shape the barrier analysis does not resolve' % (RID, node_src(node, 80)))
            return node
        passes = self.classify(d)
        new = ast.Call(func=ast.Attribute(value=ast.Name(id=self.selfname, ctx=ast.Load()), attr='visitchildren' if passes else '_barrier_handler_', ctx=ast.Load()),
                       args=[ast.Name(id=self.nodename, ctx=ast.Load())], keywords=[])
        return ast.copy_location(new, node)

    def visit_FunctionDef(self, node):
        self.generic_visit(node)
        return node


def passes_through(ix, coc, owner, fn, fold_analyse, depth=0, stack=()):
    """[(line, text)] of the child visits (own or delegated) of handler fn that happen with the bit node possibly set; [] = barrier."""
    if depth > MAX_DEPTH or (owner.qual, fn.name) in stack:
        raise AnalysisError('%s: handler delegation too deep / cyclic at %s.%s' % (RID, owner.qual, fn.name))
    if len(fn.args.args) < 2:
        raise AnalysisError('handler %s.%s has no node parameter' % (owner.qual, fn.name))
    selfname, nodename = fn.args.args[0].arg, fn.args.args[1].arg
    premise = {'%s.type.is_int' % nodename: True, '%s.type.is_pyobject' % nodename: False, '%s.type.is_float' % nodename: False,
               '%s.type.is_complex' % nodename: False, '%s.type.is_numeric' % nodename: True, '%s.type.is_error' % nodename: False}

    def classify(d):
        hit = _resolve(ix, coc, owner, d[0], d[1])
        if hit is None:
            raise AnalysisError('%s: %s.%s delegates to %s, which cannot be resolved' % (RID, owner.qual, fn.name, d[1]))
        return bool(passes_through(ix, coc, hit[0], hit[1], fold_analyse, depth + 1, stack + ((owner.qual, fn.name),)))
    summ = _Summarise(classify, selfname, nodename, premise).visit(copy.deepcopy(fn))
    ast.fix_missing_locations(summ)
    probs, _n = fold_analyse(summ, False)
    return [(line, text) for code, line, text in probs if code == 'not-cleared']


POSITIVE = '''
class ConsolidateOverflowCheck:
    def visit_Node(self, node):
        if self.overflow_bit_node is not None:
            saved = self.overflow_bit_node
            self.overflow_bit_node = None
            self.visitchildren(node)
            self.overflow_bit_node = saved
        else:
            self.visitchildren(node)
        return node

    def visit_DivNode(self, node):
        if node.zerodivision_check:
            return self.visit_Node(node)
        return self.visit_NumBinopNode(node)

    def visit_ModNode(self, node):
        if node.type.is_float:
            return self.visit_NumBinopNode(node)
        return self.visit_Node(node)

    def visit_NumBinopNode(self, node):
        if node.overflow_check and node.overflow_fold:
            top_level_overflow = self.overflow_bit_node is None
            if top_level_overflow:
                self.overflow_bit_node = node
            else:
                node.overflow_bit_node = self.overflow_bit_node
                node.overflow_check = False
            self.visitchildren(node)
            if top_level_overflow:
                self.overflow_bit_node = None
        else:
            self.visitchildren(node)
        return node
'''


class _FakeIndex:
    """just enough of PyIndex for the embedded example (one class, no bases)"""

    def __init__(self, cls):
        self.c = cls

    def find_method(self, c, name):
        return (c, c.methods[name]) if name in c.methods else None

    def mro(self, c):
        return [c]


class _FakeClass:
    def __init__(self, node):
        self.qual = node.name
        self.methods = {f.name: f for f in node.body if isinstance(f, ast.FunctionDef)}


def rule_barrier(ctx, fold_analyse, floor=2):
    ix = ctx.index
    r = Rule(RID, 'the ConsolidateOverflowCheck handler of every node class built for a trapping C operator (/ // %) visits the operands only with the shared '
                  'overflow bit node cleared, on every path (delegations to other handlers resolved)', floor)
    coc = ix.cls(*COC)
    if coc is None:
        raise AnalysisError('%s.%s vanished' % COC)
    tab = P4.table_classes(ix, 'ExprNodes', 'binop_node_classes')
    classes = {}
    for op in TRAPPING_OPS:
        if op not in tab:
            raise AnalysisError('operator %r vanished from ExprNodes.binop_node_classes' % op)
        c = tab[op]
        if c is None:
            continue            # not a node class: reported by C04-OPS
        classes.setdefault(c.name, (c, []))[1].append(op)
    for c, ops in list(classes.values()):
        for k in ix.subclasses(c):          # a subclass inherits the trapping C operator of its base
            classes.setdefault(k.name, (k, list(ops)))
    numbinop = ix.cls('ExprNodes', 'NumBinopNode')
    for cname, (c, ops) in sorted(classes.items()):
        if numbinop not in ix.mro(c):
            continue            # no overflow plumbing at all, never part of a fold
        h = ix.visitor_handler(coc, c)
        if h is None:
            raise AnalysisError('no handler for %s in ConsolidateOverflowCheck' % cname)
        hk, howner, hfn = h
        key = 'ExprNodes.%s' % cname
        leaks = passes_through(ix, coc, howner, hfn, fold_analyse)
        r.inst(key, sample='%s (%s) handled by %s.%s: %s' % (cname, ' '.join(sorted(set(ops))), howner.name, hfn.name, 'passes the bit through' if leaks else 'barrier'))
        if leaks:
            line = leaks[0][0]
            r.violate(key, howner.module.rel, line,
                      '%s (operators %s) is visited by %s.%s, and on some path of that handler (line %d, delegations resolved) its operands are visited while '
                      'self.overflow_bit_node is still set: a checked divisor such as (a * b) is folded into the enclosing expression\'s bit, the C %s then uses the '
                      'wrapped divisor before that bit is tested — `c + x %s (a * b)` with a*b wrapping to 0 dies with SIGFPE (or raises ZeroDivisionError) '
                      'instead of OverflowError when overflowcheck.fold is on; no flag of the node (zerodivision_check, cdivision) makes the C division safe'
                      % (cname, ' '.join(sorted(set(ops))), howner.name, hfn.name, line, 'division' if 'Div' in cname else 'modulo', sorted(set(ops))[-1]))
    pcc = _FakeClass(ast.parse(POSITIVE).body[0])
    fix = _FakeIndex(pcc)
    got = {n: bool(passes_through(fix, pcc, pcc, pcc.methods[n], fold_analyse)) for n in ('visit_Node', 'visit_DivNode', 'visit_ModNode', 'visit_NumBinopNode')}
    r.positive_control(got == {'visit_Node': False, 'visit_DivNode': True, 'visit_ModNode': False, 'visit_NumBinopNode': True},
                       'barrier made conditional on zerodivision_check (fires) next to one conditional on a float result (silent)')
    return r
