"""TREE / VIS rule family: tree and visitor well-formedness (T1, T2, V1, V2)."""
import ast

from ..core import Rule, AnalysisError, node_src
from ..engine.pyindex import walk_no_nested, is_self_attr

PHASE_METHODS = {
    'analyse_declarations', 'analyse_expressions', 'analyse_types', 'analyse_target_types',
    'analyse_target_declaration', 'generate_execution_code', 'generate_evaluation_code',
    'generate_function_definitions', 'generate_disposal_code', 'free_temps', 'generate_assignment_code',
    'generate_result_code', 'analyse_control_flow', 'annotate',
}


def visitor_classes(ix):
    tv = ix.cls('Visitor', 'TreeVisitor')
    return [tv] + ix.subclasses(tv)


def node_class_names(ix):
    names = {}
    for c in ix.node_classes():
        names.setdefault(c.name, c)
    return names


def rule_V1_visit(ctx, visitors=None, floor=450):
    """Every visit_<N> method/alias of a tree visitor names a class that can occur as a node type
    (a Node subclass, or a mixin that Node subclasses inherit from)."""
    ix = ctx.index
    r = Rule('V1', 'visit_<ClassName> handlers name an existing node class (Visitor.find_handler dispatches by class name along the MRO)', floor)
    names = node_class_names(ix)
    # mixins: any class that appears in the MRO of some node class
    mro_names = set()
    for c in ix.node_classes():
        for k in ix.mro(c):
            mro_names.add(k.name)
    for v in visitors or visitor_classes(ix):
        own = list(v.methods.items()) + [(a, None) for a in v.attrs if a.startswith('visit_') and a not in v.methods]
        for mname, fn in own:
            if not mname.startswith('visit_') or not mname[6:7].isupper():
                continue   # lower-case visit_xyz are explicitly called helpers, not dispatch targets
            target = mname[6:]
            key = '%s.%s' % (v.qual, mname)
            r.inst(key, sample=key if target in names else None)
            if target not in names and target not in mro_names:
                line = fn.lineno if fn is not None else getattr(v.attrs.get(mname), 'lineno', v.node.lineno)
                r.violate(key, v.module.rel, line,
                          'handler %s names no class in the node hierarchy: it can never be dispatched to '
                          '(renamed/removed node class?) so nodes of the intended class get the generic handler' % mname)
    return r


def _always_exits(body, noreturn=None):
    """True if no path falls off the end of `body` (every path returns or raises).  noreturn: names of methods of the same object that never
    return normally (`self.fail(node)` as a statement then ends the path)."""
    for s in body:
        if isinstance(s, (ast.Return, ast.Raise)):
            return True
        if noreturn and isinstance(s, ast.Expr) and isinstance(s.value, ast.Call) and isinstance(s.value.func, ast.Attribute) and \
                isinstance(s.value.func.value, ast.Name) and s.value.func.value.id == 'self' and s.value.func.attr in noreturn:
            return True
        if isinstance(s, ast.If):
            if s.orelse and _always_exits(s.body, noreturn) and _always_exits(s.orelse, noreturn):
                return True
        elif isinstance(s, ast.Try):
            if s.finalbody and _always_exits(s.finalbody, noreturn):
                return True
            if _always_exits(s.body + (s.orelse or []), noreturn) and all(_always_exits(h.body, noreturn) for h in s.handlers):
                return True
        elif isinstance(s, ast.With):
            if _always_exits(s.body, noreturn):
                return True
        elif isinstance(s, ast.While):
            if isinstance(s.test, ast.Constant) and s.test.value and \
                    not any(isinstance(n, ast.Break) for n in _walk_loop_body(s)):
                return True
        elif isinstance(s, ast.Match):
            cases = s.cases
            if cases and all(_always_exits(c.body, noreturn) for c in cases) and \
                    any(isinstance(c.pattern, ast.MatchAs) and c.pattern.pattern is None and c.guard is None for c in cases):
                return True
    return False


def _raises_on_every_path(body):
    """every path through body ends in a `raise` (no return at all: checked by the caller)"""
    for s in body:
        if isinstance(s, ast.Raise):
            return True
        if isinstance(s, ast.If) and s.orelse and _raises_on_every_path(s.body) and _raises_on_every_path(s.orelse):
            return True
    return False


def _walk_loop_body(loop):
    todo = list(loop.body)
    while todo:
        n = todo.pop()
        yield n
        for ch in ast.iter_child_nodes(n):
            if isinstance(ch, (ast.For, ast.While, ast.FunctionDef, ast.AsyncFunctionDef, ast.ClassDef, ast.Lambda)):
                continue
            todo.append(ch)


def rule_V2(ctx, floor=300):
    """Every dispatch method of a VisitorTransform returns a value on all paths: falling off the end
    (or a bare `return`) makes the transform replace the node by None, silently deleting it."""
    ix = ctx.index
    r = Rule('V2', 'visit_* methods of VisitorTransform subclasses return a node on every path (None deletes the node)', floor)
    vt = ix.cls('Visitor', 'VisitorTransform')
    for v in [vt] + ix.subclasses(vt):
        for mname, fn in v.methods.items():
            if not mname.startswith('visit_') or not mname[6:7].isupper():
                continue
            key = '%s.%s' % (v.qual, mname)
            r.inst(key, sample=key)
            # helper methods of the class (MRO) whose every path raises: a call of one as a statement ends the path like a raise
            noreturn = set()
            for k in ix.mro(v):
                for hn, hf in k.methods.items():
                    if not hn.startswith('visit_') and hf.body and not any(isinstance(x, (ast.Return, ast.Yield, ast.YieldFrom)) for x in walk_no_nested(hf)) \
                            and _raises_on_every_path(hf.body):
                        noreturn.add(hn)
            if not _always_exits(fn.body, noreturn):
                r.violate(key, v.module.rel, fn.lineno, 'a path falls off the end of %s and returns None (the visited node is deleted from the tree)' % mname)
            for n in walk_no_nested(fn):
                if isinstance(n, ast.Return) and n.value is None:
                    r.violate(key + ':bare-return', v.module.rel, n.lineno, 'bare `return` in transform handler %s returns None (deletes the node)' % mname)
    # positive control
    pc = ast.parse('def visit_X(self, node):\n    if node.a:\n        return node\n    self.visitchildren(node)\n').body[0]
    r.positive_control(not _always_exits(pc.body), 'fall-through handler')
    return r


def effective_children(ix, c):
    """child_attrs (+ subexprs for ExprNode subclasses, as ExprNode.child_attrs is a property over subexprs)."""
    is_expr = ix.is_subclass(c, 'ExprNode')
    if is_expr:
        # ExprNode.child_attrs = property(fget=operator.attrgetter('subexprs')) unless overridden below ExprNode
        for k in ix.mro(c):
            if k.name == 'ExprNode':
                break
            if 'child_attrs' in k.attrs:
                v = ix.class_list_attr(k, 'child_attrs')
                return ('child_attrs', v[0], v[1])
        v = ix.class_list_attr(c, 'subexprs')
        return ('subexprs', v[0], v[1]) if v else ('subexprs', None, None)
    v = ix.class_list_attr(c, 'child_attrs')
    return ('child_attrs', v[0], v[1]) if v else ('child_attrs', None, None)


def rule_T1(ctx, exceptions=None, floor=150):
    """Child completeness: an attribute on which a node class calls a tree-phase method must be listed in
    the class's effective child_attrs/subexprs — transforms and analyses only see listed children."""
    ix = ctx.index
    exceptions = exceptions or {}
    r = Rule('T1', 'attributes driven through analyse_*/generate_* by a node class are listed in child_attrs/subexprs', floor)
    for c in ix.node_classes():
        kind, owner, lst = effective_children(ix, c)
        if lst is None:
            continue
        used = {}
        for mname, fn in c.methods.items():
            sn = fn.args.args[0].arg if fn.args.args else None
            if sn != 'self':
                continue
            for n in walk_no_nested(fn):
                if isinstance(n, ast.Call) and isinstance(n.func, ast.Attribute) and n.func.attr in PHASE_METHODS \
                        and is_self_attr(n.func.value):
                    used.setdefault(n.func.value.attr, (mname, n.func.attr, n.lineno))
        for attr, (mname, ph, line) in sorted(used.items()):
            key = '%s.%s' % (c.qual, attr)
            r.inst(key, sample='%s.%s via %s() in %s' % (c.qual, attr, ph, mname))
            if attr not in lst and key not in exceptions:
                r.violate(key, c.module.rel, line,
                          '%s.%s calls self.%s.%s() but %r is not in %s %s=%r: tree transforms, control-flow '
                          'analysis and type inference never visit this child' % (c.name, mname, attr, ph, attr, owner.name, kind, lst))
    return r


def rule_T2(ctx, floor=200):
    """Every name listed in child_attrs/subexprs is an attribute the class defines somewhere
    (class attribute, self.x assignment, constructor keyword at a creation site): visitchildren getattr()s it."""
    ix = ctx.index
    r = Rule('T2', 'names in child_attrs/subexprs are defined attributes of the class', floor)
    # universe of attribute names that exist anywhere: stored attributes, call keywords (node constructors take
    # children as keywords, often through **kwds or __dict__ copies, so the class of the call is not tracked)
    universe = set()
    for m in ix.modules.values():
        for n in ast.walk(m.tree):
            if isinstance(n, ast.Call):
                universe.update(k.arg for k in n.keywords if k.arg)
            elif isinstance(n, ast.Attribute) and isinstance(n.ctx, ast.Store):
                universe.add(n.attr)
            elif isinstance(n, ast.Subscript) and isinstance(n.ctx, ast.Store) and isinstance(n.slice, ast.Constant) \
                    and isinstance(n.slice.value, str):
                universe.add(n.slice.value)     # kwds["as_targets"] = ... before Node(**kwds)
            elif isinstance(n, ast.Dict):
                universe.update(k.value for k in n.keys if isinstance(k, ast.Constant) and isinstance(k.value, str))
    for c in ix.node_classes():
        for kind in ('child_attrs', 'subexprs'):
            if kind not in c.attrs:
                continue
            v = ix.class_list_attr(c, kind)
            if not v or v[1] is None or v[0] is not c:
                continue
            defined = set()
            for k in ix.mro(c):
                defined |= set(k.attrs) | k.self_attrs | set(k.methods)
            for s in [c] + ix.subclasses(c):
                defined |= set(s.attrs) | s.self_attrs
            defined |= universe
            for name in v[1]:
                key = '%s.%s[%s]' % (c.qual, kind, name)
                r.inst(key, sample=key)
                if name not in defined:
                    r.violate(key, c.module.rel, c.attrs[kind].lineno if hasattr(c.attrs[kind], 'lineno') else c.node.lineno,
                              '%s lists %r in %s but no class attribute, self.%s assignment or constructor keyword defines it '
                              '(visitchildren would raise AttributeError, or the real child is spelt differently and is never visited)' % (c.name, name, kind, name))
    return r
