"""L8 (SCOPE-API): a declaration-phase method of a node calls only those methods of its `env` that every kind of scope has.

`env` is whatever scope the statement happens to sit in (module, function, class, cdef class, ...).  A method that only some Scope
subclasses define raises AttributeError — an internal compiler crash — as soon as the statement is written in another kind of scope
(`nonlocal x` at module level: 'ModuleScope' object has no attribute 'declare_nonlocal').  Calls on scope-specific API are accepted where the
kind of scope is fixed by construction; those sites are enumerated below with the reason."""
import ast, collections

from ..core import Rule, AnalysisError
from ..engine.pyindex import walk_no_nested

MODULES = ('Nodes', 'ExprNodes', 'MatchCaseNodes', 'UtilNodes')
PHASES = ('analyse_declarations', 'analyse_expressions', 'analyse_types', 'analyse_target_declaration', 'analyse_target_types', 'declare', 'analyse')

# (Class.method, attribute) -> why the scope kind is fixed   [confirmed by reading Parsing.py / the callers]
FIXED_SCOPE = {
    ('CImportStatNode.analyse_declarations', 'find_module'): 'cimport is rejected outside module level by the parser ("cimport only allowed at module level")',
    ('CImportStatNode.analyse_declarations', 'declare_module'): 'cimport: module level only (parser)',
    ('CImportStatNode.analyse_declarations', 'add_imported_module'): 'cimport: module level only (parser)',
    ('FromCImportStatNode.analyse_declarations', 'find_module'): 'from-cimport: module level only (parser)',
    ('FromCImportStatNode.analyse_declarations', 'add_imported_module'): 'from-cimport: module level only (parser)',
    ('FromCImportStatNode.analyse_declarations', 'add_imported_entry'): 'from-cimport: module level only (parser)',
    ('FromCImportStatNode.analyse_declarations', 'is_package'): 'from-cimport: module level only (parser)',
    ('FromImportStatNode.analyse_expressions', 'find_module'): 'guarded by the cimport-of-cython special case at module level',
    ('CClassDefNode.analyse_declarations', 'add_imported_entry'): 'cdef class statements are module level only (parser: "cdef statement not allowed here")',
    ('CClassDefNode.analyse_declarations', 'add_imported_module'): 'cdef class: module level only (parser)',
    ('CClassDefNode.analyse_declarations', 'allocate_vtable_names'): 'cdef class: module level only (parser)',
    ('CClassDefNode.analyse_declarations', 'cimported_modules'): 'cdef class: module level only (parser)',
    ('PropertyNode.analyse_declarations', 'declare_property'): 'property blocks are parsed only inside a cdef class body (p_property_decl under ctx.level == "c_class")',
    ('CPropertyNode.analyse_declarations', 'declare_property'): 'created by the compiler for cdef class attributes only',
    ('FuncDefNode.declare_argument', 'declare_arg'): 'env is the function\'s own LocalScope created by create_local_scope',
    ('FromCImportStatNode.analyse_declarations', 'declare_module'): 'from-cimport: module level only (parser)',
    ('DefNode.analyse_signature', 'parent_type'): 'reached only when sig.is_self_arg(i): signatures with a typed self argument are the special-method / method signatures '
                                                  'assigned by CClassScope.declare_pyfunction, i.e. env is the cdef class scope',
    ('DefNode.declare_pyfunction', 'parent_type'): 'read only if entry.is_final_cmethod, a flag that only CClassScope.declare_cfunction / add_cfunction set on entries of that very scope',
    ('CFuncDeclaratorNode.analyse', 'parent_type'): 'read under `env.is_c_class_scope`',
    ('CSimpleBaseTypeNode.analyse', 'parent_type'): 'read under `env.is_c_class_scope`',
}


def scope_base_attrs(ix):
    scope = ix.cls('Symtab', 'Scope')
    if scope is None:
        raise AnalysisError('Symtab.Scope not found')
    out = set(scope.methods) | set(scope.attrs)
    for fn in scope.methods.values():
        for n in ast.walk(fn):
            if isinstance(n, ast.Attribute) and isinstance(n.ctx, ast.Store) and isinstance(n.value, ast.Name) and n.value.id == 'self':
                out.add(n.attr)
    return scope, out


def rule_L8(ctx, floor=12):
    ix = ctx.index
    r = Rule('L8', 'declaration/analysis methods of tree nodes use only Scope API that every kind of scope provides, unless the scope kind is fixed by construction', floor)
    scope, base = scope_base_attrs(ix)
    subs = ix.subclasses(scope)
    if len(subs) < 10:
        raise AnalysisError('only %d Scope subclasses found' % len(subs))

    def who(attr):
        out = []
        for c in subs:
            for k in ix.mro(c):
                if attr in k.methods or attr in k.attrs:
                    out.append(c.name)
                    break
                if any(isinstance(n, ast.Attribute) and isinstance(n.ctx, ast.Store) and n.attr == attr and isinstance(n.value, ast.Name) and n.value.id == 'self'
                       for fn in k.methods.values() for n in ast.walk(fn)):
                    out.append(c.name)
                    break
        return out
    for mn in MODULES:
        m = ix.mod(mn)
        if m is None:
            continue
        for qn, owner, fn in ix.functions_of(m):
            if owner is None or fn.name not in PHASES and not fn.name.startswith(('analyse_', 'declare')):
                continue
            params = [a.arg for a in fn.args.args]
            if 'env' not in params:
                continue
            # `env` re-bound inside the function (env = self.scope ...) is a scope of known kind
            rebound = any(isinstance(n, ast.Assign) and any(isinstance(t, ast.Name) and t.id == 'env' for t in n.targets) for n in walk_no_nested(fn))
            seen = set()
            for n in walk_no_nested(fn):
                if isinstance(n, ast.Attribute) and isinstance(n.value, ast.Name) and n.value.id == 'env' and isinstance(n.ctx, ast.Load) and n.attr not in base:
                    if n.attr in seen or n.attr == 'directives':
                        continue
                    seen.add(n.attr)
                    key = '%s.%s:env.%s' % (mn, qn, n.attr)
                    r.inst(key, sample=key)
                    if rebound:
                        continue
                    k2 = ('%s.%s' % (owner.name if hasattr(owner, 'name') else owner, fn.name), n.attr)
                    if k2 in FIXED_SCOPE:
                        continue
                    # guarded by a test of the scope kind?
                    guarded = False
                    for g in walk_no_nested(fn):
                        if isinstance(g, (ast.If, ast.IfExp)) and any(isinstance(x, ast.Attribute) and isinstance(x.value, ast.Name) and x.value.id == 'env' and x.attr.startswith('is_') for x in ast.walk(g.test)):
                            if any(x is n for x in ast.walk(g)):
                                guarded = True
                    if guarded:
                        continue
                    have = who(n.attr)
                    r.violate(key, m.rel, n.lineno, '%s.%s uses env.%s, which only %s define%s: in any other kind of scope the compiler dies with AttributeError instead of reporting an error' % (
                        mn, qn, n.attr, ', '.join(have[:5]) or 'no scope classes', '' if len(have) != 1 else 's'))
    r.positive_control('declare_var' in base and 'lookup' in base, 'base Scope API extracted')
    return r
