"""C37 rule family: the prange / parallel-block exit protocol in Nodes.ParallelStatNode and friends.

Everything is extracted from the current source: the order of FunctionState.get_all_labels(), the exit codes stored
into Naming.parallel_why by trap_parallel_exit, the `case N:` dispatch of end_parallel_control_flow_block, the guards
comparing parallel_why with a constant, the save/restore of the label slots, the bracket discipline of the exception
hand-off, and the parallel-block stack of MarkParallelAssignments.
"""
import ast, re

from ..core import Rule, AnalysisError, node_src
from ..engine import pyflow, tables
from ..engine.pyindex import walk_no_nested, is_self_attr

EMIT = ('putln', 'put', 'put_safe', 'putln_openmp')
KIND_RE = re.compile(r'(continue|break|return|error)_label$')


# ------------------------------------------------------------------------------------------------ small resolvers
def naming_values(ctx):
    """Naming.py: name -> string value (constants and `prefix + "text"` concatenations)."""
    def build():
        tree = ctx.parse('Cython/Compiler/Naming.py')
        vals = {}

        def ev(n):
            if isinstance(n, ast.Constant) and isinstance(n.value, str):
                return n.value
            if isinstance(n, ast.Name):
                return vals.get(n.id)
            if isinstance(n, ast.BinOp) and isinstance(n.op, ast.Add):
                a, b = ev(n.left), ev(n.right)
                return None if a is None or b is None else a + b
            return None
        for s in tree.body:
            if isinstance(s, ast.Assign) and len(s.targets) == 1 and isinstance(s.targets[0], ast.Name):
                v = ev(s.value)
                if v is not None:
                    vals[s.targets[0].id] = v
        if 'parallel_why' not in vals or 'parallel_exc_type' not in vals:
            raise AnalysisError('Naming.parallel_why / Naming.parallel_exc_type not found')
        return vals
    return ctx.memo('pC37.naming', build)


def method(ix, cls, name):
    r = ix.find_method(cls, name)
    if r is None:
        raise AnalysisError('%s.%s vanished' % (cls.qual, name))
    return r


def local_assigns(fn):
    """name -> [value nodes] for plain `name = value` statements of fn."""
    env = {}
    for n in walk_no_nested(fn):
        if isinstance(n, ast.Assign):
            for t in n.targets:
                if isinstance(t, ast.Name):
                    env.setdefault(t.id, []).append(n.value)
    return env


def deref(expr, env, depth=0):
    """Follow a local name that is assigned exactly once."""
    while isinstance(expr, ast.Name) and len(env.get(expr.id, ())) == 1 and depth < 5:
        expr = env[expr.id][0]
        depth += 1
    return expr


class Res:
    """Resolves the expressions that fill emitted C text inside methods of one class."""

    def __init__(self, ctx, cls, fn):
        self.ctx, self.ix, self.cls, self.fn = ctx, ctx.index, cls, fn
        self.naming = naming_values(ctx)
        self.env = local_assigns(fn)
        # `a, b, c = <tuple-valued expression>` with every name bound once: name -> (value node, position)
        self.unpacks = {}
        counts = {}
        for n in walk_no_nested(fn):
            for t in (n.targets if isinstance(n, ast.Assign) else [n.target] if isinstance(n, (ast.AugAssign, ast.AnnAssign, ast.For)) else []):
                for x in ast.walk(t):
                    if isinstance(x, ast.Name):
                        counts[x.id] = counts.get(x.id, 0) + 1
        for n in walk_no_nested(fn):
            if isinstance(n, ast.Assign) and len(n.targets) == 1 and isinstance(n.targets[0], (ast.Tuple, ast.List)) and \
                    all(isinstance(x, ast.Name) for x in n.targets[0].elts):
                for i, x in enumerate(n.targets[0].elts):
                    if counts.get(x.id) == 1:
                        self.unpacks[x.id] = (n.value, i, len(n.targets[0].elts))

    def _unpacked(self, e, depth=0):
        """A local bound once by tuple unpacking from a resolvable sequence -> the element expression, else e."""
        while isinstance(e, ast.Name) and e.id in self.unpacks and e.id not in self.env and depth < 5:
            v, i, n = self.unpacks[e.id]
            s = self.seq(v, depth + 1)
            if s is None or len(s) != n:
                return e
            e = deref(s[i], self.env)
            depth += 1
        return e

    def atom(self, e):
        """-> string value of a C identifier expression, or None."""
        e = self._unpacked(deref(e, self.env))
        if isinstance(e, ast.Constant) and isinstance(e.value, str):
            return e.value
        if isinstance(e, ast.Attribute) and isinstance(e.value, ast.Name) and e.value.id == 'Naming':
            return self.naming.get(e.attr)
        return None

    def seq(self, e, depth=0):
        """-> list of element expressions for tuple-valued expressions (literal tuples, class attributes via self.X,
        tuple(x), chain(*zip(A, B)), A + B), or None."""
        if depth > 6:
            return None
        e = deref(e, self.env)
        if isinstance(e, (ast.Tuple, ast.List)):
            return list(e.elts)
        if is_self_attr(e):
            a = self.ix.find_class_attr(self.cls, e.attr)
            if a is not None and isinstance(a[1], (ast.Tuple, ast.List)):
                return list(a[1].elts)
            return None
        if isinstance(e, ast.Call) and isinstance(e.func, ast.Name) and e.func.id in ('tuple', 'list') and len(e.args) == 1:
            return self.seq(e.args[0], depth + 1)
        if isinstance(e, ast.Call) and isinstance(e.func, ast.Name) and e.func.id == 'chain' and len(e.args) == 1 and \
                isinstance(e.args[0], ast.Starred):
            z = e.args[0].value
            if isinstance(z, ast.Call) and isinstance(z.func, ast.Name) and z.func.id == 'zip':
                parts = [self.seq(a, depth + 1) for a in z.args]
                if any(p is None for p in parts):
                    return None
                out = []
                for row in zip(*parts):
                    out.extend(row)
                return out
            return None
        if isinstance(e, ast.BinOp) and isinstance(e.op, ast.Add):
            a, b = self.seq(e.left, depth + 1), self.seq(e.right, depth + 1)
            return None if a is None or b is None else a + b
        return None

    SPEC = re.compile(r'%[-#0 +]*(?:\d+)?(?:\.\d+)?([diouxXeEfFgGcrsa%])')

    def template(self, node):
        """Emitted text of a string expression: resolved identifiers inline, every other dynamic part as the
        placeholder character with its expression in the returned list.  None = not a string template."""
        if isinstance(node, ast.Constant) and isinstance(node.value, str):
            return node.value.replace('\xa7', '?'), []
        if isinstance(node, ast.JoinedStr):
            out, ph = '', []
            for v in node.values:
                if isinstance(v, ast.Constant):
                    out += str(v.value).replace('\xa7', '?')
                else:
                    a = self.atom(v.value) if v.format_spec is None and v.conversion == -1 else None
                    if a is not None:
                        out += a
                    else:
                        out += '\xa7'
                        ph.append(v.value)
            return out, ph
        if isinstance(node, ast.BinOp) and isinstance(node.op, ast.Mod):
            l = self.template(node.left)
            if l is None or l[1]:
                return None
            fmt = l[0]
            nspec = sum(1 for m in self.SPEC.finditer(fmt) if m.group(1) != '%')
            right = node.right
            args = None
            if isinstance(right, ast.Tuple):
                args = list(right.elts)
            else:
                s = self.seq(right)
                if s is not None and len(s) == nspec:
                    args = s
                elif nspec == 1:
                    args = [right]
            if args is None or len(args) != nspec:
                return None
            out, ph, pos, ai = '', [], 0, 0
            for m in self.SPEC.finditer(fmt):
                out += fmt[pos:m.start()]
                pos = m.end()
                if m.group(1) == '%':
                    out += '%'
                    continue
                a = self.atom(args[ai]) if m.group(1) == 's' else None
                if a is not None:
                    out += a
                else:
                    out += '\xa7'
                    ph.append(args[ai])
                ai += 1
            return out + fmt[pos:], ph
        if isinstance(node, ast.BinOp) and isinstance(node.op, ast.Add):
            a, b = self.template(node.left), self.template(node.right)
            if a is None or b is None:
                return None
            return a[0] + b[0], a[1] + b[1]
        return None


def emit_call(n):
    """<writer>.putln/put/...(text) -> (receiver text, text node) else None."""
    if isinstance(n, ast.Call) and isinstance(n.func, ast.Attribute) and n.func.attr in EMIT and n.args:
        return ast.unparse(n.func.value), n.args[0]
    return None


def emissions(res, root):
    """[(call node, receiver, text, placeholders)] for every resolvable emission below root, in source order."""
    out = []
    nodes = list(walk_no_nested(root)) if isinstance(root, (ast.FunctionDef, ast.AsyncFunctionDef)) else list(ast.walk(root))
    for n in nodes:
        ec = emit_call(n)
        if ec is None:
            continue
        t = res.template(ec[1])
        if t is not None:
            out.append((n, ec[0], t[0], t[1]))
    out.sort(key=lambda x: (x[0].lineno, x[0].col_offset))
    return out


def label_kind(e):
    """code.K_label / self.K_label -> K"""
    if isinstance(e, ast.Attribute):
        m = KIND_RE.match(e.attr)
        if m:
            return m.group(1)
    return None


def eval_int(e, env):
    if isinstance(e, ast.Constant) and isinstance(e.value, int) and not isinstance(e.value, bool):
        return e.value
    if isinstance(e, ast.Name) and e.id in env:
        return env[e.id]
    if isinstance(e, ast.BinOp) and isinstance(e.op, (ast.Add, ast.Sub, ast.Mult)):
        a, b = eval_int(e.left, env), eval_int(e.right, env)
        if a is None or b is None:
            return None
        return a + b if isinstance(e.op, ast.Add) else a - b if isinstance(e.op, ast.Sub) else a * b
    if isinstance(e, ast.UnaryOp) and isinstance(e.op, ast.USub):
        a = eval_int(e.operand, env)
        return None if a is None else -a
    return None


def funcstate_kinds(ix, name, what='return', depth=0):
    """Kinds (continue/break/return/error) a FunctionState label accessor returns (what='return') or stores its
    argument into (what='store'), in order.  Resolved from the method body, never assumed."""
    fs = ix.cls('Code', 'FunctionState')
    if name not in fs.methods or depth > 3:
        raise AnalysisError('Code.FunctionState.%s not found' % name)
    fn = fs.methods[name]
    env = local_assigns(fn)
    if what == 'store':
        for n in walk_no_nested(fn):
            if isinstance(n, ast.Assign) and len(n.targets) == 1 and isinstance(n.targets[0], (ast.Tuple, ast.List)) and \
                    isinstance(n.value, ast.Name) and n.value.id in [a.arg for a in fn.args.args[1:]]:
                ks = [label_kind(t) if is_self_attr(t) else None for t in n.targets[0].elts]
                if all(ks):
                    return tuple(ks)
        raise AnalysisError('Code.FunctionState.%s: cannot see which label slots it assigns' % name)
    rets = [n for n in walk_no_nested(fn) if isinstance(n, ast.Return) and n.value is not None]
    if len(rets) != 1:
        raise AnalysisError('Code.FunctionState.%s: expected one return' % name)
    v = rets[0].value
    if isinstance(v, ast.Name):
        # the returned local must have been bound before the slots are overwritten: take its (single) definition
        if len(env.get(v.id, ())) != 1:
            raise AnalysisError('Code.FunctionState.%s: returned name %s is not bound exactly once' % (name, v.id))
        v = env[v.id][0]
    if isinstance(v, ast.Tuple):
        ks = [label_kind(t) if is_self_attr(t) else None for t in v.elts]
        if all(ks):
            return tuple(ks)
    if is_self_attr(v) and label_kind(v):
        return (label_kind(v),)
    if isinstance(v, ast.Call) and is_self_attr(v.func) and not v.args:
        return funcstate_kinds(ix, v.func.attr, 'return', depth + 1)
    raise AnalysisError('Code.FunctionState.%s: cannot resolve what it returns (%s)' % (name, node_src(v, 60)))


def writer_delegates(ix, name):
    """CCodeWriter.<name> must forward to self.funcstate.<name> (otherwise the FunctionState tables do not apply)."""
    ccw = ix.cls('Code', 'CCodeWriter')
    fn = ccw.methods.get(name)
    if fn is None:
        raise AnalysisError('Code.CCodeWriter.%s vanished' % name)
    for n in walk_no_nested(fn):
        if isinstance(n, ast.Call) and isinstance(n.func, ast.Attribute) and n.func.attr == name and \
                is_self_attr(n.func.value) and n.func.value.attr == 'funcstate':
            return True
    raise AnalysisError('Code.CCodeWriter.%s no longer forwards to self.funcstate.%s' % (name, name))


def stmt_lists(fn):
    """Every statement list of fn (function body, if/else/for/while/try/with bodies) with the chain of enclosing
    (If node, branch) pairs."""
    out = []

    def rec(stmts, guards):
        out.append((stmts, guards))
        for s in stmts:
            if isinstance(s, ast.If):
                rec(s.body, guards + [(s, True)])
                if s.orelse:
                    rec(s.orelse, guards + [(s, False)])
            elif isinstance(s, (ast.For, ast.While)):
                rec(s.body, guards)
                if s.orelse:
                    rec(s.orelse, guards)
            elif isinstance(s, ast.With):
                rec(s.body, guards)
            elif isinstance(s, ast.Try):
                rec(s.body, guards)
                for h in s.handlers:
                    rec(h.body, guards)
                rec(s.orelse, guards)
                rec(s.finalbody, guards)
    rec(fn.body, [])
    return out


def self_call(n, names=None):
    """self.<name>(...) -> name"""
    if isinstance(n, ast.Call) and is_self_attr(n.func) and (names is None or n.func.attr in names):
        return n.func.attr
    return None


# ------------------------------------------------------------------------------------------------ helper inlining
class _Subst(ast.NodeTransformer):
    def __init__(self, mapping):
        self.mapping = mapping

    def visit_Name(self, n):
        if n.id in self.mapping:
            m = self.mapping[n.id]
            if isinstance(m, str):
                return ast.copy_location(ast.Name(id=m, ctx=n.ctx), n)
            if isinstance(n.ctx, ast.Load):
                return ast.copy_location(ast.parse(ast.unparse(m), mode='eval').body, n)
        return n


PROTOCOL_METHODS = ('fetch_parallel_exception', 'restore_parallel_exception', 'trap_parallel_exit', 'end_parallel_control_flow_block',
                    'setup_parallel_control_flow_block', 'restore_labels', 'begin_parallel_block', 'end_parallel_block', 'privatize_temps')


def inline_helpers(ctx, cls, fn, needles, depth=0, skip=PROTOCOL_METHODS):
    """Copy of fn in which every statement `self.<helper>(<simple arguments>)` whose helper (a method of the class family that mentions one
    of the needles and has no return statement) is replaced by the helper's body, parameters substituted by the arguments and helper locals
    renamed.  A behaviour-preserving `extract method` on the analysed code is undone this way; anything else is left as the call."""
    ix = ctx.index
    if depth > 2:
        return fn

    def simple(e):
        return isinstance(e, (ast.Name, ast.Constant)) or (isinstance(e, ast.Attribute) and simple(e.value))

    def expand(stmts):
        out, changed = [], False
        for s in stmts:
            c = s.value if isinstance(s, ast.Expr) else None
            name = self_call(c) if c is not None else None
            helper = None
            if name and name != fn.name and name not in skip and not any(isinstance(a, ast.Starred) for a in c.args) and all(k.arg for k in c.keywords):
                r = ix.find_method(cls, name)
                if r is not None:
                    h = r[1]
                    src = ast.unparse(h)
                    if any(x in src for x in needles) and not any(isinstance(x, (ast.Return, ast.Yield, ast.YieldFrom)) for x in walk_no_nested(h)) \
                            and not h.args.vararg and not h.args.kwarg and all(simple(a) for a in c.args) and all(simple(k.value) for k in c.keywords):
                        helper = h
            if helper is not None:
                params = [a.arg for a in helper.args.posonlyargs + helper.args.args][1:]
                defaults = dict(zip(params[len(params) - len(helper.args.defaults):], helper.args.defaults))
                bound = dict(zip(params, c.args))
                bound.update({k.arg: k.value for k in c.keywords})
                for p_, d in defaults.items():
                    bound.setdefault(p_, d)
                assigned = {x.id for n_ in walk_no_nested(helper) for x in ast.walk(n_) if isinstance(x, ast.Name) and isinstance(x.ctx, ast.Store)}
                if len(c.args) <= len(params) and set(bound) == set(params) and not (assigned & set(params)):
                    mapping = dict(bound)
                    mapping.update({a: '%s__%s' % (a, helper.name) for a in assigned})
                    inner = inline_helpers(ctx, cls, helper, needles, depth + 1, skip)
                    body = [_Subst(mapping).visit(ast.parse(ast.unparse(b)).body[0]) for b in inner.body
                            if not (isinstance(b, ast.Expr) and isinstance(b.value, ast.Constant))]
                    for b in body:
                        for x in ast.walk(b):
                            if hasattr(x, 'lineno'):
                                x.lineno = getattr(x, 'lineno', 0) + helper.lineno - 1
                    out.extend(body or [ast.copy_location(ast.Pass(), s)])
                    changed = True
                    continue
            for field in ('body', 'orelse', 'finalbody'):
                sub = getattr(s, field, None)
                if isinstance(sub, list) and sub and isinstance(sub[0], ast.stmt):
                    new, ch = expand(sub)
                    if ch:
                        setattr(s, field, new)
                        changed = True
            for hnd in getattr(s, 'handlers', []) or []:
                new, ch = expand(hnd.body)
                if ch:
                    hnd.body = new
                    changed = True
            out.append(s)
        return out, changed

    src = ast.unparse(fn)
    if 'self.' not in src:
        return fn
    copy = ast.parse(src).body[0]
    # keep the original line numbers where the shapes agree (ast.unparse/parse preserves the statement structure)
    for a, b in zip(ast.walk(copy), ast.walk(fn)):
        if type(a) is type(b) and hasattr(b, 'lineno'):
            a.lineno, a.col_offset = b.lineno, b.col_offset
            a.end_lineno, a.end_col_offset = getattr(b, 'end_lineno', b.lineno), getattr(b, 'end_col_offset', 0)
    new, changed = expand(copy.body)
    if not changed:
        return fn
    copy.body = new
    ast.fix_missing_locations(copy)
    return copy


# ------------------------------------------------------------------------------------------------ C37-WHY
CMP = {'<': lambda a, b: a < b, '<=': lambda a, b: a <= b, '>': lambda a, b: a > b, '>=': lambda a, b: a >= b,
       '==': lambda a, b: a == b, '!=': lambda a, b: a != b}


def writer_codes(ctx, psn, fn=None):
    """trap_parallel_exit: kind -> exit code stored into parallel_why, plus the enumerate loop and details."""
    ix = ctx.index
    owner, fn = (psn, fn) if fn is not None else method(ix, psn, 'trap_parallel_exit')
    fn = inline_helpers(ctx, psn, fn, ('parallel_why', 'parallel_exc'))
    res = Res(ctx, psn, fn)
    why = res.naming['parallel_why']
    loops = []
    for n in walk_no_nested(fn):
        if isinstance(n, ast.For) and isinstance(n.iter, ast.Call) and isinstance(n.iter.func, ast.Name) and n.iter.func.id == 'enumerate' \
                and isinstance(n.target, ast.Tuple) and len(n.target.elts) == 2 and all(isinstance(t, ast.Name) for t in n.target.elts):
            seq = deref(n.iter.args[0], res.env) if n.iter.args else None
            if isinstance(seq, ast.Call) and isinstance(seq.func, ast.Attribute) and seq.func.attr == 'get_all_labels':
                loops.append(n)
    if len(loops) != 1:
        raise AnalysisError('trap_parallel_exit: expected exactly one `for i, label in enumerate(<code>.get_all_labels())` loop, found %d' % len(loops))
    loop = loops[0]
    writer_delegates(ix, 'get_all_labels')
    kinds = funcstate_kinds(ix, 'get_all_labels')
    start = 0
    if len(loop.iter.args) > 1:
        start = eval_int(loop.iter.args[1], {})
    for k in loop.iter.keywords:
        if k.arg == 'start':
            start = eval_int(k.value, {})
    if start is None:
        raise AnalysisError('trap_parallel_exit: cannot evaluate the enumerate() start value')
    ivar, lvar = loop.target.elts[0].id, loop.target.elts[1].id
    stores = []
    for call, recv, text, ph in emissions(res, loop):
        k = 0
        for m in re.finditer(r'(\xa7)|' + re.escape(why) + r'\s*=(?!=)\s*(\xa7|-?\d+)\s*;', text):
            if m.group(1):
                k += 1
                continue
            if m.group(2) == '\xa7':
                stores.append((call, ph[k]))
                k += 1
            else:
                stores.append((call, ast.Constant(value=int(m.group(2)))))
    if len(stores) != 1:
        raise AnalysisError('trap_parallel_exit: expected exactly one store into %s inside the label loop, found %d' % (why, len(stores)))
    call, expr = stores[0]
    codes = {}
    # integer locals derived from the loop index inside the loop body (`k = i + 1`)
    derived = [(n.targets[0].id, n.value) for n in sorted(walk_no_nested(loop), key=lambda x: getattr(x, 'lineno', 0))
               if isinstance(n, ast.Assign) and len(n.targets) == 1 and isinstance(n.targets[0], ast.Name)]
    for j, kind in enumerate(kinds):
        env = {ivar: j + start}
        for nm, val in derived:
            x = eval_int(val, env)
            if x is not None and nm != ivar:
                env[nm] = x
        v = eval_int(expr, env)
        if v is None:
            raise AnalysisError('trap_parallel_exit: cannot evaluate the exit code expression %s' % node_src(expr))
        codes[kind] = v
    return dict(codes=codes, kinds=kinds, loop=loop, fn=fn, owner=owner, store=call, expr=expr, label_var=lvar, res=res)


def guard_kind_of_if(test, label_var):
    """`label == code.K_label` -> ('==', K); `label != code.K_label` -> ('!=', K)"""
    if isinstance(test, ast.Compare) and len(test.ops) == 1:
        a, b = test.left, test.comparators[0]
        for x, y in ((a, b), (b, a)):
            if isinstance(x, ast.Name) and x.id == label_var and label_kind(y):
                if isinstance(test.ops[0], ast.Eq):
                    return ('==', label_kind(y))
                if isinstance(test.ops[0], ast.NotEq):
                    return ('!=', label_kind(y))
    return None


def used_flag_kinds(w):
    """self.X assigned inside the label-usage loops of trap_parallel_exit -> ('==', K) / ('!=', K) / ('any',)"""
    fn, lvar = w['fn'], w['label_var']
    out = {}
    for stmts, guards in stmt_lists(fn):
        for s in stmts:
            if not (isinstance(s, ast.Assign) and len(s.targets) == 1 and is_self_attr(s.targets[0])):
                continue
            attr = s.targets[0].attr
            v = s.value
            cmp = None
            for x in ast.walk(v):
                g = guard_kind_of_if(x, lvar)
                if g:
                    cmp = g
            if cmp is None and isinstance(v, ast.Constant) and v.value is True:
                # `self.X = True` inside `if label == code.K_label:` (innermost such guard)
                for node, branch in reversed(guards):
                    g = guard_kind_of_if(node.test, lvar)
                    if g and branch:
                        cmp = g
                        break
            if cmp is not None:
                out.setdefault(attr, set()).add(cmp)
    return out


def rule_why(ctx):
    ix = ctx.index
    r = Rule('C37-WHY', 'exit codes stored into parallel_why by trap_parallel_exit (index in get_all_labels() order + offset) agree with the '
             '`case N:` targets, the prefer-error store, the body/else guards and the flags that enable each case', floor=14)
    psn = ix.cls('Nodes', 'ParallelStatNode')
    rel = psn.module.rel
    w = writer_codes(ctx, psn)
    codes = w['codes']
    for k in ('continue', 'break', 'return', 'error'):
        if k not in codes:
            raise AnalysisError('get_all_labels() does not return a %s label' % k)
    why = w['res'].naming['parallel_why']
    r.inst('why:codes', sample='parallel_why codes written: %s' % sorted(codes.items(), key=lambda kv: kv[1]))
    if len(set(codes.values())) != len(codes) or 0 in codes.values():
        r.violate('why:codes:distinct', rel, w['store'].lineno,
                  'trap_parallel_exit stores exit codes %r into %s: they must be distinct and non-zero (0 = section left normally), '
                  'otherwise two exit reasons are confused after the parallel section' % (codes, why))

    # ---- fetch happens for the error label only, and for every error exit
    flags = used_flag_kinds(w)
    fetch_sites = []
    for stmts, guards in stmt_lists(w['fn']):
        for s in stmts:
            for c in pyflow.calls_in(s) if not isinstance(s, (ast.If, ast.For, ast.While, ast.With, ast.Try)) else []:
                if self_call(c, ('fetch_parallel_exception',)):
                    gk = [guard_kind_of_if(node.test, w['label_var']) for node, br in guards if br]
                    fetch_sites.append((c, [g for g in gk if g]))
    r.inst('why:fetch-on-error', sample='fetch_parallel_exception guarded by %s' % [g for _, gs in fetch_sites for g in gs])
    if not fetch_sites:
        r.violate('why:fetch-on-error', rel, w['fn'].lineno,
                  'trap_parallel_exit never calls fetch_parallel_exception: an exception raised inside the parallel section is lost (and stays set in a worker thread state)')
    for c, gs in fetch_sites:
        if ('==', 'error') not in gs:
            r.violate('why:fetch-on-error', rel, c.lineno,
                      'fetch_parallel_exception is emitted under %s instead of `label == code.error_label`: the exception of a raising iteration is not '
                      'saved (or a fetch runs on a non-error exit)' % (gs or 'no label test'))

    # ---- reader: case N -> goto K_label
    owner, endfn = method(ix, psn, 'end_parallel_control_flow_block')
    res = Res(ctx, psn, endfn)
    exc_type = res.naming['parallel_exc_type']
    params = [a.arg for a in endfn.args.args + endfn.args.kwonlyargs]
    cases = []
    prefer = []
    inits = []
    for stmts, guards in stmt_lists(endfn):
        pending = None
        seen_exc_test = False
        between = []
        for s in stmts:
            if isinstance(s, (ast.If, ast.For, ast.While, ast.With, ast.Try)):
                continue
            for c in pyflow.calls_in(s):
                ec = emit_call(c)
                if ec is not None:
                    t = res.template(ec[1])
                    if t is None:
                        continue
                    text = t[0]
                    if re.search(r'\bif\s*\(\s*(?:\w+\s*\(\s*)?' + re.escape(exc_type) + r'\s*\)', text):
                        seen_exc_test = True
                    for m in re.finditer(r'\bcase\s+(-?\d+)\s*:', text):
                        if pending is not None:
                            raise AnalysisError('end_parallel_control_flow_block: `case %d:` is not followed by a put_goto in the same block' % pending[0])
                        pending = (int(m.group(1)), c)
                        between = []
                    for m in re.finditer(re.escape(why) + r'\s*=(?!=)\s*(-?\d+)\s*;', text):
                        v = int(m.group(1))
                        if seen_exc_test:
                            prefer.append((v, c))
                        else:
                            inits.append((v, c))
                    continue
                if isinstance(c.func, ast.Attribute) and c.func.attr == 'put_goto' and c.args and pending is not None:
                    k = label_kind(c.args[0])
                    if k is None:
                        raise AnalysisError('end_parallel_control_flow_block: cannot classify the goto target %s' % node_src(c.args[0]))
                    guard = guards[-1] if guards else None
                    cases.append(dict(n=pending[0], kind=k, call=c, guard=guard, between=list(between)))
                    pending = None
                elif pending is not None:
                    between.append(c)
        if pending is not None:
            raise AnalysisError('end_parallel_control_flow_block: `case %d:` is not followed by a put_goto in the same block' % pending[0])
    if len(cases) < 3:
        raise AnalysisError('end_parallel_control_flow_block: only %d `case N:` dispatch entries found' % len(cases))
    seen_n = {}
    for cs in cases:
        key = 'why:case:%s' % cs['kind']
        r.inst(key, sample='case %d -> goto %s_label (writer stores %s)' % (cs['n'], cs['kind'], codes.get(cs['kind'])))
        if codes.get(cs['kind']) != cs['n']:
            wk = [k for k, v in codes.items() if v == cs['n']]
            r.violate(key, rel, cs['call'].lineno,
                      'end_parallel_control_flow_block dispatches `case %d` to code.%s_label but trap_parallel_exit stores %d for %s (and %s for %s): '
                      'after the parallel section a %s is turned into a %s' % (
                          cs['n'], cs['kind'], cs['n'], '/'.join(wk) or 'no exit', codes.get(cs['kind']), cs['kind'],
                          '/'.join(wk) or 'normal exit', cs['kind']))
        if cs['n'] in seen_n:
            r.violate('why:case:dup:%d' % cs['n'], rel, cs['call'].lineno, '`case %d` is emitted twice (for %s and %s): invalid C switch' % (cs['n'], seen_n[cs['n']], cs['kind']))
        seen_n[cs['n']] = cs['kind']
        # the flag that enables the case
        g = cs['guard']
        fkey = 'why:flag:%s' % cs['kind']
        if g is None or not g[1]:
            raise AnalysisError('end_parallel_control_flow_block: `case %d` is not inside the true branch of an `if <flag>:`' % cs['n'])
        test = g[0].test
        if isinstance(test, ast.Name) and test.id in params:
            sites = _flag_sites(ctx, psn, test.id, params, w, flags)
            r.inst(fkey, sample='case %d enabled by parameter %s; passed at %d call site(s): %s' % (cs['n'], test.id, len(sites), [s[2] for s in sites]))
            for cls, call, got in sites:
                if got != ('==', cs['kind']):
                    r.violate('%s:%s' % (fkey, cls.name), cls.module.rel, call.lineno,
                              '%s passes %s=<%s label usage> to end_parallel_control_flow_block, but %s enables `case %d: goto %s_label`: '
                              'a %s inside the parallel section is dropped (or an unused label is jumped to)' % (
                                  cls.name, test.id, ' '.join(got), test.id, cs['n'], cs['kind'], cs['kind']))
        elif is_self_attr(test):
            got = flags.get(test.attr)
            r.inst(fkey, sample='case %d enabled by self.%s which trap_parallel_exit sets for %s' % (cs['n'], test.attr, sorted(got or ())))
            if not got:
                raise AnalysisError('cannot see where trap_parallel_exit sets self.%s' % test.attr)
            if got != {('==', cs['kind'])}:
                r.violate(fkey, rel, g[0].lineno,
                          '`case %d: goto %s_label` is enabled by self.%s, which trap_parallel_exit sets for label test %s' % (cs['n'], cs['kind'], test.attr, sorted(got)))
        else:
            r.info('end_parallel_control_flow_block: flag %s of case %d is not a plain parameter test (dispatch decided by C37-EMIT)' % (node_src(test), cs['n']))
            continue
        if cs['kind'] == 'error':
            r.inst('why:error:restore', sample='error case re-raises through %s' % [self_call(c) for c in cs['between'] if self_call(c)])
            if not any(self_call(c, ('restore_parallel_exception',)) for c in cs['between']):
                r.violate('why:error:restore', rel, cs['call'].lineno,
                          'the error case jumps to the error label without restore_parallel_exception(): the saved exception object leaks and no exception is set')
    if 'error' not in seen_n.values():
        r.violate('why:case:error', rel, endfn.lineno, 'end_parallel_control_flow_block has no case for the error exit code %d' % codes['error'])
    if 'return' not in seen_n.values():
        r.violate('why:case:return', rel, endfn.lineno, 'end_parallel_control_flow_block has no case for the return exit code %d' % codes['return'])

    # ---- prefer-error store
    r.inst('why:prefer-error', sample='stores after `if (%s)`: %s' % (exc_type, [v for v, _ in prefer]))
    if not prefer:
        # The store is looked for syntactically in this one method.  Moving it into a helper is behaviour preserving; C37-EMIT
        # (rules/sC37.py) decides the same obligation by interpreting helpers in place, so absence here is only informational.
        r.info('prefer-error store not found syntactically in end_parallel_control_flow_block (decided by C37-EMIT)')
    if False:
        r.violate('why:prefer-error', rel, endfn.lineno,
                  'end_parallel_control_flow_block no longer overrides %s when %s is set: a break/return in another thread can overwrite the '
                  'error code, the exception is dropped and the saved exception object leaks' % (why, exc_type))
    for v, c in prefer:
        if v != codes['error']:
            r.violate('why:prefer-error', rel, c.lineno,
                      'when an exception was saved, %s is set to %d but the error exit code is %d (%d means %s): the exception does not win' % (
                          why, v, codes['error'], v, '/'.join(k for k, x in codes.items() if x == v) or 'nothing'))
    r.inst('why:init', sample='initial values: %s' % [v for v, _ in inits])
    for v, c in inits:
        if v in codes.values():
            r.violate('why:init', rel, c.lineno, '%s is initialised to %d, which is the exit code of %s' % (why, v, [k for k, x in codes.items() if x == v]))

    # ---- guards `if (why <op> N)`
    guards_found = []
    for cls in [psn] + ix.subclasses(psn):
        for name, fn in cls.methods.items():
            # a guard protects the loop body / else clause generated by the same method; a comparison of the exit code elsewhere (e.g. the
            # `if (why != 0)` around the dispatch switch) has a different obligation, decided by C37-SEQ place:dispatch
            if not any(isinstance(x, ast.Call) and isinstance(x.func, ast.Attribute) and x.func.attr == 'generate_execution_code' and is_self_attr(x.func.value)
                       and x.func.value.attr in ('body', 'else_clause') for x in walk_no_nested(fn)):
                continue
            rs = Res(ctx, cls, fn)
            for call, recv, text, ph in emissions(rs, fn):
                for m in re.finditer(r'\bif\s*\(\s*' + re.escape(why) + r'\s*(<=|>=|==|!=|<|>)\s*(-?\d+)\s*\)', text):
                    guards_found.append((cls, name, fn, call, m.group(1), int(m.group(2))))
    for cls, name, fn, call, op, n in guards_found:
        key = 'why:guard:%s.%s' % (cls.name, name)
        runs = {k: CMP[op](v, n) for k, v in codes.items()}
        runs['normal'] = CMP[op](0, n)
        r.inst(key, sample='%s.%s emits `if (%s %s %d)` -> body runs for %s' % (cls.name, name, why, op, n, sorted(k for k, v in runs.items() if v)))
        want = {'normal': True, 'continue': True, 'break': False, 'return': False, 'error': False}
        if runs != want:
            wrong = sorted(k for k in want if runs[k] != want[k])
            r.violate(key, cls.module.rel, call.lineno,
                      '%s.%s guards code with `if (%s %s %d)`; with the exit codes %r the guarded code %s: after a break/return/exception the '
                      'remaining iterations (or the else clause) must be skipped, after continue/normal completion they must run' % (
                          cls.name, name, why, op, n, codes,
                          ', '.join('%s after %s' % ('runs' if runs[k] else 'is skipped', k) for k in wrong)))
    # the loop body and the else clause each need such a guard
    prn = ix.cls('Nodes', 'ParallelRangeNode')
    for cls in [prn] + ix.subclasses(prn):
        for name, fn in cls.methods.items():
            has_trap = any(self_call(c, ('trap_parallel_exit',)) for c in walk_no_nested(fn))
            else_calls = [c for c in walk_no_nested(fn) if isinstance(c, ast.Call) and isinstance(c.func, ast.Attribute) and
                          c.func.attr == 'generate_execution_code' and is_self_attr(c.func.value) and c.func.value.attr == 'else_clause']
            mine = [g for g in guards_found if g[2] is fn]
            if has_trap:
                r.inst('why:body-guard:%s.%s' % (cls.name, name), sample='%s.%s traps exits of a loop body; guards: %d' % (cls.name, name, len(mine)))
                if not mine:
                    r.violate('why:body-guard:%s.%s' % (cls.name, name), cls.module.rel, fn.lineno,
                              '%s.%s generates the prange loop body without an `if (%s < %d)` guard: iterations keep running after a break, return or exception '
                              '(also in the sequential, non-OpenMP build)' % (cls.name, name, why, codes['break']))
            for ec in else_calls:
                r.inst('why:else-guard:%s.%s' % (cls.name, name), sample='%s.%s generates the else clause' % (cls.name, name))
                if not any(g[3].lineno < ec.lineno for g in mine):
                    r.violate('why:else-guard:%s.%s' % (cls.name, name), cls.module.rel, ec.lineno,
                              '%s.%s generates the else clause of a prange loop without a preceding `if (%s < %d)` guard: the else clause also runs after break/return/exception' % (
                                  cls.name, name, why, codes['break']))
    # positive control: an off-by-one writer against today's reader
    r.positive_control(CMP['<'](codes['break'] - 1, codes['break']) and not CMP['<'](codes['break'], codes['break']) and
                       eval_int(ast.parse('i + 2', mode='eval').body, {'i': 0}) == 2, 'shifted exit code / guard evaluation')
    return r


def _flag_sites(ctx, psn, pname, params, w, flags):
    """Call sites of end_parallel_control_flow_block that pass parameter pname: (class, call, resolved label usage)."""
    ix = ctx.index
    out = []
    for cls in [psn] + ix.subclasses(psn):
        for name, fn in cls.methods.items():
            env = local_assigns(fn)
            for c in walk_no_nested(fn):
                if not self_call(c, ('end_parallel_control_flow_block',)):
                    continue
                val = None
                for k in c.keywords:
                    if k.arg == pname:
                        val = k.value
                idx = params.index(pname) - 1   # minus self
                if val is None and idx < len(c.args):
                    val = c.args[idx]
                if val is None:
                    continue
                v = deref(val, env)
                got = None
                if isinstance(v, ast.Call) and isinstance(v.func, ast.Attribute) and v.func.attr == 'label_used' and v.args and label_kind(v.args[0]):
                    got = ('==', label_kind(v.args[0]))
                elif is_self_attr(v) and v.attr in flags and len(flags[v.attr]) == 1:
                    got = next(iter(flags[v.attr]))
                elif isinstance(v, ast.Constant) and v.value is False:
                    continue
                if got is None:
                    raise AnalysisError('%s.%s: cannot resolve what is passed as %s (%s)' % (cls.name, name, pname, node_src(val, 60)))
                out.append((cls, c, got))
    return out


# ------------------------------------------------------------------------------------------------ C37-LBL
def rule_labels(ctx):
    ix = ctx.index
    r = Rule('C37-LBL', 'label slots saved by setup_parallel_control_flow_block are restored slot-for-slot by restore_labels, and every '
             'generate_execution_code runs setup -> body -> trap -> (label usage reads) -> restore -> else clause / end block in that order', floor=10)
    psn = ix.cls('Nodes', 'ParallelStatNode')
    rel = psn.module.rel
    _, setup = method(ix, psn, 'setup_parallel_control_flow_block')
    _, restore = method(ix, psn, 'restore_labels')
    # (a) what is saved where
    saved = {}
    order = []
    for n in sorted(walk_no_nested(setup), key=lambda x: (getattr(x, 'lineno', 0), getattr(x, 'col_offset', 0))):
        if isinstance(n, ast.Assign) and len(n.targets) == 1 and is_self_attr(n.targets[0]):
            v = n.value
            if isinstance(v, ast.Call) and isinstance(v.func, ast.Attribute) and v.func.attr in ('new_loop_labels', 'new_error_label', 'all_new_labels',
                                                                                                   'get_loop_labels', 'get_all_labels'):
                writer_delegates(ix, v.func.attr)
                saved[n.targets[0].attr] = funcstate_kinds(ix, v.func.attr)
                order.append(n)
            elif label_kind(v) and isinstance(v.value, ast.Name):
                saved[n.targets[0].attr] = (label_kind(v),)
                order.append(n)
    if len(saved) < 2:
        raise AnalysisError('setup_parallel_control_flow_block: label saves not found')
    # a direct save of code.K_label must precede any later re-assignment of that slot (it does by construction of Assign
    # order); what matters is that it is not taken AFTER the slot was replaced
    replaced = set()
    for n in sorted(walk_no_nested(setup), key=lambda x: (getattr(x, 'lineno', 0), getattr(x, 'col_offset', 0))):
        if isinstance(n, ast.Assign) and len(n.targets) == 1:
            t, v = n.targets[0], n.value
            if is_self_attr(t) and label_kind(v) and isinstance(v.value, ast.Name) and label_kind(v) in replaced:
                r.violate('lbl:save-after-replace:%s' % t.attr, rel, n.lineno,
                          'self.%s is saved from code.%s_label after that slot was already replaced: the outer label is lost' % (t.attr, label_kind(v)))
            if isinstance(t, ast.Attribute) and isinstance(t.value, ast.Name) and t.value.id != 'self' and label_kind(t):
                replaced.add(label_kind(t))
            if isinstance(v, ast.Call) and isinstance(v.func, ast.Attribute) and v.func.attr in ('new_loop_labels', 'new_error_label', 'all_new_labels'):
                replaced.update(funcstate_kinds(ix, v.func.attr))
    # all four slots must be replaced by fresh labels inside the section (otherwise an exit is not trapped)
    for k in ('continue', 'break', 'return', 'error'):
        r.inst('lbl:fresh:%s' % k, sample='%s label replaced by a fresh one in setup: %s' % (k, k in replaced))
        if k not in replaced:
            r.violate('lbl:fresh:%s' % k, rel, setup.lineno,
                      'setup_parallel_control_flow_block does not install a fresh %s label: a %s inside the parallel section jumps straight out of the OpenMP region' % (k, k))
    # (b) restore: set_all_labels(<expr>) / set_loop_labels / direct assignment
    restored_from = {}
    for n in walk_no_nested(restore):
        if isinstance(n, ast.Call) and isinstance(n.func, ast.Attribute) and n.func.attr in ('set_all_labels', 'set_loop_labels') and n.args:
            writer_delegates(ix, n.func.attr)
            slots = funcstate_kinds(ix, n.func.attr, 'store')
            src = _flatten_saved(n.args[0], saved, local_assigns(restore))
            if src is None:
                raise AnalysisError('restore_labels: cannot resolve %s' % node_src(n.args[0]))
            if len(src) != len(slots):
                r.violate('lbl:restore:arity', rel, n.lineno, 'restore_labels passes %d labels to %s, which assigns %d slots' % (len(src), n.func.attr, len(slots)))
                continue
            for slot, (attr, kind) in zip(slots, src):
                restored_from[slot] = (attr, kind, n)
        if isinstance(n, ast.Assign) and len(n.targets) == 1 and label_kind(n.targets[0]) and not is_self_attr(n.targets[0]) and is_self_attr(n.value):
            attr = n.value.attr
            if attr in saved and len(saved[attr]) == 1:
                restored_from[label_kind(n.targets[0])] = (attr, saved[attr][0], n)
    for k in ('continue', 'break', 'return', 'error'):
        key = 'lbl:restore:%s' % k
        got = restored_from.get(k)
        r.inst(key, sample='%s slot restored from %s' % (k, got[:2] if got else None))
        if got is None:
            if k in replaced:
                r.violate(key, rel, restore.lineno, 'restore_labels does not restore the %s label replaced by setup_parallel_control_flow_block: '
                          'code after the parallel section jumps into it' % k)
        elif got[1] != k:
            r.violate(key, rel, got[2].lineno,
                      'restore_labels puts the saved %s label (self.%s) into the %s slot: a %s after the parallel section jumps to the %s target' % (
                          got[1], got[0], k, k, got[1]))

    # (c) protocol order in every generate_execution_code that calls setup
    traps = set()
    for cls in [psn] + ix.subclasses(psn):
        for name, fn in cls.methods.items():
            if any(self_call(c, ('trap_parallel_exit',)) for c in walk_no_nested(fn)):
                traps.add((cls.name, name))
    n_proto = 0
    for cls in [psn] + ix.subclasses(psn):
        for name, fn in cls.methods.items():
            if not any(self_call(c, ('setup_parallel_control_flow_block',)) for c in walk_no_nested(fn)):
                continue
            n_proto += 1
            key = 'lbl:order:%s.%s' % (cls.name, name)
            bad = protocol_problems(ix, cls, fn, traps)
            r.inst(key, sample='%s.%s protocol problems: %s' % (cls.name, name, sorted(bad) or 'none'))
            for what, line in sorted(bad):
                r.violate('%s:%s' % (key, what), cls.module.rel, line, '%s.%s: %s' % (cls.name, name, PROTO_MSG[what]))
    if n_proto < 2:
        raise AnalysisError('fewer than two generate_execution_code methods use setup_parallel_control_flow_block')
    # body before trap
    for cname, name in sorted(traps):
        cls = ix.cls('Nodes', cname)
        fn = cls.methods[name]
        key = 'lbl:body-before-trap:%s.%s' % (cname, name)
        bad = body_before_trap(fn)
        r.inst(key, sample=key)
        for line in sorted(bad):
            r.violate(key, cls.module.rel, line,
                      '%s.%s calls trap_parallel_exit on a path where the body has not been generated yet: no label is marked used at that point, so no exit is trapped' % (cname, name))
    pc = ast.parse("def generate_execution_code(self, code):\n    self.setup_parallel_control_flow_block(code)\n    self.body.generate_execution_code(code)\n"
                   "    self.trap_parallel_exit(code)\n    self.end_parallel_control_flow_block(code)\n    self.restore_labels(code)\n").body[0]
    r.positive_control(any(w == 'end-before-restore' for w, _ in protocol_problems(ix, psn, pc, {('ParallelStatNode', 'trap_parallel_exit')})), 'end block before restore_labels')
    return r


PROTO_MSG = {
    'trap-outside': 'trap_parallel_exit runs outside the setup..restore_labels window: it would trap the labels of the enclosing construct',
    'restore-without-trap': 'restore_labels runs before the exits of the section were trapped (or without setup): the fresh labels are never placed',
    'end-before-restore': 'end_parallel_control_flow_block runs before restore_labels: its `goto` targets would be the labels inside the parallel section instead of the enclosing ones',
    'else-before-restore': 'the else clause is generated before restore_labels: a break/continue/return inside it would jump into the parallel section',
    'used-after-restore': 'code.label_used(code.<kind>_label) is read outside the setup..restore_labels window: it reports the usage of the enclosing label, not of the trapped one',
    'no-restore': 'a path leaves the method after setup_parallel_control_flow_block without restore_labels + end_parallel_control_flow_block: the label context of the enclosing code stays replaced',
}


def _flatten_saved(e, saved, env=None):
    """self.A + (self.B, self.C) -> [(attr, kind), ...]"""
    e = deref(e, env or {})
    if is_self_attr(e) and e.attr in saved:
        return [(e.attr, k) for k in saved[e.attr]]
    if isinstance(e, (ast.Tuple, ast.List)):
        out = []
        for x in e.elts:
            if is_self_attr(x) and x.attr in saved and len(saved[x.attr]) == 1:
                out.append((x.attr, saved[x.attr][0]))
            else:
                return None
        return out
    if isinstance(e, ast.BinOp) and isinstance(e.op, ast.Add):
        a, b = _flatten_saved(e.left, saved, env), _flatten_saved(e.right, saved, env)
        return None if a is None or b is None else a + b
    return None


def protocol_problems(ix, cls, fn, traps):
    """Forward dataflow over one generate_execution_code: facts S(etup) T(rapped) R(estored) E(nded)."""
    def trap_like(c):
        nm = self_call(c)
        if nm is None:
            return False
        if nm == 'trap_parallel_exit':
            return True
        m = ix.find_method(cls, nm)
        return bool(m and (m[0].name, nm) in traps and nm != fn.name)

    def tr(node, state):
        s = set(state)
        for c in pyflow.calls_in(node):
            nm = self_call(c)
            if nm == 'setup_parallel_control_flow_block':
                s |= {'S'}
                s -= {'T', 'R', 'E'}
            elif trap_like(c):
                if 'S' not in s or 'R' in s:
                    s.add(('BAD', 'trap-outside', c.lineno))
                s.add('T')
            elif nm == 'restore_labels':
                if 'S' not in s or 'T' not in s:
                    s.add(('BAD', 'restore-without-trap', c.lineno))
                s.add('R')
            elif nm == 'end_parallel_control_flow_block':
                if 'R' not in s:
                    s.add(('BAD', 'end-before-restore', c.lineno))
                s.add('E')
            elif isinstance(c.func, ast.Attribute) and c.func.attr == 'generate_execution_code' and is_self_attr(c.func.value) and c.func.value.attr == 'else_clause':
                if 'R' not in s:
                    s.add(('BAD', 'else-before-restore', c.lineno))
            elif isinstance(c.func, ast.Attribute) and c.func.attr == 'label_used' and c.args and label_kind(c.args[0]) and not is_self_attr(c.args[0]):
                if 'S' not in s or 'R' in s:
                    s.add(('BAD', 'used-after-restore', c.lineno))
        return frozenset(s)
    o = pyflow.Flow(tr, correlate=True).run(fn)
    bad = set()
    for st in o.normal | o.returns:
        for f in st:
            if isinstance(f, tuple) and f[0] == 'BAD':
                bad.add((f[1], f[2]))
        if 'S' in st and not ('R' in st and 'E' in st):
            bad.add(('no-restore', fn.lineno))
    return bad


def body_before_trap(fn):
    env = local_assigns(fn)

    def tr(node, state):
        s = set(state)
        for c in pyflow.calls_in(node):
            recv = deref(c.func.value, env) if isinstance(c.func, ast.Attribute) else None       # `b = self.body; b.generate_execution_code(code)`
            if recv is not None and c.func.attr == 'generate_execution_code' and is_self_attr(recv) and recv.attr == 'body':
                s.add('B')
            if self_call(c, ('trap_parallel_exit',)) and 'B' not in s:
                s.add(('BAD', c.lineno))
        return frozenset(s)
    o = pyflow.Flow(tr).run(fn)
    return {f[1] for st in o.normal | o.returns for f in st if isinstance(f, tuple) and f[0] == 'BAD'}


# ------------------------------------------------------------------------------------------------ C37-EXC
PAIRS = (('begin_block', 'end_block', 'block'),
         ('put_ensure_gil', 'put_release_ensured_gil', 'gil'),
         ('put_acquire_freethreading_lock', 'put_release_freethreading_lock', 'lock'))


def handoff_events(ctx, cls, fn):
    """Linear event list of a straight-line hand-off method: ('open'|'close', what, node), ('text', text, node),
    ('ref', 'gotref'|'giveref', cname, node).  Raises AnalysisError when the method is no longer straight-line."""
    res = Res(ctx, cls, fn)
    body = _unroll_static_loops(res, fn.body)
    if body is None:
        return None, res
    ev = []
    for s, bind in body:
        saved = dict(res.env)
        res.env.update({k: [v] for k, v in bind.items()})
        try:
            _handoff_stmt(res, s, ev)
        finally:
            res.env.clear()
            res.env.update(saved)
    return ev, res


def _unroll_static_loops(res, stmts, bind=None, depth=0):
    """Straight-line statement list with `for <names> in <sequence known at analysis time>` loops unrolled:
    [(statement, {loop variable: element expression})], or None when other control flow is met."""
    out = []
    bind = bind or {}
    for s in stmts:
        if isinstance(s, ast.For) and not s.orelse and depth < 3:
            saved = dict(res.env)
            res.env.update({k: [v] for k, v in bind.items()})
            try:
                rows = _static_rows(res, s.iter)
            finally:
                res.env.clear()
                res.env.update(saved)
            tgts = [s.target] if isinstance(s.target, ast.Name) else list(s.target.elts) if isinstance(s.target, (ast.Tuple, ast.List)) else None
            if rows is None or tgts is None or not all(isinstance(t, ast.Name) for t in tgts) or any(len(r) != len(tgts) for r in rows):
                return None
            if any(isinstance(x, (ast.Break, ast.Continue, ast.Return)) for b in s.body for x in ast.walk(b)):
                return None
            for row in rows:
                b2 = dict(bind)
                b2.update({t.id: e for t, e in zip(tgts, row)})
                sub = _unroll_static_loops(res, s.body, b2, depth + 1)
                if sub is None:
                    return None
                out.extend(sub)
        elif isinstance(s, (ast.If, ast.For, ast.While, ast.Try, ast.With)):
            return None
        else:
            out.append((s, bind))
    return out


def _static_rows(res, it):
    """Rows of element expressions a for loop iterates over: a resolvable tuple, or zip() of resolvable tuples."""
    if isinstance(it, ast.Call) and isinstance(it.func, ast.Name) and it.func.id == 'zip' and it.args and not it.keywords:
        cols = [res.seq(a) for a in it.args]
        if any(c is None for c in cols):
            return None
        return [list(r) for r in zip(*cols)]
    s = res.seq(it)
    return None if s is None else [[e] for e in s]


def _handoff_stmt(res, s, ev):
    """Events of one straight-line statement of a hand-off method (appended to ev)."""
    for c in pyflow.calls_in(s):
        if not isinstance(c.func, ast.Attribute):
            continue
        a = c.func.attr
        for op, cl, what in PAIRS:
            if a == op:
                ev.append(('open', what, c))
            elif a == cl:
                ev.append(('close', what, c))
        ec = emit_call(c)
        if ec is not None:
            t = res.template(ec[1])
            if t is not None:
                ev.append(('text', t[0], c))
        if a in ('put_gotref', 'put_xgotref', 'put_giveref', 'put_xgiveref') and c.args:
            ev.append(('ref', 'gotref' if 'gotref' in a else 'giveref', res.atom(c.args[0]), c))


def check_handoff(ev, op_re, exc_names, guard_required):
    """-> list of (key, node, message) problems for one hand-off method."""
    problems = []
    depth = {'block': 0, 'gil': 0, 'lock': 0}
    first_guard = None
    op_seen = None
    open_braces = 0
    guard_depth = None
    for e in ev:
        if e[0] == 'open':
            depth[e[1]] += 1
            if e[1] == 'gil' and depth['block'] < 1:
                problems.append(('gil-outside-block', e[2], 'acquires the GIL outside the C block that declares the gilstate variable'))
        elif e[0] == 'close':
            depth[e[1]] -= 1
            if depth[e[1]] < 0:
                problems.append(('unbalanced:' + e[1], e[2], 'closes %s that is not open' % e[1]))
                depth[e[1]] = 0
            if e[1] == 'block' and (depth['gil'] > 0 or depth['lock'] > 0) and depth['block'] == 0:
                problems.append(('block-closed-early', e[2], 'ends the C block while the GIL / the free-threading lock is still held (the release would use an undeclared gilstate variable)'))
        elif e[0] == 'text':
            text = e[1]
            if any(re.search(r'\bif\s*\(\s*(?:\w+\s*\(\s*)?!\s*' + re.escape(n) + r'\b', text) or
                   re.search(re.escape(n) + r'\s*==\s*(?:NULL|0)\b', text) for n in exc_names[:2]):
                if first_guard is None:
                    first_guard = e
                    guard_depth = open_braces
                    if depth['lock'] < 1:
                        problems.append(('guard-outside-lock', e[2], 'tests the shared exception slot without holding the free-threading lock: two threads can both see it empty'))
            if re.search(op_re, text):
                op_seen = e
                if depth['gil'] < 1:
                    problems.append(('op-outside-gil', e[2], 'moves the exception between thread state and the shared slots without holding the GIL'))
                if depth['lock'] < 1:
                    problems.append(('op-outside-lock', e[2], 'accesses the shared exception slots without holding the free-threading lock (data race in free-threaded builds)'))
                if guard_required and (first_guard is None or open_braces <= guard_depth):
                    problems.append(('unguarded-fetch', e[2], 'fetches into the shared exception slots without the `if (!%s)` first-exception-wins guard: a second '
                                     'raising thread overwrites the saved exception, whose references leak' % exc_names[0]))
            open_braces += text.count('{') - text.count('}')
        elif e[0] == 'ref':
            if depth['gil'] < 1:
                problems.append(('ref-outside-gil', e[3], 'does reference bookkeeping without the GIL'))
    for what, d in depth.items():
        if d != 0:
            problems.append(('unbalanced:' + what, ev[-1][2] if ev else None, 'leaves %s open at the end (depth %d)' % (what, d)))
    if op_seen is None:
        problems.append(('no-op', ev[0][2] if ev else None, 'no longer emits the exception transfer call matching %s' % op_re))
    return problems, op_seen


def rule_handoff(ctx):
    ix = ctx.index
    r = Rule('C37-EXC', 'fetch_parallel_exception / restore_parallel_exception: C block, GIL and free-threading lock brackets balance; the exception '
             'transfer and the shared-slot test happen inside GIL + lock; first-exception-wins guard; gotref/giveref and position info are mirror images', floor=11)
    psn = ix.cls('Nodes', 'ParallelStatNode')
    rel = psn.module.rel
    naming = naming_values(ctx)
    exc_attr = ix.find_class_attr(psn, 'parallel_exc')
    if exc_attr is None or not isinstance(exc_attr[1], ast.Tuple):
        raise AnalysisError('ParallelStatNode.parallel_exc tuple vanished')
    _, fetch = method(ix, psn, 'fetch_parallel_exception')
    _, restore = method(ix, psn, 'restore_parallel_exception')
    r0 = Res(ctx, psn, fetch)
    exc_names = [r0.atom(e) for e in exc_attr[1].elts]
    if len(exc_names) != 3 or not all(exc_names):
        raise AnalysisError('ParallelStatNode.parallel_exc does not resolve to three C names')
    info = {}
    for name, fn, op_re, guard in (('fetch_parallel_exception', fetch, r'__Pyx_ErrFetch\w*\s*\(', True),
                                   ('restore_parallel_exception', restore, r'__Pyx_ErrRestore\w*\s*\(', False)):
        ev, res = handoff_events(ctx, psn, fn)
        if ev is None:
            raise AnalysisError('%s is no longer straight-line code; the bracket analysis needs to be extended' % name)
        problems, op = check_handoff(ev, op_re, exc_names, guard)
        for op_, cl_, what in PAIRS:
            r.inst('exc:%s:%s' % (name, what), sample='%s: %d x %s, %d x %s' % (name, sum(1 for e in ev if e[0] == 'open' and e[1] == what), op_,
                                                                                 sum(1 for e in ev if e[0] == 'close' and e[1] == what), cl_))
            if not any(e[0] == 'open' and e[1] == what for e in ev):
                problems.append(('missing:' + what, fn, 'does not open %s at all' % what))
        r.inst('exc:%s:transfer' % name, sample='%s transfer call inside gil+lock' % name)
        seen = set()
        for key, node, msg in problems:
            if key in seen:
                continue
            seen.add(key)
            r.violate('exc:%s:%s' % (name, key), rel, getattr(node, 'lineno', fn.lineno), '%s %s' % (name, msg))
        # arguments of the transfer call are the three shared slots in (type, value, tb) order
        if op is not None:
            m = re.search(op_re + r'([^)]*)\)', op[1])
            args = [a.strip().lstrip('&').strip() for a in m.group(1).split(',')] if m else []
            r.inst('exc:%s:slots' % name, sample='%s(%s)' % (name, ', '.join(args)))
            if args != exc_names:
                r.violate('exc:%s:slots' % name, rel, op[2].lineno,
                          '%s passes %s to the exception transfer call; the shared slots are %s in (type, value, traceback) order' % (name, args, exc_names))
        info[name] = (ev, op)
    # gotref / giveref mirror
    got = [(e[2], ev_index(info['fetch_parallel_exception'][0], e)) for e in info['fetch_parallel_exception'][0] if e[0] == 'ref' and e[1] == 'gotref']
    give = [(e[2], ev_index(info['restore_parallel_exception'][0], e)) for e in info['restore_parallel_exception'][0] if e[0] == 'ref' and e[1] == 'giveref']
    r.inst('exc:refnanny', sample='gotref %s / giveref %s' % ([g[0] for g in got], [g[0] for g in give]))
    if sorted(g[0] or '?' for g in got) != sorted(g[0] or '?' for g in give):
        r.violate('exc:refnanny', rel, restore.lineno,
                  'fetch_parallel_exception registers %s with the refnanny (gotref) but restore_parallel_exception hands back %s (giveref): '
                  'the refnanny reports a leaked / unowned reference in every prange that propagates an exception' % ([g[0] for g in got], [g[0] for g in give]))
    fop, rop = info['fetch_parallel_exception'][1], info['restore_parallel_exception'][1]
    if fop is not None and any(i < ev_index(info['fetch_parallel_exception'][0], fop) for _, i in got):
        r.violate('exc:refnanny:order', rel, fetch.lineno, 'gotref of the saved exception is emitted before the exception is fetched')
    if rop is not None and any(i > ev_index(info['restore_parallel_exception'][0], rop) for _, i in give):
        r.violate('exc:refnanny:order', rel, restore.lineno, 'giveref of the saved exception is emitted after the reference was given back to the thread state')
    # position info: fetch saves pos -> parallel_pos, restore copies it back
    ppos = ix.find_class_attr(psn, 'parallel_pos_info')
    pos = ix.find_class_attr(psn, 'pos_info')
    if ppos is None or pos is None:
        raise AnalysisError('ParallelStatNode.parallel_pos_info / pos_info vanished')
    ppos_names = [r0.atom(e) for e in ppos[1].elts]
    pos_names = [r0.atom(e) for e in pos[1].elts]
    if not all(ppos_names) or not all(pos_names) or len(ppos_names) != len(pos_names):
        raise AnalysisError('parallel_pos_info / pos_info do not resolve to equally long C name tuples')
    want_f = list(zip(ppos_names, pos_names))
    want_r = list(zip(pos_names, ppos_names))
    for name, want in (('fetch_parallel_exception', want_f), ('restore_parallel_exception', want_r)):
        ev = info[name][0]
        assigns = []
        node = None
        for e in ev:
            if e[0] == 'text':
                for m in re.finditer(r'(\w+)\s*=(?!=)\s*(\w+)\s*;', e[1]):
                    if m.group(1) in ppos_names + pos_names or m.group(2) in ppos_names + pos_names:
                        assigns.append((m.group(1), m.group(2)))
                        node = e[2]
        key = 'exc:%s:posinfo' % name
        r.inst(key, sample='%s: %s' % (name, assigns))
        if sorted(assigns) != sorted(want):
            r.violate(key, rel, getattr(node, 'lineno', fetch.lineno),
                      '%s emits the position assignments %s; it must emit %s (fetch saves filename/lineno/clineno of the raising thread into the shared '
                      'slots, restore copies them back): otherwise the traceback of the re-raised exception shows a wrong or NULL position' % (name, assigns, want))
    # positive control: a fetch without the guard / outside the lock
    pc_ev = [('open', 'block', None), ('open', 'gil', None), ('text', '__Pyx_ErrFetchWithState(&a, &b, &c);', None), ('open', 'lock', None),
             ('close', 'lock', None), ('close', 'gil', None), ('close', 'block', None)]
    pp, _ = check_handoff(pc_ev, r'__Pyx_ErrFetch\w*\s*\(', ['a', 'b', 'c'], True)
    r.positive_control({'op-outside-lock', 'unguarded-fetch'} <= {p[0] for p in pp}, 'fetch outside lock and without guard')
    return r


def ev_index(ev, e):
    for i, x in enumerate(ev):
        if x is e:
            return i
    return -1


# ------------------------------------------------------------------------------------------------ C37-STK
def rule_stack(ctx):
    ix = ctx.index
    r = Rule('C37-STK', 'MarkParallelAssignments pushes each parallel node on parallel_block_stack exactly once and pops it on every path; the '
             'prange else clause is visited after the pop', floor=2)
    mpa = ix.cls('TypeInference', 'MarkParallelAssignments')
    rel = mpa.module.rel
    STACK = 'parallel_block_stack'
    n_push = 0
    for name, fn in mpa.methods.items():
        pushes = [c for c in walk_no_nested(fn) if isinstance(c, ast.Call) and isinstance(c.func, ast.Attribute) and c.func.attr in ('append', 'pop')
                  and is_self_attr(c.func.value) and c.func.value.attr == STACK]
        if not pushes:
            continue
        n_push += 1
        key = 'stk:%s' % name
        res = stack_depths(fn, STACK)
        r.inst(key, sample='MarkParallelAssignments.%s: exit depths %s' % (name, sorted(res['depths'])))
        if res['depths'] != {0}:
            r.violate(key, rel, fn.lineno,
                      'MarkParallelAssignments.%s leaves parallel_block_stack at depth %s on some path: assignments after the parallel section are attributed to it '
                      '(wrong privatisation) or the enclosing section is forgotten' % (name, sorted(res['depths'])))
        r.inst(key + ':else', sample='else clause visited at stack depth %s' % sorted(res['else_depths']))
        for d, line in sorted(res['else_bad']):
            r.violate(key + ':else', rel, line,
                      'the else clause of a prange loop is visited while the loop is still on parallel_block_stack: assignments in the else clause '
                      '(which runs sequentially after the loop) become private/lastprivate variables of the loop')
        for line in sorted(res['body_bad']):
            r.violate(key + ':body', rel, line, 'children of the parallel node are visited before it is pushed on parallel_block_stack: assignments in the body are not recorded')
    if n_push == 0:
        raise AnalysisError('MarkParallelAssignments no longer maintains parallel_block_stack')
    pc = ast.parse("def visit_ParallelStatNode(self, node):\n    self.parallel_block_stack.append(node)\n    if node.is_prange:\n        self.visitchildren(node)\n"
                   "    else:\n        self.visitchildren(node)\n        self.parallel_block_stack.pop()\n    return node\n").body[0]
    r.positive_control(stack_depths(pc, STACK)['depths'] == {0, 1}, 'missing pop on one branch')
    return r


def stack_depths(fn, STACK):
    else_depths, else_bad, body_bad = set(), set(), set()

    def depth(s):
        for f in s:
            if isinstance(f, tuple) and f[0] == 'D':
                return f[1]
        return 0

    def tr(node, state):
        d = depth(state)
        s = set(f for f in state if not (isinstance(f, tuple) and f[0] == 'D'))
        for c in pyflow.calls_in(node):
            if isinstance(c.func, ast.Attribute) and is_self_attr(c.func.value) and c.func.value.attr == STACK:
                if c.func.attr == 'append':
                    d = min(d + 1, 5)
                elif c.func.attr == 'pop':
                    d = max(d - 1, -5)
            elif isinstance(c.func, ast.Attribute) and c.func.attr in ('visit', 'visitchildren') and is_self_attr(c.func):
                txt = ast.unparse(c)
                if c.func.attr == 'visit' and 'else_clause' in txt:
                    else_depths.add(d)
                    if d != 0:
                        else_bad.add((d, c.lineno))
                elif c.func.attr == 'visitchildren' and d < 1:
                    body_bad.add(c.lineno)
        s.add(('D', d))
        return frozenset(s)
    o = pyflow.Flow(tr).run(fn)
    return dict(depths={depth(st) for st in o.normal | o.returns}, else_depths=else_depths, else_bad=else_bad, body_bad=body_bad)


# ------------------------------------------------------------------------------------------------ C37-RED
# OpenMP 5.2 section 5.5.5 (reduction clause), table "Implicitly Declared C/C++ Reduction Identifiers":
#   +  -  *  &  |  ^  &&  ||  max  min
OPENMP_REDUCTION_IDS = {'+', '-', '*', '&', '|', '^', '&&', '||', 'max', 'min'}
# combiner of each identifier (omp_out = omp_out <op> omp_in); `-` combines with + (same table)
SEQUENTIAL_SAFE = {'+', '-', '*', '&', '|', '^'}      # in-place operators whose OpenMP reduction equals the sequential fold


def rule_reductions(ctx):
    ix = ctx.index
    r = Rule('C37-RED', 'in-place operators that ParallelRangeNode turns into `reduction(op:var)` clauses are implicitly declared OpenMP reduction identifiers', floor=5)
    prn = ix.cls('Nodes', 'ParallelRangeNode')
    # which in-place operators become a reduction clause is read off the decision table of generate_loop (interpreted per operator in
    # sa/rules/sC37.clause_table), not off the spelling of the guard around the emission
    from . import sC37
    _, gfn = method(ix, prn, 'generate_loop')
    found = 0
    reducing = sC37.reduction_ops(ctx, prn)
    for op in sC37.INPLACE_OPS:
        found += 1
        key = 'red:%s' % op
        if op not in reducing:
            r.inst(key, sample='in-place operator %r -> no reduction clause' % op, nontrivial=False)
            continue
        r.inst(key, sample='in-place operator %r -> reduction(%s:var)' % (op, op))
        if op not in OPENMP_REDUCTION_IDS:
            r.violate(key, prn.module.rel, gfn.lineno,
                      'ParallelRangeNode.generate_loop emits `reduction(%s:var)` for the in-place operator %r, which is not an OpenMP reduction identifier: the generated C '
                      'does not compile with OpenMP enabled' % (op, op))
        elif op not in SEQUENTIAL_SAFE:
            r.violate(key, prn.module.rel, gfn.lineno,
                      'ParallelRangeNode.generate_loop maps the Python in-place operator %r to the OpenMP reduction %r, whose combiner is not that operator' % (op, op))
    if not found:
        raise AnalysisError('no `reduction(op:var)` emission found in ParallelRangeNode')
    r.positive_control('/' not in OPENMP_REDUCTION_IDS, 'division is not a reduction identifier')
    return r
