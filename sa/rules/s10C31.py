"""C31 batch 12 (seed C31o): `__match_args__` must be an exact tuple.

C31-MARGS.  CPython's match_class raises TypeError unless `type.__match_args__` is an *exact* tuple (PyTuple_CheckExact), and only then reads it
with the concrete tuple API.  In MatchCase.c the object is a local (filled by the attribute lookup of "__match_args__"), so C31-EXACT, which
follows helper *parameters*, does not see it.  Rule: in every function of MatchCase.c that looks the attribute up into a variable V, the type
tests applied to V (classified by the TypeTests table of s4C31: exact / inexact) include an exact one, and no inexact test of V stands alone.
The seed relaxed PyTuple_CheckExact(match_args) to PyTuple_Check(match_args): a tuple-subclass instance is accepted, the case matches and binds.
"""
import re

from ..core import Rule, AnalysisError
from ..engine.cutil import strip_c_comments
from .s4C31 import TypeTests, CFILE, REL_C


def rule_margs(ctx, floor=1):
    r = Rule('C31-MARGS', 'MatchCase.c: the object looked up as "__match_args__" is accepted only behind an EXACT tuple type test (CPython: PyTuple_CheckExact, TypeError otherwise) '
             'before it is read through the concrete tuple API', floor)
    tt = TypeTests(ctx)
    found = 0
    for n, ds in ctx.cat.decls.items():
        for d in ds:
            if d.file != CFILE or d.kind != 'func' or not d.body or '__match_args__' not in d.body:
                continue
            body = strip_c_comments(d.body)
            vs = set(re.findall(r'PYIDENT\(\s*"__match_args__"\s*\)\s*,\s*&\s*([A-Za-z_]\w*)', body)) | \
                set(re.findall(r'\b([A-Za-z_]\w*)\s*=\s*\w*GetAttr\w*\s*\([^;]*PYIDENT\(\s*"__match_args__"\s*\)', body))
            for v in sorted(vs):
                found += 1
                tests = [(t, tt.of_name(t)) for t in re.findall(r'\b(\w*Py\w*_Check\w*|Py_IS_TYPE)\s*\(\s*%s\s*[,)]' % re.escape(v), body)]
                tests = [(t, k) for t, k in tests if k in ('exact', 'inexact')]
                key = '%s:%s:%s' % (CFILE, d.name, v)
                r.inst(key, sample='%s: %s tested by %s' % (d.name, v, tests))
                if not any(k == 'exact' for _, k in tests):
                    r.violate(key, REL_C, d.line, '%s reads `%s` (the class\'s __match_args__) through the tuple API behind %s: CPython demands an exact tuple and raises TypeError for '
                              'anything else, including instances of tuple subclasses; here such an object is accepted and the positional sub-patterns are bound from it'
                              % (d.name, v, ', '.join('%s [%s]' % x for x in tests) or 'no type test at all'))
    if not found:
        raise AnalysisError('MatchCase.c: no lookup of "__match_args__" into a variable found (anchor vanished)')
    r.positive_control(tt.of_name('PyTuple_CheckExact') == 'exact' and tt.of_name('PyTuple_Check') == 'inexact', 'PyTuple_Check classified inexact, PyTuple_CheckExact exact')
    return r
