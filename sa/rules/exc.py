"""Rules specific to the exception-handling generators (C22)."""
import ast

from ..core import Rule, AnalysisError, node_src
from ..engine import pyflow
from ..engine.pyindex import walk_no_nested, is_self_attr
from .gen import _code_label_attr, _code_call


def rules(ctx):
    return [rule_else_outside_handlers(ctx)]


def rule_else_outside_handlers(ctx):
    """TryExceptStatNode: while the body is generated, code.error_label is the label of this statement's handler
    dispatch; the else clause must be generated *after* the error label has been switched away from it, otherwise
    exceptions raised in `else:` are caught by the sibling except clauses."""
    ix = ctx.index
    r = Rule('C22-ELSE', 'TryExceptStatNode generates its else clause only after the error label no longer points at its own handler dispatch', floor=1)
    c = ix.cls('Nodes', 'TryExceptStatNode')
    fn = c.methods.get('generate_execution_code')
    if fn is None:
        raise AnalysisError('TryExceptStatNode.generate_execution_code vanished')
    # variable holding "our" error label: x = code.error_label right after new_error_label()
    our = None
    for n in sorted(walk_no_nested(fn), key=lambda x: getattr(x, 'lineno', 0)):
        if isinstance(n, ast.Assign) and isinstance(n.targets[0], ast.Name) and _code_label_attr(n.value) == 'error':
            saw_new = any(isinstance(m, ast.Assign) and _code_call(m.value, ('new_error_label',)) and m.lineno < n.lineno for m in walk_no_nested(fn))
            if saw_new and our is None:
                our = n.targets[0].id
    if our is None:
        raise AnalysisError('TryExceptStatNode: cannot find the variable holding the handler-dispatch error label')
    bad = []

    def tr(n, state):
        s = set(state)
        if isinstance(n, ast.Assign) and _code_call(n.value, ('new_error_label',)):
            s.add('OURS')       # error label now = dispatch label of this statement
        if isinstance(n, ast.Assign) and _code_label_attr(n.targets[0]) == 'error':
            if isinstance(n.value, ast.Name) and n.value.id == our:
                s.add('OURS')
            else:
                s.discard('OURS')
        for c2 in pyflow.calls_in(n):
            if isinstance(c2.func, ast.Attribute) and c2.func.attr == 'generate_execution_code' and is_self_attr(c2.func.value) and c2.func.value.attr == 'else_clause':
                if 'OURS' in s:
                    bad.append(c2.lineno)
        return frozenset(s)
    pyflow.Flow(tr).run(fn)
    n_else = sum(1 for x in walk_no_nested(fn) if isinstance(x, ast.Call) and isinstance(x.func, ast.Attribute) and x.func.attr == 'generate_execution_code'
                 and is_self_attr(x.func.value) and x.func.value.attr == 'else_clause')
    if not n_else:
        raise AnalysisError('TryExceptStatNode no longer generates self.else_clause')
    r.inst('Nodes.TryExceptStatNode.generate_execution_code:else_clause', sample='else clause generated at %d site(s); handler label variable %s' % (n_else, our))
    for line in sorted(set(bad)):
        r.violate('Nodes.TryExceptStatNode.generate_execution_code:else-inside-try-region', c.module.rel, line,
                  'the else clause is generated while code.error_label still points at this statement\'s own handler dispatch (%s): '
                  'an exception raised in `else:` is caught by the sibling `except` clauses instead of propagating' % our)
    return r
