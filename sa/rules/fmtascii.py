"""C18-ASCII: code that decides something from the *type* of a C format spec looks at its last character, not at the whole spec.

CIntLike._parse_format accepts `[>-][0]width` before the type character, so the specs 'c', '5c', '05c' all produce a (possibly non-ASCII)
character.  A test `c_format_spec != 'c'` / `== 'c'` against the complete spec misclassifies the padded forms."""
import ast

from ..core import Rule, AnalysisError
from ..engine.pyindex import walk_no_nested


def whole_spec_tests(fn):
    """Compare nodes that test a c_format_spec attribute against a one-letter string constant as a whole"""
    out = []
    for n in walk_no_nested(fn):
        if isinstance(n, ast.Compare) and len(n.ops) == 1 and isinstance(n.ops[0], (ast.Eq, ast.NotEq)):
            a, b = n.left, n.comparators[0]
            for x, y in ((a, b), (b, a)):
                if isinstance(x, ast.Attribute) and x.attr == 'c_format_spec' and isinstance(y, ast.Constant) and isinstance(y.value, str) and len(y.value) == 1 and y.value.isalpha():
                    out.append((n.lineno, y.value))
    return out


def type_char_tests(fn):
    n_ok = 0
    for n in walk_no_nested(fn):
        if isinstance(n, ast.Call) and isinstance(n.func, ast.Attribute) and n.func.attr == 'endswith' and isinstance(n.func.value, ast.Attribute) and n.func.value.attr == 'c_format_spec':
            n_ok += 1
        if isinstance(n, ast.Subscript) and isinstance(n.value, ast.Attribute) and n.value.attr == 'c_format_spec':
            n_ok += 1
    return n_ok


def rule_ascii(ctx, floor=1):
    ix = ctx.index
    r = Rule('C18-ASCII', 'decisions taken from the type of a C format spec (character vs number) test its last character, never the whole spec', floor)
    m = ix.mod('ExprNodes')
    for qn, owner, fn in ix.functions_of(m):
        bad = whole_spec_tests(fn)
        good = type_char_tests(fn)
        if not bad and not good:
            continue
        key = 'ExprNodes.%s:c_format_spec-type-test' % qn
        r.inst(key, sample='%s: %d type-character tests, %d whole-spec tests' % (key, good, len(bad)))
        for line, ch in bad:
            r.violate(key, m.rel, line, '%s compares the complete c_format_spec with %r: padded specs such as \'5%s\' have the same format type and are misclassified '
                      '(f"{i:5c}" with i = 0x20AC was emitted as an ASCII-only field and truncated)' % (qn, ch, ch))
    pc = ast.parse("def f(self, node):\n    if node.c_format_spec != 'c' and node.value.type.is_numeric:\n        pass\n").body[0]
    r.positive_control(whole_spec_tests(pc) == [(2, 'c')], 'whole-spec comparison recognised')
    return r
