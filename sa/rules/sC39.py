"""C39 strengthening: feature-macro sibling implementations of a unicode builder return a string of the same length.

C39-LEN   A utility helper that builds its result with `PyUnicode_New(n, ...)` under one setting of the feature macros (direct writes into the
          string, CYTHON_USE_UNICODE_INTERNALS) and composes it from C-API calls under another (PyUnicode_FromOrdinal / PySequence_Repeat /
          PyUnicode_DecodeASCII / PyUnicode_Concat) must return a string of length n on every path of the composing variant.
          The composing variant is interpreted *symbolically*: integer values are linear forms over the function parameters, objects carry the
          linear form of their length (lengths of the C-API results from the CPython documentation), every `if` on a symbolic comparison forks
          the path with the comparison as a constraint, flag parameters (used as truth values) are enumerated over {0, 1}.  At each return the
          identity  len(result) == n  is decided under the path constraints (all forms must reduce to one integer combination of the parameters,
          whose feasible interval is computed; otherwise the path is reported as info).  No input values are sampled and nothing is executed.

Round 4 (second half of the file), all over the #if variants the utility catalogue records for one C name:
C39-OWN     ownership class (new / borrowed / null / non-object / unknown) of the value of every variant of a helper, by abstract evaluation of the macro body
            (casts, parentheses, comma, ?: with neutral NULL arms, __Pyx_NewRef, nested helpers, C-API result ownership from the installed headers and the
            frozen borrowed-reference table); C function variants by a path-sensitive walk over one returned local / one out-parameter.  Variants must agree.
C39-FAM     concrete object family (Py<Family>_Type of the installed headers) of the C-API a variant applies to the helper's first argument: one family per
            helper, the one it is named after.
C39-SIGN    decision table of the one-parameter __Pyx_PyLong_* macros of the 3.12 tag-word layout and the ob_size layout over sign x digit count.
C39-STRTAB  the emitted __Pyx_Decompress*() calls of Code.py: length arguments are len() of the array written under the passed C name / of the compressed
            data; a branch never #defines the macro that disables the helper it calls (macro read from the #ifdef ... return NULL block of the helper).
"""
import itertools, math, re

from ..core import Rule, AnalysisError
from ..engine import cexpr
from ..engine.cutil import strip_c_comments, split_args
from ..engine.cguard import function_at
from .pC17 import parse_body, as_list

UTIL = 'Cython/Utility'


# ------------------------------------------------------------------------------------------------ linear forms
class Lin:
    __slots__ = ('c', 'k')

    def __init__(self, c=None, k=0):
        self.c = {s: v for s, v in (c or {}).items() if v}
        self.k = k

    def __add__(self, o):
        d = dict(self.c)
        for s, v in o.c.items():
            d[s] = d.get(s, 0) + v
        return Lin(d, self.k + o.k)

    def __neg__(self):
        return Lin({s: -v for s, v in self.c.items()}, -self.k)

    def __sub__(self, o):
        return self + (-o)

    def scale(self, n):
        return Lin({s: v * n for s, v in self.c.items()}, self.k * n)

    def const(self):
        return not self.c

    def __repr__(self):
        parts = []
        for s, v in sorted(self.c.items()):
            parts.append(('%s' if v == 1 else '-%s' if v == -1 else '%d*%%s' % v) % s)
        if self.k or not parts:
            parts.append(str(self.k))
        return ' + '.join(parts).replace('+ -', '- ')

    def key(self):
        return (tuple(sorted(self.c.items())), self.k)


class Obj:
    def __init__(self, length, what):
        self.length, self.what = length, what          # length: Lin


class Null:
    pass


class Opaque:
    def __init__(self, name):
        self.name = name


NULL = Null()


class NeedFlag(Exception):
    def __init__(self, name):
        self.name = name


class Unsupported(Exception):
    pass


class Goto(Exception):
    def __init__(self, label, path):
        self.label, self.path = label, path


# constraints: (Lin, op) meaning  Lin op 0  with op in '>', '>=', '==', '!='
def negate(lit):
    l, op = lit
    if op == '>':
        return (-l, '>=')
    if op == '>=':
        return (-l, '>')
    if op == '==':
        return (l, '!=')
    return (l, '==')


TRUE, FALSE = [[]], []


def dnf_and(a, b):
    return [x + y for x in a for y in b]


def dnf_not(a):
    out = TRUE
    for conj in a:
        out = dnf_and(out, [[negate(l)] for l in conj] if conj else FALSE)
    return out


NOOPS = {'Py_DECREF', 'Py_XDECREF', 'Py_INCREF', 'Py_XINCREF', 'CYTHON_UNUSED_VAR', 'CYTHON_MAYBE_UNUSED_VAR', '__Pyx_GOTREF', '__Pyx_GIVEREF',
         '__Pyx_XGOTREF', '__Pyx_XGIVEREF'}
ONE = Lin(k=1)


class SymExec:
    """Symbolic execution of a loop-free C statement list; paths = (constraints, returned value)."""

    def __init__(self, params, flags):
        self.params, self.flags = params, flags
        self.results = []

    # ---------------------------------------------------------------- expressions
    def val(self, e, env):
        k = e[0]
        if k in ('num', 'char'):
            return Lin(k=e[1])
        if k == 'id':
            if e[1] == 'NULL':
                return NULL
            if e[1] in env:
                return env[e[1]]
            return Opaque(e[1])
        if k == 'cast':
            return self.val(e[2], env)
        if k == 'call':
            name, args = e[1], e[2]
            if name in ('likely', 'unlikely') and len(args) == 1:
                return self.val(args[0], env)
            vs = [self.val(a, env) for a in args]
            if name in NOOPS:
                return Lin()
            if name == 'PyUnicode_FromOrdinal' and len(vs) == 1:
                return Obj(ONE, name)
            if name == 'PySequence_Repeat' and len(vs) == 2 and isinstance(vs[0], Obj) and isinstance(vs[1], Lin):
                if not vs[0].length.const():
                    raise Unsupported('repeat of a string of symbolic length')
                o = Obj(vs[1].scale(vs[0].length.k), name)
                o.nonneg = vs[1]
                return o
            if name in ('PyUnicode_DecodeASCII', 'PyUnicode_DecodeLatin1', 'PyUnicode_DecodeUTF8') and len(vs) == 3 and isinstance(vs[1], Lin):
                if name == 'PyUnicode_DecodeUTF8':
                    raise Unsupported('UTF-8 decoding has no linear length')
                return Obj(vs[1], name)
            if name in ('PyUnicode_Concat', '__Pyx_PyUnicode_Concat', 'PyNumber_Add') and len(vs) == 2 and all(isinstance(v, Obj) for v in vs):
                return Obj(vs[0].length + vs[1].length, name)
            raise Unsupported('call of %s is not modelled' % name)
        if k == 'un':
            op = e[1]
            if op == '!':
                return ('cond', dnf_not(self.cond(e[2], env)))
            v = self.val(e[2], env)
            if isinstance(v, Lin):
                if op == '-':
                    return -v
                if op == '+':
                    return v
            raise Unsupported('unary %s' % op)
        if k == 'bin':
            op = e[1]
            if op in ('&&', '||', '<', '>', '<=', '>=', '==', '!='):
                return ('cond', self.cond(e, env))
            a, b = self.val(e[2], env), self.val(e[3], env)
            a, b = self.as_int(a), self.as_int(b)
            if op == '+':
                return a + b
            if op == '-':
                return a - b
            if op == '*':
                if a.const():
                    return b.scale(a.k)
                if b.const():
                    return a.scale(b.k)
            raise Unsupported('operator %s on symbolic values' % op)
        if k == 'tern':
            raise Unsupported('conditional expression')
        raise Unsupported('expression node %s' % k)

    def as_int(self, v):
        if isinstance(v, Lin):
            return v
        if isinstance(v, tuple) and v[0] == 'cond':
            d = v[1]
            if d == TRUE:
                return Lin(k=1)
            if d == FALSE:
                return Lin(k=0)
        raise Unsupported('non-integer operand')

    def cond(self, e, env):
        """-> DNF (list of conjunctions of literals) under which e is true."""
        k = e[0]
        if k == 'call' and e[1] in ('likely', 'unlikely') and len(e[2]) == 1:
            return self.cond(e[2][0], env)
        if k == 'un' and e[1] == '!':
            return dnf_not(self.cond(e[2], env))
        if k == 'bin' and e[1] == '&&':
            return dnf_and(self.cond(e[2], env), self.cond(e[3], env))
        if k == 'bin' and e[1] == '||':
            return self.cond(e[2], env) + self.cond(e[3], env)
        if k == 'bin' and e[1] in ('<', '>', '<=', '>=', '==', '!='):
            a, b = self.val(e[2], env), self.val(e[3], env)
            if isinstance(a, (Obj, Null)) or isinstance(b, (Obj, Null)):
                if e[1] in ('==', '!=') and isinstance(a, (Obj, Null)) and isinstance(b, (Obj, Null)):
                    same = isinstance(a, Null) and isinstance(b, Null)
                    if isinstance(a, Obj) and isinstance(b, Obj):
                        raise Unsupported('object identity comparison')
                    return TRUE if same == (e[1] == '==') else FALSE
                raise Unsupported('comparison of an object')
            a, b = self.as_int(a), self.as_int(b)
            d = a - b
            lit = {'>': (d, '>'), '>=': (d, '>='), '<': (-d, '>'), '<=': (-d, '>='), '==': (d, '=='), '!=': (d, '!=')}[e[1]]
            if lit[0].const():
                kk = lit[0].k
                return TRUE if {'>': kk > 0, '>=': kk >= 0, '==': kk == 0, '!=': kk != 0}[lit[1]] else FALSE
            return [[lit]]
        v = self.val(e, env)
        if isinstance(v, tuple) and v[0] == 'cond':
            return v[1]
        if isinstance(v, Obj):
            return TRUE           # allocation failures are not explored: every C-API call succeeds
        if isinstance(v, Null):
            return FALSE
        if isinstance(v, Lin):
            if v.const():
                return TRUE if v.k else FALSE
            if len(v.c) == 1 and v.k == 0 and list(v.c.values()) == [1] and list(v.c)[0] in self.params:
                raise NeedFlag(list(v.c)[0])
            return [[(v, '!=')]]
        raise Unsupported('truth value of %r' % (v,))

    # ---------------------------------------------------------------- statements
    DECL = re.compile(r'^(?P<type>(?:[A-Za-z_]\w*[\s\*]+)+)(?P<rest>[A-Za-z_\*].*)$', re.S)
    ASSIGN = re.compile(r'^([A-Za-z_]\w*)\s*(=|\+=|-=)(?!=)\s*(.+)$', re.S)

    def parse(self, text):
        try:
            return cexpr.parse(text)
        except cexpr.ParseError as x:
            raise Unsupported('cannot parse `%s`: %s' % (text[:60], x))

    def simple(self, text, env, cons):
        """-> list of (env, cons) continuing, may raise Goto / record a return."""
        t = text.strip()
        if not t:
            return [(env, cons)]
        m = re.match(r'^return\b\s*(.*)$', t, re.S)
        if m:
            v = self.val(self.parse(m.group(1)), env) if m.group(1).strip() else None
            self.results.append((cons, v))
            return []
        m = re.match(r'^goto\s+(\w+)$', t)
        if m:
            raise Goto(m.group(1), (env, cons))
        m = re.match(r'^(?:([A-Za-z_]\w*)\s*(\+\+|--)|(\+\+|--)\s*([A-Za-z_]\w*))$', t)
        if m:
            name = m.group(1) or m.group(4)
            op = m.group(2) or m.group(3)
            env = dict(env)
            env[name] = self.as_int(env.get(name, Opaque(name))) + Lin(k=1 if op == '++' else -1)
            return [(env, cons)]
        m = self.ASSIGN.match(t)
        if m and m.group(1) in env or (m and not self.DECL.match(t)):
            return self.assign(m.group(1), m.group(2), m.group(3), env, cons)
        if re.match(r'^[A-Za-z_]\w*\s*\(', t):
            self.val(self.parse(t), env)
            return [(env, cons)]
        m = self.DECL.match(t)
        if m:
            out = [(env, cons)]
            for d in split_args(m.group('rest')):
                d = d.strip().lstrip('*').strip()
                mm = re.match(r'^([A-Za-z_]\w*)\s*(?:=\s*(.+))?$', d, re.S)
                if not mm:
                    raise Unsupported('declarator `%s`' % d)
                nxt = []
                for e2, c2 in out:
                    if mm.group(2) is not None:
                        nxt += self.assign(mm.group(1), '=', mm.group(2), e2, c2)
                    else:
                        e3 = dict(e2)
                        e3[mm.group(1)] = Opaque('uninitialised ' + mm.group(1))
                        nxt.append((e3, c2))
                out = nxt
            return out
        raise Unsupported('statement `%s`' % t[:60])

    def assign(self, name, op, rhs, env, cons):
        e = self.parse(rhs)
        v = self.val(e, env)
        out = []
        if isinstance(v, tuple) and v[0] == 'cond':
            for truth, d in ((1, v[1]), (0, dnf_not(v[1]))):
                for conj in d:
                    e2 = dict(env)
                    e2[name] = Lin(k=truth)
                    out.append((e2, cons + conj))
            return out
        env = dict(env)
        if op == '=':
            env[name] = v
        else:
            cur = self.as_int(env.get(name, Opaque(name)))
            env[name] = cur + self.as_int(v) if op == '+=' else cur - self.as_int(v)
        return [(env, cons)]

    def run_list(self, stmts, states):
        """states: list of (env, cons, jump) -> list of (env, cons, jump) leaving the list (jump = label still being looked for, forward only)."""
        cur = states
        for st in stmts:
            nxt = []
            for env, cons, jump in cur:
                if jump is not None:
                    nxt.append((env, cons, None if (st.kind == 'label' and st.text == jump) else jump))
                else:
                    nxt += self.stmt(st, env, cons)
            cur = nxt
            if len(cur) > 256:
                raise Unsupported('too many paths')
        return cur

    def stmt(self, st, env, cons):
        if st.kind == 'simple':
            try:
                return [(e, c, None) for e, c in self.simple(st.text, env, cons)]
            except Goto as g:
                return [(g.path[0], g.path[1], g.label)]
        if st.kind == 'block':
            return self.run_list(st.body, [(env, cons, None)])
        if st.kind == 'label':
            return [(env, cons, None)]
        if st.kind == 'if':
            d = self.cond(self.parse(st.text), env)
            out = []
            for conj in d:
                out += self.run_list(as_list(st.body), [(env, cons + conj, None)])
            for conj in dnf_not(d):
                if st.orelse is not None:
                    out += self.run_list(as_list(st.orelse), [(env, cons + conj, None)])
                else:
                    out.append((env, cons + conj, None))
            return out
        raise Unsupported('%s statement' % st.kind)

    def run_function(self, stmts, env):
        left = self.run_list(stmts, [(env, [], None)])
        if any(j is not None for _, _, j in left):
            raise Unsupported('goto to a label that is not ahead of it')
        return left


# ------------------------------------------------------------------------------------------------ preprocessor variants
def variants(body):
    """Function body text -> [(macro assignment dict, text with the inactive #if branches removed)] (macros enumerated over {0, 1})."""
    lines = body.split('\n')
    conds = []
    for ln in lines:
        m = re.match(r'\s*#\s*(if|elif|ifdef|ifndef)\b(.*)$', ln)
        if m:
            conds.append(m.group(2))
    macros = sorted({x for c in conds for x in re.findall(r'[A-Za-z_]\w*', c)} - {'defined'})
    if len(macros) > 5:
        raise Unsupported('%d macros in the #if conditions of the function' % len(macros))
    out = []
    for bits in itertools.product((1, 0), repeat=len(macros)):
        env = dict(zip(macros, bits))

        def ev(text, kind):
            if kind in ('ifdef', 'ifndef'):
                v = bool(env.get(text.strip(), 1))
                return v if kind == 'ifdef' else not v
            t = re.sub(r'defined\s*\(\s*(\w+)\s*\)|defined\s+(\w+)', '1', text)
            try:
                return bool(cexpr.evaluate(cexpr.parse(t), env))
            except (cexpr.ParseError, cexpr.EvalError) as x:
                raise Unsupported('#if condition `%s`: %s' % (text.strip(), x))
        stack, keep = [], []
        for ln in lines:
            m = re.match(r'\s*#\s*(if|elif|ifdef|ifndef|else|endif)\b(.*)$', ln)
            if not m:
                if all(s[0] for s in stack):
                    keep.append(ln)
                continue
            d = m.group(1)
            if d in ('if', 'ifdef', 'ifndef'):
                a = ev(m.group(2), d)
                stack.append([a, a])
            elif d == 'elif':
                a = (not stack[-1][1]) and ev(m.group(2), 'if')
                stack[-1][0] = a
                stack[-1][1] = stack[-1][1] or a
            elif d == 'else':
                stack[-1][0] = not stack[-1][1]
                stack[-1][1] = True
            else:
                stack.pop()
        out.append((env, '\n'.join(keep)))
    return out


def c_params(header):
    m = re.search(r'\(([^()]*)\)\s*\{\s*$', header, re.S)
    if not m:
        raise Unsupported('parameter list of `%s`' % header[:60])
    out = []
    for p in split_args(m.group(1)):
        mm = re.search(r'([A-Za-z_]\w*)\s*(?:\[\s*\])?\s*$', p.strip())
        if mm and p.strip() != 'void':
            out.append(mm.group(1))
    return out


def fname(header):
    m = re.search(r'([A-Za-z_]\w*)\s*\([^()]*\)\s*\{\s*$', header, re.S)
    return m.group(1) if m else '?'


# ------------------------------------------------------------------------------------------------ decision
def reduce_1d(lins):
    """All non-constant forms must be integer multiples of one primitive vector v -> (v, [(multiple, constant)]) or None."""
    v = None
    out = []
    for l in lins:
        if l.const():
            out.append((0, l.k))
            continue
        g = 0
        for x in l.c.values():
            g = math.gcd(g, abs(x))
        prim = tuple(sorted((s, x // g) for s, x in l.c.items()))
        mult = g
        if v is None:
            v = prim
        if prim != v:
            neg = tuple(sorted((s, -x) for s, x in prim))
            if neg == v:
                mult = -g
            else:
                return None
        out.append((mult, l.k))
    return v, out


def interval(cons1d):
    """[(a, c, op)] meaning a*t + c op 0 over integer t -> (lo, hi, holes) or None when infeasible."""
    lo, hi, holes = -math.inf, math.inf, set()
    for a, c, op in cons1d:
        if a == 0:
            ok = {'>': c > 0, '>=': c >= 0, '==': c == 0, '!=': c != 0}[op]
            if not ok:
                return None
            continue
        if op == '>':
            op, c = '>=', c - 1
        if op == '>=':
            # a*t + c >= 0
            if a > 0:
                lo = max(lo, -(c // a) if (-c) % a == 0 else (-c) // a + 1)
            else:
                hi = min(hi, c // (-a))
        elif op == '==':
            if c % a:
                return None
            lo, hi = max(lo, -c // a), min(hi, -c // a)
        else:
            if c % a == 0:
                holes.add(-c // a)
    if lo > hi:
        return None
    return lo, hi, holes


def decide(cons, F, pre):
    """Is F == 0 on every integer point satisfying cons (+ the preconditions that lie in the same direction)?
    -> (True, None) | (False, witness text) | raises Unsupported."""
    if F.const() and F.k == 0:
        return True, None
    red = reduce_1d([l for l, _ in cons] + [F])
    free = False
    if red is None:
        red = reduce_1d([l for l, _ in cons])
        if red is None:
            raise Unsupported('the path constraints do not reduce to one integer combination of the parameters')
        free = True                     # F varies in a direction the constraints do not restrict
        red = (red[0], red[1] + [(0, 0)])
    v, parts = red
    cons1d = [(a, c, op) for (a, c), (_, op) in zip(parts[:-1], cons)]
    used_pre = []
    for l, op in pre:
        r2 = reduce_1d([Lin(dict(v)) if v else Lin(), l])
        if v is not None and r2 is not None and not l.const():
            cons1d.append((r2[1][1][0], r2[1][1][1], op))
            used_pre.append((l, op))
    iv = interval(cons1d)
    if iv is None:
        return True, None               # infeasible path
    lo, hi, holes = iv
    if free:
        return False, 'for suitable values of %s (not restricted on this path)' % ', '.join(sorted(F.c))
    a, c = parts[-1]
    name = ' + '.join(('%s' if x == 1 else '-%s' if x == -1 else '%d*%%s' % x) % s for s, x in (v or ())).replace('+ -', '- ') or '0'
    if a == 0:
        return (c == 0), (None if c == 0 else 'for every value of %s in [%s, %s]' % (name, lo, hi))
    # a*t + c == 0 has the single solution t0; the feasible set must be {t0}
    if lo == hi and lo not in holes:
        ok = a * lo + c == 0
        return ok, (None if ok else 'for %s == %d' % (name, lo))
    t = lo if lo != -math.inf else hi if hi != math.inf else 0
    for cand in (lo, lo + 1, hi, hi - 1, 0, 1):
        if cand in (-math.inf, math.inf) or cand in holes or cand < lo or cand > hi:
            continue
        if a * cand + c != 0:
            return False, 'e.g. for %s == %d (feasible: [%s, %s])' % (name, cand, lo, hi)
    return False, 'for %s in [%s, %s]' % (name, lo, hi)


def write_indices(text):
    """Index expressions (third argument) of the PyUnicode_WRITE calls of a writing variant."""
    out = []
    for m in re.finditer(r'\b(?:__Pyx_)?PyUnicode_WRITE\s*\(', text):
        depth, j = 0, m.end() - 1
        while j < len(text):
            if text[j] == '(':
                depth += 1
            elif text[j] == ')':
                depth -= 1
                if depth == 0:
                    break
            j += 1
        args = split_args(text[m.end():j])
        if len(args) != 4:
            continue
        try:
            out.append(cexpr.parse(args[2]))
        except cexpr.ParseError:
            continue
    return out


def analyse_function(text, pos):
    """-> dict(name, n_text, results=[(flag assignment, constraints, length form or None, n form)]) or raises Unsupported."""
    f = function_at(text, pos)
    if f is None:
        raise Unsupported('enclosing function not found')
    header, b0, b1 = f
    body = text[b0 + 1:b1]
    params = c_params(header)
    vs = variants(body)
    writers = [(env, t) for env, t in vs if re.search(r'\bPyUnicode_New\s*\(', t)]
    composers = [(env, t) for env, t in vs if not re.search(r'\bPyUnicode_New\s*\(', t)]
    if not writers or not composers:
        raise Unsupported('no pair of a PyUnicode_New variant and a composing variant')
    n_texts = set()
    for env, t in writers:
        for m in re.finditer(r'\bPyUnicode_New\s*\(', t):
            args = split_args(t[m.end():t.index(';', m.end())].rsplit(')', 1)[0])
            n_texts.add(' '.join(args[0].split()))
    if len(n_texts) != 1:
        raise Unsupported('the writing variants allocate different lengths: %s' % sorted(n_texts))
    n_text = n_texts.pop()
    seen, out = set(), []
    for menv, t in composers:
        key = ' '.join(t.split())
        if key in seen:
            continue
        seen.add(key)
        stmts = parse_body('{' + t + '}')
        flags = []
        while True:
            try:
                res = []
                for bits in itertools.product((0, 1), repeat=len(flags)):
                    env = {p: Lin({p: 1}) for p in params}
                    env.update({fl: Lin(k=b) for fl, b in zip(flags, bits)})
                    ex = SymExec(params, flags)
                    ex.run_function(stmts, env)
                    n = ex.val(ex.parse(n_text), env)
                    # locals the allocation length refers to are defined before the #if: evaluate n in the first return's env is not
                    # available, so n must be expressible over the parameters
                    if not isinstance(n, Lin) or any(s not in params for s in n.c):
                        raise Unsupported('allocation length `%s` is not a linear form over the parameters' % n_text)
                    for cons, v in ex.results:
                        res.append((dict(zip(flags, bits)), cons, v, n))
                break
            except NeedFlag as nf:
                if nf.name in flags or len(flags) >= 3:
                    raise Unsupported('flag enumeration does not converge')
                flags.append(nf.name)
        # preconditions from the writing variants: they are memory safe only if the loop-independent part of every write index is >= 0
        pre = []
        for wenv, wt in writers:
            env = {p: Lin({p: 1}) for p in params}
            ex = SymExec(params, [])
            for st in parse_body('{' + wt + '}'):
                tx = st.text.strip() if st.kind == 'simple' else ''
                if tx and SymExec.DECL.match(tx) and '=' in tx and not re.search(r'\w\s*\(', tx):
                    try:
                        r2 = ex.simple(tx, env, [])
                    except (Unsupported, NeedFlag, Goto):
                        continue
                    if len(r2) == 1:
                        env = r2[0][0]
            loopvars = {m.group(1) for m in re.finditer(r'\b([A-Za-z_]\w*)\s*\+\+', wt)} | {m.group(1) for m in re.finditer(r'\+\+\s*([A-Za-z_]\w*)', wt)}
            for lv in loopvars:
                env[lv] = Lin()
            for e in write_indices(wt):
                try:
                    base = ex.val(e, env)
                except (Unsupported, NeedFlag):
                    continue
                if isinstance(base, Lin) and not base.const() and all(sym in params for sym in base.c):
                    pre.append((base, '>='))
        out.append((menv, res, pre))
    return dict(name=fname(header), n_text=n_text, variants=out, line=text.count('\n', 0, b0) + 1)


def len_problems(text):
    """Yield (function, key, ok, message, line) for every decidable path; ('info', ...) rows for undecidable functions."""
    text = strip_c_comments(text)
    done = set()
    for m in re.finditer(r'\bPyUnicode_New\s*\(', text):
        f = function_at(text, m.start())
        if f is None or f[1] in done:
            continue
        done.add(f[1])
        name = fname(f[0])
        try:
            a = analyse_function(text, m.start())
        except Unsupported as x:
            yield ('info', name, None, str(x), 0)
            continue
        for menv, res, pre in a['variants']:
            cfg = ','.join('%s=%d' % kv for kv in sorted(menv.items())) or 'default'
            idx = 0
            for flags, cons, v, n in res:
                if not isinstance(v, Obj):
                    continue                      # NULL / error return
                idx += 1
                fl = ','.join('%s=%d' % kv for kv in sorted(flags.items()))
                F = v.length - n
                key = '%s[%s]:%s|%s' % (a['name'], cfg, fl, ' & '.join(sorted('%r%s0' % (l, op) for l, op in cons)))
                try:
                    ok, wit = decide(cons, F, pre)
                except Unsupported as x:
                    yield ('info', a['name'], None, '%s: %s' % (key, x), a['line'])
                    continue
                where = ' and '.join('%r %s 0' % (l, op) for l, op in cons) or 'unconditionally'
                msg = None
                if not ok:
                    msg = ('%s: with %s the variant allocates PyUnicode_New(%s), but with %s%s the composing variant returns a string of length %r on the path '
                           '[%s] - %r instead of %r, %s: the same generated C file formats the value differently depending on the feature macro'
                           % (a['name'], 'the other setting of the feature macros', a['n_text'], cfg, (' and ' + fl) if fl else '', v.length, where, v.length, n, wit))
                yield ('path', a['name'], key, msg, a['line'])


def rule_len(ctx):
    r = Rule('C39-LEN', 'a unicode builder that allocates PyUnicode_New(n) under one feature-macro setting returns a string of length n on every path of the variant '
             'that composes the result from C-API calls (symbolic linear lengths, path constraints decided on the feasible interval)', floor=6)
    rel = UTIL + '/StringTools.c'
    import os
    files = sorted(f for f in os.listdir(ctx.path(UTIL)) if f.endswith('.c'))
    for fn in files:
        frel = UTIL + '/' + fn
        text = ctx.read(frel)
        if 'PyUnicode_New' not in text:
            continue
        per_fn = {}
        for kind, name, key, msg, line in len_problems(text):
            if kind == 'info':
                r.info('%s %s: not decided (%s)' % (fn, name, msg))
                continue
            r.inst(key, sample=key)
            if msg:
                per_fn.setdefault(name, []).append((key, msg, line))
        for name, lst in sorted(per_fn.items()):
            r.violate('%s:%s' % (fn, name), frel, lst[0][2], lst[0][1] + ' (%d path(s) fail)' % len(lst))
    pc = ("static PyObject* f(Py_ssize_t n, const char* s, int m, int neg, char pad) {\n    PyObject *u;\n    Py_ssize_t off = n - m;\n#if FAST\n"
          "    u = PyUnicode_New(n, 127);\n    for (i=0; i < m; i++) { PyUnicode_WRITE(k, d, off+i, s[i]); }\n#else\n    {\n        PyObject *p = NULL;\n"
          "        u = NULL;\n        if (off > 0) {\n            p = PyUnicode_FromOrdinal(pad);\n            if (likely(p) && off > 1) {\n"
          "                PyObject *t = PySequence_Repeat(p, off %s);\n                Py_DECREF(p);\n                p = t;\n            }\n"
          "            if (unlikely(!p)) goto done;\n        }\n        u = PyUnicode_DecodeASCII(s, m, NULL);\n"
          "        if (likely(u) && p) {\n            PyObject *t = PyUnicode_Concat(p, u);\n            Py_DECREF(u);\n            u = t;\n        }\n"
          "done:\n        Py_XDECREF(p);\n    }\n#endif\n    return u;\n}\n")
    bad = [x for x in len_problems(pc % '+ neg') if x[0] == 'path' and x[3]]
    good = [x for x in len_problems(pc % '') if x[0] == 'path']
    r.positive_control(bool(bad) and len(good) >= 3 and not any(x[3] for x in good), 'repeat count off by the sign flag')
    return r


# =====================================================================================================================
# Strengthening round 4: the #if variants of one utility helper agree (C39-OWN, C39-FAM), the two PyLong layouts give the
# same sign predicates (C39-SIGN), the emitted decompress calls pass the lengths of the arrays they were emitted with (C39-STRTAB)
# =====================================================================================================================
import ast, collections, os

from ..engine import cutil, tables

# ---------------------------------------------------------------------------------------------------- macro bodies as expressions
class _MacroParser(cexpr.Parser):
    """cexpr.Parser + comma expressions inside parentheses: ('comma', [e1, ..., en])."""

    def _is_cast(self):
        # `( name ... * ... )` can only be a pointer cast (cexpr knows a closed list of type words only)
        j = self.i + 1
        n = 0
        while j < len(self.t) and self.t[j][0] == 'id' and re.fullmatch(r'[A-Za-z_]\w*', self.t[j][1]):
            j += 1
            n += 1
        k = j
        while k < len(self.t) and self.t[k] == ('op', '*'):
            k += 1
        if n and k > j and k < len(self.t) and self.t[k] == ('op', ')'):
            return k
        if n and k == j and k + 1 < len(self.t) and self.t[k] == ('op', ')') and self.t[k + 1][0] in ('id', 'num', 'char'):
            return k                          # `(name) operand`: no other reading than a cast to a typedef name
        return super()._is_cast()

    def postfix(self):
        if self.peek() == ('op', '('):
            self.take()
            items = [self.ternary()]
            while self.peek() == ('op', ','):
                self.take()
                items.append(self.ternary())
            self.take('op', ')')
            e = items[0] if len(items) == 1 else ('comma', items)
        else:
            e = super().postfix()
        while True:
            if self.peek() == ('op', '-') and self.peek(1) == ('op', '>') and self.peek(2)[0] == 'id':     # (expr)->member
                self.i += 2
                e = ('member', e, self.take()[1])
            elif self.peek() == ('op', '['):                                                                # f(x)[i], (expr)[i]
                self.take()
                idx = self.ternary()
                self.take('op', ']')
                e = ('bin', '[]', e, idx)
            else:
                return e


_CSTR = re.compile(r'(?:"(?:\\.|[^"\\])*"\s*)+')


def parse_macro_body(body):
    """Body of a function-like macro -> cexpr AST (string literals become the identifier __STR__, $cname placeholders identifiers);
    None when the body is not one C expression the parser understands (statement macros, member access, C++ ...)."""
    t = _CSTR.sub(' __STR__ ', body or '')
    t = re.sub(r'\$\{?(\w+)\}?', r'__cname_\1', t).strip()
    if t.endswith(';'):
        t = t[:-1]
    if not t.strip():
        return None
    try:
        return _MacroParser(t).parse()
    except (cexpr.ParseError, IndexError, ValueError, TypeError):
        return None


def strip_wrappers(e):
    """Remove casts, likely()/unlikely() and one-element parentheses (already gone in the AST)."""
    while True:
        if e[0] == 'cast':
            e = e[2]
        elif e[0] == 'call' and e[1] in ('likely', 'unlikely') and len(e[2]) == 1:
            e = e[2][0]
        else:
            return e


def cond_label(d):
    return ' / '.join('#' + c.strip() for c in d.conds) if d.conds else 'unconditional'


def index_c_text(text, fname='x.c', sname='S'):
    """Index a synthetic C text with the catalogue's own indexer (embedded positive controls): C name -> [CDecl]."""
    cat = object.__new__(cutil.Catalogue)
    cat.decls = collections.defaultdict(list)
    sec = cutil.Section(fname, sname, 'impl', 1)
    sec.raw = text
    cat._index_c(sec)
    return cat.decls


# ---------------------------------------------------------------------------------------------------- C39-OWN
# Frozen from the CPython C-API reference (Doc/c-api/*.rst, Doc/data/refcounts.dat of 3.12/3.13): the functions and macros whose entry reads
# "Return value: Borrowed reference."  Everything else that returns `PyObject *` returns a new (strong) reference ("Return value: New reference.").
BORROWED_API = frozenset('''
    PyTuple_GetItem PyTuple_GET_ITEM PyList_GetItem PyList_GET_ITEM PyDict_GetItem PyDict_GetItemWithError PyDict_GetItemString PyDict_SetDefault
    PyODict_GetItem PyODict_GetItemWithError PyODict_GetItemString PySequence_Fast_GET_ITEM PyStructSequence_GetItem PyStructSequence_GET_ITEM
    PyWeakref_GetObject PyWeakref_GET_OBJECT PyCell_GET PyErr_Occurred PyEval_GetBuiltins PyEval_GetGlobals PyEval_GetLocals PyEval_GetFrame
    PyFunction_GetCode PyFunction_GetGlobals PyFunction_GetModule PyFunction_GetDefaults PyFunction_GetKwDefaults PyFunction_GetClosure
    PyFunction_GetAnnotations PyFunction_GET_CODE PyFunction_GET_GLOBALS PyFunction_GET_MODULE PyFunction_GET_DEFAULTS PyFunction_GET_KW_DEFAULTS
    PyFunction_GET_CLOSURE PyFunction_GET_ANNOTATIONS PyImport_AddModule PyImport_AddModuleObject PyImport_GetModuleDict
    PyMethod_Function PyMethod_GET_FUNCTION PyMethod_Self PyMethod_GET_SELF PyInstanceMethod_Function PyInstanceMethod_GET_FUNCTION
    PyModule_GetDict PyModuleDef_Init PyState_FindModule PyObject_Init PyObject_InitVar PySys_GetObject PySys_GetXOptions PyThreadState_GetDict
    PyInterpreterState_GetDict PyCFunction_GET_SELF PyCFunction_GetSelf PyCFunction_GET_CLASS PyCMethod_GET_CLASS PyCMethod_GetClass
    PyType_GetModule PyType_GetModuleByDef PyMemoryView_GET_BASE Py_GetConstantBorrowed Py_TYPE
'''.split())
# "Return value: Always NULL." - error arms, neutral for the ownership of the expression they end
ALWAYS_NULL_API = frozenset('''
    PyErr_NoMemory PyErr_Format PyErr_FormatV PyErr_SetFromErrno PyErr_SetFromErrnoWithFilename PyErr_SetFromErrnoWithFilenameObject
    PyErr_SetFromErrnoWithFilenameObjects PyErr_SetFromWindowsErr PyErr_SetExcFromWindowsErr PyErr_SetFromWindowsErrWithFilename
    PyErr_SetExcFromWindowsErrWithFilename PyErr_SetExcFromWindowsErrWithFilenameObject PyErr_SetExcFromWindowsErrWithFilenameObjects
    PyErr_SetImportError PyErr_SetImportErrorSubclass
'''.split())
# new-reference API that the installed headers declare as macros / static inline functions or that is newer than the installed headers
NEW_API_EXTRA = frozenset('PySequence_ITEM PyList_GetItemRef PyCell_Get PyWeakref_NewRef PyImport_AddModuleRef PySequence_Fast'.split())
NEWREF = re.compile(r'^(?:__Pyx_|_?Py_)X?NewRef$')
NEW, BOR, NON, NEU, UNK, MIX = 'new', 'borrowed', 'non-object', 'null', 'unknown', 'mixed'


def own_join(a, b):
    if a == NEU:
        return b
    if b == NEU:
        return a
    if a == b:
        return a
    if MIX in (a, b) or {a, b} == {NEW, BOR}:
        return MIX
    return UNK


class Ownership:
    """Ownership class of the value of a function-like helper macro, per #if variant."""

    def __init__(self, decls, api=None):
        self.decls = decls
        self.api = tables.cpython_api() if api is None else api
        self.memo = {}
        self.leaks = {}           # id(decl) -> text of a NewRef(<new reference>) sub-expression
        self.fmemo = {}

    def api_class(self, name):
        if NEWREF.match(name):
            return NEW
        if name in BORROWED_API:
            return BOR
        if name in ALWAYS_NULL_API:
            return NEU
        if name in NEW_API_EXTRA:
            return NEW
        if not re.match(r'Py[A-Z]', name):
            return UNK                        # private (_Py*), unstable and foreign functions are not documented: never guessed
        if name in self.api:
            ret = ' '.join(self.api[name][0].replace('*', ' * ').split())
            return NEW if ret == 'PyObject *' else NON
        return UNK

    def callee(self, name):
        if name in self.decls and any(d.kind != 'proto' for d in self.decls[name]):
            return self.helper(name)
        return self.api_class(name)

    def helper(self, name):
        """Common class of all variants of a utility helper, UNK when they differ or one cannot be classified."""
        if name in self.memo:
            return self.memo[name]
        self.memo[name] = UNK                 # cycles
        cls = {self.variant(d) for d in self.decls[name] if d.kind != 'proto'}
        res = cls.pop() if len(cls) == 1 else UNK
        self.memo[name] = res if res in (NEW, BOR, NON) else UNK
        return self.memo[name]

    def variant(self, d):
        if d.kind == 'func':
            if id(d) not in self.fmemo:
                self.fmemo[id(d)] = UNK
                self.fmemo[id(d)] = func_return_class(self, d)
            return self.fmemo[id(d)]
        if d.kind != 'macro':
            return UNK
        if d.params is None:
            tgt = (d.body or '').strip()
            return self.callee(tgt) if re.fullmatch(r'[A-Za-z_]\w*', tgt) and tgt != d.name else UNK
        e = parse_macro_body(d.body)
        if e is None:
            return UNK
        return self.expr(e, d)

    def expr(self, e, d):
        k = e[0]
        if k == 'cast':
            return self.expr(e[2], d)
        if k == 'comma':
            last = strip_wrappers(e[1][-1])
            c = self.expr(last, d)
            if c == BOR and any(x[0] == 'call' and re.fullmatch(r'(?:Py_|__Pyx_)X?INCREF', x[1]) and len(x[2]) == 1 and strip_wrappers(x[2][0]) == last
                                for x in map(strip_wrappers, e[1][:-1])):
                return NEW                    # (Py_INCREF(x), x)
            return c
        if k == 'tern':
            return own_join(self.expr(e[2], d), self.expr(e[3], d))
        if k == 'id':
            if e[1] == 'NULL':
                return NEU
            if d.kind == 'macro' and d.params and e[1] in [p.strip() for p in d.params]:
                return BOR                    # the caller's own reference handed back: not a new one
            return UNK
        if k in ('num', 'char', 'sizeof'):
            return NON
        if k in ('un', 'bin'):
            return UNK if (k == 'un' and e[1] in '*&') or (k == 'bin' and e[1] == '[]') else NON
        if k == 'call':
            name, args = e[1], e[2]
            if name in ('likely', 'unlikely') and len(args) == 1:
                return self.expr(args[0], d)
            if NEWREF.match(name):
                if len(args) == 1 and self.expr(args[0], d) == NEW:
                    self.leaks[id(d)] = name
                return NEW
            return self.callee(name)
        return UNK


# API that stores a NEW (strong) reference through an out-parameter: name -> positions (0-based) of `PyObject **` results ("*result is a strong reference")
OUT_NEW_API = {'PyDict_GetItemRef': (2,), 'PyDict_GetItemStringRef': (2,), 'PyDict_SetDefaultRef': (3,), 'PyDict_Pop': (2,), 'PyDict_PopString': (2,),
               'PyMapping_GetOptionalItem': (2,), 'PyMapping_GetOptionalItemString': (2,), 'PyObject_GetOptionalAttr': (2,), 'PyObject_GetOptionalAttrString': (2,),
               'PyWeakref_GetRef': (1,), 'PyImport_GetModuleAttr': ()}
OUT_BORROWED_API = {'PyDict_Next': (2, 3)}
UNSET = 'unset'
_INCREF = re.compile(r'^(?:Py_X?INCREF|__Pyx_X?INCREF)\s*\((.*)\)$')
_DECREF = re.compile(r'^(?:Py_X?DECREF|Py_CLEAR|__Pyx_X?DECREF|__Pyx_CLEAR|Py_SETREF|Py_XSETREF|__Pyx_DECREF_SET|__Pyx_XDECREF_SET)\s*\(\s*(.*?)\s*[,)]')


class _GiveUp(Exception):
    pass


class CellFlow:
    """Path-sensitive walk over a small C function: ownership state of ONE cell (a local `PyObject *v` that is returned, or `*p` for an out-parameter p)
    at every `return`.  States: unset, null, new, borrowed, unknown.  Loops, goto, switch, #if inside the body, address-taking -> give up (UNK)."""

    def __init__(self, own, d, cell, mode):
        self.own, self.d, self.cell, self.mode = own, d, cell, mode           # cell: ('id', v) | ('un', '*', ('id', p))
        self.name = cell[1] if cell[0] == 'id' else cell[2][1]
        self.rets = []

    def is_cell(self, e):
        return strip_wrappers(e) == self.cell

    def mentions(self, text):
        return re.search(r'\b%s\b' % re.escape(self.name), text) is not None

    def classify(self):
        try:
            stmts = parse_body(self.d.body)
            end = self.block(stmts, {UNSET})
        except (_GiveUp, AnalysisError):
            return UNK
        if self.mode == 'out':
            self.rets += list(end)
        got = {c for c in self.rets if c not in (NEU, UNSET)}
        if not got or UNK in got:
            return UNK
        if got == {NEW}:
            return NEW
        if got == {BOR}:
            return BOR
        return MIX if got <= {NEW, BOR, MIX} else UNK

    def block(self, stmts, states):
        for st in stmts:
            nxt = set()
            for s_ in states:
                nxt |= self.stmt(st, s_)
            states = nxt
            if not states:
                break
        return states

    def stmt(self, st, state):
        k = st.kind
        if k == 'block':
            return self.block(st.body, {state})
        if k == 'if':
            e = parse_macro_body(st.text)
            if e is None:
                if self.mentions(st.text):
                    raise _GiveUp()
                t = f = state
            else:
                t, f = self.refine(e, state, True), self.refine(e, state, False)
            out = set()
            if t is not None:
                out |= self.block(as_list(st.body), {t})
            if f is not None:
                out |= self.block(as_list(st.orelse), {f}) if st.orelse is not None else {f}
            return out
        if k != 'simple':
            raise _GiveUp()
        t = st.text.strip()
        if not t:
            return {state}
        m = re.match(r'return\b\s*(.*)$', t)
        if m:
            self.ret(state, m.group(1).strip())
            return set()
        if re.match(r'(?:goto|break|continue)\b', t):
            raise _GiveUp()
        if self.cell[0] == 'id':
            am = re.match(r'^(?:(?:const\s+|static\s+)*\w+\s*\*\s*)?%s\s*=(?!=)\s*(.+)$' % re.escape(self.name), t)
            decl_only = re.match(r'^(?:const\s+|static\s+)*\w+[\s\*]+[^=(]*\b%s\b[^=(]*$' % re.escape(self.name), t)
        else:
            am = re.match(r'^\*\s*%s\s*=(?!=)\s*(.+)$' % re.escape(self.name), t)
            decl_only = None
        if am:
            if split_args(am.group(1)) != [am.group(1).strip()]:
                raise _GiveUp()                                   # several declarators
            e = parse_macro_body(am.group(1))
            c = self.own.expr(e, self.d) if e is not None else UNK
            return {c if c in (NEW, BOR, NEU, MIX) else UNK}
        if decl_only:
            return {state}
        if not self.mentions(t):
            return {state}
        im = _INCREF.match(t)
        if im:
            e = parse_macro_body(im.group(1))
            if e is not None and self.is_cell(e):
                if state == UNSET:
                    raise _GiveUp()
                return {{BOR: NEW, NEU: NEU}.get(state, UNK)}
        dm = _DECREF.match(t)
        if dm:
            e = parse_macro_body(dm.group(1))
            if e is not None and self.is_cell(e):
                return {UNK}
        if self.cell[0] == 'id':
            if re.search(r'&\s*%s\b' % re.escape(self.name), t) or re.search(r'\b%s\s*(?:=(?!=)|\+\+|--)' % re.escape(self.name), t):
                raise _GiveUp()
            return {state if state in (UNSET, NEU) else UNK}      # the value is read: it may be stored (ownership handed over) - not modelled
        if re.search(r'(?<![\*\w])\s*%s\b' % re.escape(self.name), re.sub(r'\*\s*%s\b' % re.escape(self.name), '', t)):
            raise _GiveUp()                                       # the out-pointer itself is passed on
        return {state}

    def ret(self, state, text):
        if self.mode == 'out':
            if re.search(r'\b%s\b' % re.escape(self.name), re.sub(r'\*\s*%s\b' % re.escape(self.name), '', text)):
                raise _GiveUp()
            self.rets.append(state)
            return
        e = parse_macro_body(text) if text else None
        if e is None:
            raise _GiveUp()
        if self.is_cell(e):
            if state == UNSET:
                raise _GiveUp()
            self.rets.append(state)
        else:
            c = self.own.expr(e, self.d)
            self.rets.append(c if c in (NEW, BOR, NEU, MIX) else UNK)

    def refine(self, e, state, truth):
        """State of the cell when the condition e has the given truth value; None = infeasible."""
        e = strip_wrappers(e)
        if self.is_cell(e):
            return self.known(state, truth)
        if e[0] == 'un' and e[1] == '!':
            return self.refine(e[2], state, not truth)
        if e[0] == 'bin' and e[1] in ('==', '!='):
            a, b = strip_wrappers(e[2]), strip_wrappers(e[3])
            null = lambda x: x in (('id', 'NULL'), ('num', 0))
            if (self.is_cell(a) and null(b)) or (self.is_cell(b) and null(a)):
                return self.known(state, truth == (e[1] == '!='))
        if e[0] == 'bin' and e[1] == '&&' and truth:
            s1 = self.refine(e[2], state, True)
            return None if s1 is None else self.refine(e[3], s1, True)
        if e[0] == 'bin' and e[1] == '||' and not truth:
            s1 = self.refine(e[2], state, False)
            return None if s1 is None else self.refine(e[3], s1, False)
        return state

    @staticmethod
    def known(state, nonnull):
        if nonnull:
            return None if state == NEU else state
        return state if state == UNSET else NEU


def func_return_class(own, d):
    """Ownership class of the value returned by a C function variant returning `PyObject *` (UNK unless the small flow analysis succeeds)."""
    ret = (d.ret or '').replace(' ', '')
    if not ret.endswith('PyObject*') or not d.body:
        return UNK
    if re.search(r'^[ \t]*#', d.body, re.M):
        return UNK                                                # preprocessor variants inside the body
    names = set()
    for m in re.finditer(r'\breturn\b\s*([^;]*);', d.body):
        e = parse_macro_body(m.group(1))
        if e is None:
            return UNK
        e = strip_wrappers(e)
        if e[0] == 'id' and e[1] != 'NULL':
            names.add(e[1])
    if len(names) > 1:
        return UNK
    pnames = {n for n in d.param_names() if n}
    if names & pnames:
        return UNK                                                # returns one of its arguments
    cell = ('id', names.pop()) if names else ('id', '__no_local__')
    return CellFlow(own, d, cell, 'ret').classify()


def out_params(d):
    """Positions and names of the `PyObject **` parameters of a C function variant."""
    out = []
    for i, (p, n) in enumerate(zip(d.params or [], d.param_names())):
        if n and re.search(r'PyObject\s*\*\s*\*\s*%s\s*$' % re.escape(n), p):
            out.append((i, n))
    return out


def out_class(own, d, pos):
    """Ownership class of the reference a variant stores through its out-parameter at position pos."""
    if d.kind == 'func':
        ops = dict(out_params(d))
        if pos not in ops or not d.body or re.search(r'^[ \t]*#', d.body, re.M):
            return UNK
        return CellFlow(own, d, ('un', '*', ('id', ops[pos])), 'out').classify()
    if d.kind == 'macro' and d.params is not None and pos < len(d.params):
        e = parse_macro_body(d.body)
        if e is None:
            return UNK
        e = strip_wrappers(e)
        if e[0] == 'call':
            where = [i for i, a in enumerate(e[2]) if strip_wrappers(a) == ('id', d.params[pos].strip())]
            if len(where) == 1:
                if where[0] in OUT_NEW_API.get(e[1], ()):
                    return NEW
                if where[0] in OUT_BORROWED_API.get(e[1], ()):
                    return BOR
    return UNK


def own_problems(decls, api=None):
    """-> (instances [(helper, [(decl, class)])], problems [(helper, decl, message)], undecided count)."""
    o = Ownership(decls, api)
    inst, probs, undecided = [], [], 0
    for name in sorted(decls):
        vs = [d for d in decls[name] if d.kind != 'proto']
        if not any(d.kind == 'macro' and d.params is not None for d in vs) and not (len(vs) >= 2 and any(d.kind == 'func' for d in vs)):
            continue
        # references stored through `PyObject **` out-parameters
        for pos, pname in sorted({op for d in vs if d.kind == 'func' for op in out_params(d)}) if len(vs) >= 2 else ():
            ocl = [(d, out_class(o, d, pos)) for d in vs]
            oknown = [(d, c) for d, c in ocl if c in (NEW, BOR, MIX)]
            if len(oknown) < 2:
                continue
            inst.append(('%s:*%s' % (name, pname), ocl))
            if len({c for d, c in oknown}) > 1 or any(c == MIX for d, c in oknown):
                bad = [x for x in oknown if x[1] == MIX] or [x for x in oknown if x[1] == BOR]
                desc = '; '.join('[%s, %s:%d] -> %s' % (cond_label(d), d.file, d.line, {NEW: 'NEW (owned) reference', BOR: 'BORROWED reference', MIX: 'owned on one path, borrowed on another'}[c]) for d, c in oknown)
                probs.append(('%s:*%s' % (name, pname), bad[0][0],
                              'the #if variants of %s store references of different ownership in *%s: %s. The callers release *%s unconditionally, so in the build configurations that select the borrowing '
                              'variant every call drops a reference the container still owns (use after free), the others are fine' % (name, pname, desc, pname)))
        cl = [(d, o.variant(d)) for d in vs]
        known = [(d, c) for d, c in cl if c in (NEW, BOR, MIX)]
        for d, c in cl:
            if id(d) in o.leaks:
                probs.append((name, d, '%s [%s, %s:%d] applies %s() to an expression that already is a new reference: the helper leaks one reference per call in that configuration only'
                              % (name, cond_label(d), d.file, d.line, o.leaks[id(d)])))
        if len(vs) < 2:
            continue
        if len(known) < 2:
            undecided += 1
            continue
        inst.append((name, cl))
        classes = {c for d, c in known}
        if len(classes) > 1 or MIX in classes:
            bad = [x for x in known if x[1] == MIX] or [x for x in known if x[1] == BOR]
            desc = '; '.join('[%s, %s:%d] -> %s reference' % (cond_label(d), d.file, d.line, {NEW: 'NEW (owned)', BOR: 'BORROWED', MIX: 'new on one arm, borrowed on another'}[c]) for d, c in known)
            probs.append((name, bad[0][0],
                          'the #if variants of %s hand the caller references of different ownership: %s. The callers are written once (they either Py_DECREF the result or they do not), '
                          'so one build configuration leaks a reference per call and the other releases an object it does not own (use after free)' % (name, desc)))
    return inst, probs, undecided


OWN_PC = ("#if CYTHON_A\n  #define __Pyx_GetRef(o, i) __Pyx_XNewRef(PyList_GetItem(o, i))\n#elif CYTHON_B\n  #define __Pyx_GetRef(o, i) ((void)(i), \\\n     (PyObject*) PyTuple_GET_ITEM((o), (i)))\n"
          "#else\n  #define __Pyx_GetRef(o, i) (likely((i) >= 0) ? PySequence_GetItem(o, i) : (PyErr_SetString(PyExc_IndexError, \"x\"), (PyObject*)NULL))\n#endif\n"
          "#if CYTHON_A\n  #define __Pyx_Item(o, i) PySequence_ITEM(o, i)\n#else\n  #define __Pyx_Item(o, i) __Pyx_NewRef(__Pyx_GetRef2(o, i))\n#endif\n"
          "#if CYTHON_A\n  #define __Pyx_GetRef2(o, i) PyTuple_GET_ITEM(o, i)\n#else\n  #define __Pyx_GetRef2(o, i) PyTuple_GetItem(o, i)\n#endif\n"
          "#if CYTHON_A\n  #define __Pyx_Leak(o, i) __Pyx_NewRef(PySequence_GetItem(o, i))\n#else\n  #define __Pyx_Leak(o, i) PySequence_GetItem(o, i)\n#endif\n"
          "#if CYTHON_A\nstatic int __Pyx_Lookup(PyObject *d, PyObject *k, PyObject **res) {\n  *res = PyDict_GetItemWithError(d, k);\n  if (*res == NULL) {\n    return PyErr_Occurred() ? -1 : 0;\n  }\n  return 1;\n}\n"
          "#else\n#define __Pyx_Lookup(d, k, res) PyDict_GetItemRef(d, k, res)\n#endif\n"
          "#if CYTHON_A\nstatic PyObject *__Pyx_Get(PyObject *d, PyObject *k) {\n  PyObject *v = PyDict_GetItemWithError(d, k);\n  if (unlikely(!v)) return NULL;\n  Py_INCREF(v);\n  return v;\n}\n"
          "#else\n#define __Pyx_Get(d, k) PyObject_GetItem(d, k)\n#endif\n")


def rule_own(ctx):
    r = Rule('C39-OWN', 'all #if variants of a function-like utility helper hand their caller a reference of the same ownership class (new vs borrowed; abstract evaluation of the '
             'macro bodies: casts/parentheses/comma/?: with NULL error arms, __Pyx_NewRef, nested helpers through the catalogue, C-API result ownership from the headers + the '
             'documented borrowed-reference table; C function variants by a small path-sensitive walk over one returned local / one out-parameter)', floor=19)
    inst, probs, undecided = own_problems(ctx.cat.decls)
    for name, cl in inst:
        r.inst('own:' + name, sample='%s: %s' % (name, ', '.join('%s=%s' % (cond_label(d), c) for d, c in cl)))
    for name, d, msg in probs:
        r.violate('own:' + name, UTIL + '/' + d.file, d.line, msg)
    r.info('%d multi-variant helpers with fewer than two variants of a decidable ownership class (statement macros, non-object results, C functions)' % undecided)
    pinst, pprobs, _ = own_problems(index_c_text(OWN_PC))
    r.positive_control(sorted({p[0] for p in pprobs}) == ['__Pyx_GetRef', '__Pyx_Leak', '__Pyx_Lookup:*res']
                       and {n for n, _ in pinst} == {'__Pyx_GetRef', '__Pyx_Item', '__Pyx_GetRef2', '__Pyx_Leak', '__Pyx_Lookup:*res', '__Pyx_Get'},
                       'borrowed variant next to two owning ones; NewRef of a new reference; out-parameter filled with a borrowed reference in one variant')
    return r


# ---------------------------------------------------------------------------------------------------- C39-FAM
# C-API name families that are *protocols* (applicable to objects of any concrete layout); every other family that has a type object
# `Py<Family>_Type` in the installed headers is the API of one concrete object layout.
ABSTRACT_FAMILIES = frozenset('Object Sequence Mapping Number Iter AIter Index Buffer Callable Vectorcall Err Exception Mem GC Eval Import ThreadState '
                              'Interpreter Sys OS Arg Unstable Codec Marshal Run Weakref BaseObject'.split())
# spellings of one concrete family (subtype relations of the layouts: the API of the right-hand family accepts the left-hand objects)
FAMILY_ALIAS = {'FrozenSet': 'Set', 'AnySet': 'Set', 'AnyDict': 'Dict', 'FrozenDict': 'Dict', 'ODict': 'Dict', 'Bool': 'Long', 'CMethod': 'CFunction'}
_FAM_NAME = re.compile(r'^(?:__Pyx_)?Py([A-Z][A-Za-z]*)_(\w+)$')
_CONCRETE = None


def concrete_families():
    """Families with a type object in the installed CPython headers (PyAPI_DATA(PyTypeObject) Py<Family>_Type), minus the protocol families."""
    global _CONCRETE
    if _CONCRETE is None:
        fams = set()
        inc = tables.cpython_include()
        for dp, dns, fns in os.walk(inc):
            for fn in fns:
                if fn.endswith('.h'):
                    try:
                        txt = open(os.path.join(dp, fn), encoding='utf-8', errors='replace').read()
                    except OSError:
                        continue
                    fams.update(re.findall(r'PyAPI_DATA\(\s*PyTypeObject\s*\)\s*Py([A-Z][A-Za-z]*)_Type\b', txt))
        fams = {FAMILY_ALIAS.get(f, f) for f in fams} - ABSTRACT_FAMILIES
        if not {'Tuple', 'List', 'Dict', 'Set', 'Bytes', 'ByteArray', 'Unicode', 'Long', 'Float'} <= fams:
            raise AnalysisError('type objects of the basic concrete families not found in the installed headers (%d families)' % len(fams))
        _CONCRETE = frozenset(fams)
    return _CONCRETE


def family_of(cname):
    """Concrete family named by a C-API / helper name, or None (protocol family, type check, unknown)."""
    m = _FAM_NAME.match(cname)
    if not m or m.group(2) in ('Check', 'CheckExact') or re.match(r'(?:From|New)', m.group(2)):
        return None                           # type checks accept any object; constructors/conversions take an object of ANOTHER kind
    proto = tables.cpython_api().get(cname)
    if proto is not None and (not proto[1] or not re.match(r'(?:const\s+)?Py\w*Object\s*\*', proto[1][0])):
        return None                           # first parameter is not an object (PyUnicode_DecodeUTF8(const char *, ...))
    f = FAMILY_ALIAS.get(m.group(1), m.group(1))
    return f if f in concrete_families() else None


def variant_families(d):
    """Concrete families of the calls that receive the helper's first macro parameter as their first argument: {family: callee}; None = body not understood."""
    if d.kind != 'macro' or not d.params:
        return None
    e = parse_macro_body(d.body)
    if e is None:
        return None
    first = d.params[0].strip()
    out = {}
    for x in cexpr.walk(e):
        if x[0] == 'call' and x[2] and strip_wrappers(x[2][0]) == ('id', first):
            f = family_of(x[1])
            if f:
                out.setdefault(f, x[1])
    return out


def fam_problems(decls):
    """-> (instances [(helper, own family, [(decl, {family: callee})])], problems [(helper, decl, message)])."""
    inst, probs = [], []
    for name in sorted(decls):
        vs = [d for d in decls[name] if d.kind == 'macro' and d.params]
        if len([d for d in decls[name] if d.kind != 'proto']) < 2 or not vs:
            continue
        fams = [(d, variant_families(d)) for d in vs]
        fams = [(d, f) for d, f in fams if f]
        m = _FAM_NAME.match(name)
        own = family_of(name) if m and m.group(2) not in ('Check', 'CheckExact') else None
        if not fams or (len(fams) < 2 and own is None):
            continue
        inst.append((name, own, fams))
        done = False
        if own is not None:
            for d, f in fams:
                if own not in f:
                    done = True
                    probs.append((name, d, 'the variant of %s under [%s] (%s:%d) hands its first argument to %s, the C-API of the concrete type family %s, but the helper is the %s member of its table '
                                  '(the other variants use %s): in the build configurations that select this variant the %s-specific call is applied to a %s object - it fails with SystemError '
                                  '(bad internal call) or, for an unchecked macro, reads the wrong struct layout' % (
                                      name, cond_label(d), d.file, d.line, ', '.join(sorted(f.values())), '/'.join(sorted(f)), own,
                                      ', '.join(sorted({c for d2, f2 in fams if d2 is not d for c in f2.values()})) or 'none', '/'.join(sorted(f)), own)))
        if not done:
            for i, (d, f) in enumerate(fams):
                for d2, f2 in fams[i + 1:]:
                    if not set(f) & set(f2):
                        probs.append((name, d2, 'two #if variants of %s apply the concrete-type C-API of different object families to the same argument: [%s] calls %s (%s), [%s] calls %s (%s). '
                                      'The helper is used on one kind of object, so in one of the two build configurations the call fails (SystemError: bad internal call) or reads the wrong struct'
                                      % (name, cond_label(d), ', '.join(sorted(f.values())), '/'.join(sorted(f)), cond_label(d2), ', '.join(sorted(f2.values())), '/'.join(sorted(f2)))))
    return inst, probs


FAM_PC = ("#if CYTHON_S\n  #define __Pyx_PySet_GET_SIZE(o) PySet_GET_SIZE(o)\n  #define __Pyx_PyThing_Len(o) ((Py_ssize_t) PyTuple_GET_SIZE((PyObject*)(o)))\n  #define __Pyx_PyBytes_GET_SIZE(o) PyBytes_GET_SIZE(o)\n"
          "  #define __Pyx_PyList_Len(o) (PyList_Check(o) ? PyList_GET_SIZE(o) : PyObject_Size(o))\n"
          "#else\n  #define __Pyx_PySet_GET_SIZE(o) PyDict_Size(o)\n  #define __Pyx_PyThing_Len(o) PyList_Size(o)\n  #define __Pyx_PyBytes_GET_SIZE(o) PyBytes_Size(o)\n"
          "  #define __Pyx_PyList_Len(o) PySequence_Size(o)\n#endif\n")


def rule_fam(ctx):
    r = Rule('C39-FAM', 'the #if variants of a function-like utility helper apply the concrete-type C-API of ONE object family (Tuple/List/Dict/Set/Bytes/ByteArray/Unicode/Long/...; families '
             'from the type objects of the installed headers) to the helper\'s first argument, and that family is the one the helper is named after', floor=48)
    inst, probs = fam_problems(ctx.cat.decls)
    for name, own, fams in inst:
        r.inst('fam:' + name, sample='%s (%s): %s' % (name, own or '-', '; '.join('/'.join(sorted(f)) for d, f in fams)))
    for name, d, msg in probs:
        r.violate('fam:' + name, UTIL + '/' + d.file, d.line, msg)
    pinst, pprobs = fam_problems(index_c_text(FAM_PC))
    r.positive_control(sorted(p[0] for p in pprobs) == ['__Pyx_PySet_GET_SIZE', '__Pyx_PyThing_Len'] and len(pinst) == 4,
                       'Set helper calling the Dict API in one branch; Tuple API in one branch and List API in the other')
    return r


# ---------------------------------------------------------------------------------------------------- C39-SIGN
TC = 'TypeConversion.c'
PYLONG_PREFIX = '__Pyx_PyLong_'
# what the callers (written once for both layouts) rely on, by the name of the macro: f(sign, ndigits, first digit) ; compact = at most one digit
SIGN_SPEC = {
    'IsNeg': ('truth', lambda s, n, d: s < 0), 'IsNonNeg': ('truth', lambda s, n, d: s >= 0), 'IsZero': ('truth', lambda s, n, d: s == 0),
    'IsNonZero': ('truth', lambda s, n, d: s != 0), 'IsPos': ('truth', lambda s, n, d: s > 0), 'Sign': ('value', lambda s, n, d: s),
    'DigitCount': ('value', lambda s, n, d: n), 'SignedDigitCount': ('value', lambda s, n, d: s * n), 'IsCompact': ('implies', lambda s, n, d: n <= 1),
    'CompactValue': ('compact', lambda s, n, d: s * d), 'CompactValueUnsigned': ('compact', lambda s, n, d: d if s else 0),
}
SIGNED_CASTS = re.compile(r'^(?:signed\s+)?(?:int|long|long long|short|Py_ssize_t|sdigit|stwodigits|Py_hash_t|__Pyx_compact_pylong|PY_LONG_LONG)$')


class _Delegated(Exception):
    pass


class LayoutEval:
    """Evaluates the one-parameter __Pyx_PyLong_* macros of one PyLong layout on an abstract integer (its tag word or its ob_size, first digit)."""

    def __init__(self, macros, consts, layout):
        self.macros, self.consts, self.layout = macros, consts, layout      # macros: name -> [CDecl]
        self.asts = {}

    def ast_of(self, d):
        if id(d) not in self.asts:
            e = parse_macro_body(d.body)
            if e is None:
                raise AnalysisError('C39-SIGN: cannot parse the body of %s (%s:%d): %s' % (d.name, d.file, d.line, d.body))
            self.asts[id(d)] = e
        return self.asts[id(d)]

    def call_macro(self, d, args, prim, depth):
        if depth > 12:
            raise AnalysisError('C39-SIGN: macro expansion of %s does not terminate' % d.name)
        if len(args) != len(d.params):
            raise AnalysisError('C39-SIGN: %s called with %d arguments' % (d.name, len(args)))
        return self.ev(self.ast_of(d), dict(zip([p.strip() for p in d.params], args)), prim, depth + 1)

    def ev(self, e, env, prim, depth=0):
        k = e[0]
        if k in ('num', 'char'):
            return e[1]
        if k == 'id':
            if e[1] in env:
                return env[e[1]]
            if e[1] in self.consts:
                return self.consts[e[1]]
            raise AnalysisError('C39-SIGN: free identifier %s in the %s layout' % (e[1], self.layout))
        if k == 'cast':
            v = self.ev(e[2], env, prim, depth)
            if isinstance(v, int) and v < 0 and not SIGNED_CASTS.match(e[1].replace('const ', '').strip()):
                raise AnalysisError('C39-SIGN: cast of the negative value %d to `%s` is not modelled' % (v, e[1]))
            return v
        if k == 'comma':
            return self.ev(e[1][-1], env, prim, depth)
        if k == 'member':
            if e[2].split('.')[-1] == 'lv_tag' and isinstance(self.ev(e[1], env, prim, depth), tuple):
                if 'tag' not in prim:
                    raise AnalysisError('C39-SIGN: lv_tag read in the %s layout' % self.layout)
                return prim['tag']
            raise AnalysisError('C39-SIGN: member access ->%s is not modelled' % e[2])
        if k == 'tern':
            return self.ev(e[2] if self.truth(self.ev(e[1], env, prim, depth)) else e[3], env, prim, depth)
        if k == 'bin' and e[1] == '[]':
            b = strip_wrappers(e[2])
            if b[0] == 'call' and b[1] == PYLONG_PREFIX + 'Digits' and self.ev(e[3], env, prim, depth) == 0:
                return prim['digit0']
            raise AnalysisError('C39-SIGN: subscript is not modelled')
        if k == 'bin' and e[1] in ('&&', '||'):
            a = self.truth(self.ev(e[2], env, prim, depth))
            if (e[1] == '&&') != a:
                return int(a)
            return int(self.truth(self.ev(e[3], env, prim, depth)))
        if k in ('un', 'bin'):
            vals = [self.ev(x, env, prim, depth) for x in e[2:]]
            if not all(isinstance(v, int) for v in vals):
                raise AnalysisError('C39-SIGN: arithmetic on the object pointer')
            try:
                return cexpr.evaluate((k, e[1]) + tuple(('num', v) for v in vals), {})
            except cexpr.EvalError as x:
                raise AnalysisError('C39-SIGN: %s' % x)
        if k == 'call':
            name, args = e[1], e[2]
            if name in ('likely', 'unlikely') and len(args) == 1:
                return self.ev(args[0], env, prim, depth)
            vals = [self.ev(a, env, prim, depth) for a in args]
            if name == 'Py_SIZE' and len(vals) == 1 and isinstance(vals[0], tuple):
                if 'size' not in prim:
                    raise AnalysisError('C39-SIGN: Py_SIZE() read in the %s layout (ob_size is not the digit count there)' % self.layout)
                return prim['size']
            if name == '__Pyx_sst_abs' and len(vals) == 1 and isinstance(vals[0], int):
                return abs(vals[0])
            if name in self.macros:
                cands = self.macros[name]
                if len(cands) != 1:
                    raise AnalysisError('C39-SIGN: %d variants of %s in the %s layout' % (len(cands), name, self.layout))
                return self.call_macro(cands[0], vals, prim, depth)
            if re.match(r'Py[A-Z]', name) and depth <= 1:
                raise _Delegated(name)
            raise AnalysisError('C39-SIGN: call of %s is not modelled (%s layout)' % (name, self.layout))
        raise AnalysisError('C39-SIGN: expression node %s is not modelled' % k)

    @staticmethod
    def truth(v):
        if not isinstance(v, int):
            raise AnalysisError('C39-SIGN: truth value of a pointer')
        return v != 0


def _pylong_consts(text, r=None):
    """Fallback #defines of the tag-word constants in the utility text, cross-checked with the installed cpython/longintrepr.h."""
    consts = {m.group(1): int(m.group(2), 0) for m in re.finditer(r'^[ \t]*#[ \t]*define[ \t]+(_PyLong_\w+)[ \t]+(0[xX][0-9a-fA-F]+|\d+)[ \t]*$', strip_c_comments(text), re.M)}
    hdr = {}
    p = os.path.join(tables.cpython_include(), 'cpython', 'longintrepr.h')
    if os.path.exists(p):
        hdr = {m.group(1): int(m.group(2), 0) for m in re.finditer(r'^[ \t]*#[ \t]*define[ \t]+(_PyLong_\w+)[ \t]+(0[xX][0-9a-fA-F]+|\d+)[ \t]*$',
                                                                  strip_c_comments(open(p, encoding='utf-8', errors='replace').read()), re.M)}
    return consts, hdr


def sign_layout_sets(decls):
    """-> {'tag': (prefix, {name: [decl]}), 'size': (...)}: the one-parameter __Pyx_PyLong_* macros of the two integer layouts, found through the primitive they read."""
    ms = [d for n, ds in decls.items() if n.startswith(PYLONG_PREFIX) for d in ds if d.kind == 'macro' and d.params is not None and len(d.params) == 1]
    seeds = {'tag': [d for d in ms if re.search(r'\blv_tag\b', d.body or '')], 'size': [d for d in ms if re.search(r'\bPy_SIZE\s*\(', d.body or '')]}
    pref = {}
    for lay, sd in seeds.items():
        if not sd:
            raise AnalysisError('C39-SIGN: no %s macro reads %s' % (PYLONG_PREFIX + '*', 'lv_tag' if lay == 'tag' else 'Py_SIZE()'))
        p = list(sd[0].conds)
        for d in sd[1:]:
            n = 0
            while n < min(len(p), len(d.conds)) and p[n] == d.conds[n]:
                n += 1
            p = p[:n]
        pref[lay] = tuple(p)
    a, b = pref['tag'], pref['size']
    if a[:len(b)] == b or b[:len(a)] == a:
        raise AnalysisError('C39-SIGN: the tag-word and the ob_size macros are not in separate #if branches (%r / %r)' % (a, b))
    out = {}
    for lay in ('tag', 'size'):
        p, other = pref[lay], pref['size' if lay == 'tag' else 'tag']
        env = collections.defaultdict(list)
        for d in ms:
            c = tuple(d.conds)
            if c[:len(p)] == p or (p[:len(c)] == c and other[:len(c)] == c):       # inside the layout branch, or shared by both layouts
                env[d.name].append(d)
        out[lay] = (p, dict(env))
    return out


def sign_points():
    """The complete abstract domain: sign x digit count (0 digits <=> zero), first digit in two values (0/garbage for zero)."""
    for s in (-1, 0, 1):
        for n in ((0,) if s == 0 else (1, 2, 3)):
            yield s, n


def sign_problems(decls, consts):
    """-> (instances [(key, sample)], problems [(macro, decl, msg)], infos)."""
    lays = sign_layout_sets(decls)
    nsb, mask = consts.get('_PyLong_NON_SIZE_BITS'), consts.get('_PyLong_SIGN_MASK')
    if nsb is None or mask is None:
        raise AnalysisError('C39-SIGN: _PyLong_NON_SIZE_BITS / _PyLong_SIGN_MASK not defined next to the tag-word macros')
    inst, probs, infos = [], [], []
    tables_ = {}
    human = {'tag': 'CPython >= 3.12 tag word (lv_tag)', 'size': 'CPython < 3.12 ob_size'}
    for lay, (prefix, macros) in lays.items():
        ev = LayoutEval(macros, consts, lay)
        for name in sorted(macros):
            short = name[len(PYLONG_PREFIX):]
            for d in macros[name]:
                if short == 'Digits':
                    continue
                key = 'sign:%s@%s' % (short, lay) + ('' if len(macros[name]) == 1 else '[%s]' % cond_label(d))
                kind, spec = SIGN_SPEC.get(short, ('free', None))
                vals, bad, delegated = {}, None, None
                for s, n in sign_points():
                    if kind == 'compact' and n > 1:
                        continue
                    digits = ((0,) if lay == 'tag' else (0, 9)) if s == 0 else (1, 5)
                    for dg in digits:
                        prim = {'digit0': dg}
                        if lay == 'tag':
                            prim['tag'] = (n << nsb) | {1: 0, 0: 1, -1: 2}[s]
                        else:
                            prim['size'] = s * n
                        try:
                            v = ev.call_macro(d, [('obj',)], prim, 0)
                        except _Delegated as x:
                            delegated = str(x)
                            break
                        vals[(s, n, dg)] = v
                        if spec is not None and bad is None:
                            want = spec(s, n, dg)
                            # IsCompact only gates a fast path: answering `no` for a one-digit int is slower, not wrong; `yes` for a longer one is wrong
                            ok = (bool(v) == bool(want)) if kind == 'truth' else ((not v) or bool(want)) if kind == 'implies' else (v == want)
                            if not ok:
                                bad = (s, n, dg, v, want)
                    if delegated:
                        break
                if delegated:
                    infos.append('%s: delegated to %s() of CPython, not evaluated' % (key, delegated))
                    continue
                inst.append((key, '%s = %s' % (key, sorted(set(vals.values())))))
                tables_.setdefault(short, {}).setdefault(lay, []).append((d, vals, kind))
                if bad:
                    s, n, dg, v, want = bad
                    what = {-1: 'a negative', 0: 'the', 1: 'a positive'}[s] + ' int ' + ('zero' if s == 0 else 'of %d digit(s), first digit %d' % (n, dg))
                    probs.append((name, d, '%s in the %s layout [%s, %s:%d] evaluates to %s for %s (%s), but its name promises %s - as the other layout and the generic (non-internals) '
                                  'code path give. With CYTHON_USE_PYLONG_INTERNALS=1 on %s the integer fast paths (comparisons, arithmetic, conversion to C integers, truth tests) compute '
                                  'wrong results, with the switch off or on the other CPython versions they are right'
                                  % (name, human[lay], cond_label(d), d.file, d.line, v, what, ('lv_tag = %d' % ((n << nsb) | {1: 0, 0: 1, -1: 2}[s])) if lay == 'tag' else 'Py_SIZE = %d' % (s * n),
                                     ('true' if want else 'false') if kind in ('truth', 'implies') else want, 'CPython >= 3.12' if lay == 'tag' else 'CPython < 3.12')))
    # report the root cause only: a macro that is wrong because a macro it expands is wrong is named in the message of that one
    roots, derived = [], collections.defaultdict(list)
    for name, d, msg in probs:
        lay = next(l for l in lays if any(d is x for x in lays[l][1].get(name, ())))
        e = parse_macro_body(d.body)
        callees = {x[1] for x in cexpr.walk(e) if x[0] == 'call'} if e else set()
        culprit = [(n2, d2) for n2, d2, _ in probs if n2 in callees and n2 != name and any(d2 is x for x in lays[lay][1].get(n2, ()))]
        if culprit:
            derived[id(culprit[0][1])].append(name)
        else:
            roots.append((name, d, msg))
    probs = [(name, d, msg + (' (wrong as a consequence: %s)' % ', '.join(sorted(set(derived[id(d)]))) if derived.get(id(d)) else '')) for name, d, msg in roots] \
        if roots else probs
    # names without a fixed meaning: the two layouts must still agree
    for short, per in sorted(tables_.items()):
        if short in SIGN_SPEC or len(per) < 2:
            continue
        for d1, v1, _ in per['tag']:
            for d2, v2, _ in per['size']:
                common = [(s, n) for (s, n, dg) in v1 if any(k[:2] == (s, n) for k in v2)]
                for s, n in common:
                    a = {v for k, v in v1.items() if k[:2] == (s, n)}
                    b = {v for k, v in v2.items() if k[:2] == (s, n)}
                    if a != b:
                        probs.append((PYLONG_PREFIX + short, d1, '%s%s gives %s in the tag-word layout (%s:%d) and %s in the ob_size layout (%s:%d) for sign %d / %d digit(s): modules built with '
                                      'CYTHON_USE_PYLONG_INTERNALS behave differently on CPython >= 3.12 and < 3.12' % (PYLONG_PREFIX, short, sorted(a), d1.file, d1.line, sorted(b), d2.file, d2.line, s, n)))
                        break
    return inst, probs, infos


SIGN_PC = ("#if CYTHON_USE_PYLONG_INTERNALS\n#if NEWLAYOUT\n  #define __Pyx_PyLong_SignBits(x)  ((int) (((PyLongObject*)x)->long_value.lv_tag & _PyLong_SIGN_MASK))\n"
           "  #define __Pyx_PyLong_IsNeg(x)  ((__Pyx_PyLong_SignBits(x) & %s) != 0)\n  #define __Pyx_PyLong_IsZero(x)  (__Pyx_PyLong_SignBits(x) == 1)\n"
           "  #define __Pyx_PyLong_Sign(x)  (1 - __Pyx_PyLong_SignBits(x))\n  #define __Pyx_PyLong_Halves(x)  (((PyLongObject*)x)->long_value.lv_tag >> 4)\n"
           "#else\n  #define __Pyx_PyLong_IsNeg(x)  (Py_SIZE(x) < 0)\n  #define __Pyx_PyLong_IsZero(x)  (!Py_SIZE(x))\n  #define __Pyx_PyLong_Sign(x)  ((Py_SIZE(x) > 0) - (Py_SIZE(x) < 0))\n"
           "  #define __Pyx_PyLong_Halves(x)  (__Pyx_sst_abs(Py_SIZE(x)) %s)\n#endif\n  #define __Pyx_PyLong_IsNonZero(x)  (!__Pyx_PyLong_IsZero(x))\n#else\n  #define __Pyx_PyLong_IsNonZero(x)  PyObject_IsTrue(x)\n#endif\n")


def rule_sign(ctx):
    r = Rule('C39-SIGN', 'the sign/size macros of the two PyLong layouts (3.12 tag word vs ob_size; CYTHON_USE_PYLONG_INTERNALS) give, on every abstract integer (sign x digit count), the value their '
             'name promises and hence the same value in both layouts (macro bodies expanded and evaluated by the checker over the complete domain)', floor=20)
    rel = UTIL + '/' + TC
    consts, hdr = _pylong_consts(ctx.read(rel))
    for k in sorted(consts):
        if k in hdr:
            r.inst('sign:const:' + k, sample='%s = %d (header %d)' % (k, consts[k], hdr[k]))
            if consts[k] != hdr[k]:
                r.violate('sign:const:' + k, rel, next((i + 1 for i, l in enumerate(ctx.read(rel).split('\n')) if re.match(r'\s*#\s*define\s+%s\b' % k, l)), 1), 'the fallback `#define %s %d` of TypeConversion.c differs from cpython/longintrepr.h (%d): where the header does not export the constant, the tag word '
                          'of every int is decoded with the wrong field layout' % (k, consts[k], hdr[k]))
    decls = {n: [d for d in ds if d.file == TC] for n, ds in ctx.cat.decls.items() if n.startswith(PYLONG_PREFIX)}
    inst, probs, infos = sign_problems(decls, consts)
    for key, sample in inst:
        r.inst(key, sample=sample)
    seen = set()
    for name, d, msg in probs:
        k = (name, tuple(d.conds))
        if k not in seen:
            seen.add(k)
            r.violate('sign:' + name, UTIL + '/' + d.file, d.line, msg)
    for i in infos:
        r.info(i)
    c = {'_PyLong_SIGN_MASK': 3, '_PyLong_NON_SIZE_BITS': 3}
    good = sign_problems(index_c_text(SIGN_PC % ('2', '/ 2'), TC), c)
    bad = sign_problems(index_c_text(SIGN_PC % ('1', ''), TC), c)
    r.positive_control(not good[1] and len(good[0]) == 11 and {p[0] for p in bad[1]} == {PYLONG_PREFIX + 'Halves', PYLONG_PREFIX + 'IsNeg'},
                       'IsNeg tests the zero bit of the tag word; an unnamed macro differs between the layouts')
    return r


# ---------------------------------------------------------------------------------------------------- C39-STRTAB
CODE_PY = 'Cython/Compiler/Code.py'
DECOMPRESS_CALL = re.compile(r'\b(__Pyx_Decompress\w*)\s*\(')
_MARK = re.compile(r'\x00(\d+)\x00')


def template_of(node):
    """String-building expression -> list of parts (str | ast expression) or None when it is not text (f-string, %-format, +, .format)."""
    if isinstance(node, ast.Constant) and isinstance(node.value, str):
        return [node.value]
    if isinstance(node, ast.JoinedStr):
        out = []
        for v in node.values:
            if isinstance(v, ast.Constant):
                out.append(str(v.value))
            elif isinstance(v, ast.FormattedValue):
                out.append(v.value)
        return out
    if isinstance(node, ast.BinOp) and isinstance(node.op, ast.Add):
        l, r = template_of(node.left), template_of(node.right)
        if l is None and r is None:
            return None
        unwrap = lambda n: n.args[0] if isinstance(n, ast.Call) and isinstance(n.func, ast.Name) and n.func.id in ('str', 'repr') and len(n.args) == 1 else n
        return (l if l is not None else [unwrap(node.left)]) + (r if r is not None else [unwrap(node.right)])
    if isinstance(node, ast.BinOp) and isinstance(node.op, ast.Mod):
        l = template_of(node.left)
        if l is None or not all(isinstance(p, str) for p in l):
            return None
        fmt = ''.join(l)
        args = list(node.right.elts) if isinstance(node.right, ast.Tuple) else [node.right]
        named = {k.value: v for k, v in zip(node.right.keys, node.right.values) if isinstance(k, ast.Constant)} if isinstance(node.right, ast.Dict) else None
        out, pos, i = [], 0, 0
        for m in re.finditer(r'%(?:\((\w+)\))?[-+ #0]*\d*(?:\.\d+)?([sdirxX%])', fmt):
            out.append(fmt[pos:m.start()])
            pos = m.end()
            if m.group(2) == '%':
                out.append('%')
            elif m.group(1):
                if named is None or m.group(1) not in named:
                    return None
                out.append(named[m.group(1)])
            else:
                if named is not None or i >= len(args):
                    return None
                out.append(args[i])
                i += 1
        out.append(fmt[pos:])
        return out
    if isinstance(node, ast.Call) and isinstance(node.func, ast.Attribute) and node.func.attr == 'format' and not any(isinstance(a, ast.Starred) for a in node.args):
        l = template_of(node.func.value)
        if l is None or not all(isinstance(p, str) for p in l):
            return None
        fmt = ''.join(l)
        kw = {k.arg: k.value for k in node.keywords if k.arg}
        out, pos, i = [], 0, 0
        for m in re.finditer(r'\{\{|\}\}|\{(\w*)(?:![rsa])?(?::[^{}]*)?\}', fmt):
            out.append(fmt[pos:m.start()])
            pos = m.end()
            if m.group(0) in ('{{', '}}'):
                out.append(m.group(0)[0])
                continue
            f = m.group(1)
            if f == '':
                f, i = str(i), i + 1
            if f.isdigit():
                if int(f) >= len(node.args):
                    return None
                out.append(node.args[int(f)])
            elif f in kw:
                out.append(kw[f])
            else:
                return None
        out.append(fmt[pos:])
        return out
    return None


def marked(parts):
    """Template parts -> (text with \\0k\\0 markers for the expression parts, [expressions])."""
    txt, exprs = '', []
    for p in parts:
        if isinstance(p, str):
            txt += p
        else:
            txt += '\x00%d\x00' % len(exprs)
            exprs.append(p)
    return txt, exprs


class PyScope:
    """Name resolution through single-assignment locals, loop targets over locally built lists and parameters with a unique call site (one module)."""

    def __init__(self, tree):
        self.tree = tree
        self.parent = {}
        for n in ast.walk(tree):
            for c in ast.iter_child_nodes(n):
                self.parent[id(c)] = n
        self.funcs = [n for n in ast.walk(tree) if isinstance(n, (ast.FunctionDef, ast.AsyncFunctionDef))]
        self._own = {}
        self.stale = []

    def ancestors(self, node):
        n = self.parent.get(id(node))
        while n is not None:
            yield n
            n = self.parent.get(id(n))

    def func_of(self, node):
        for a in self.ancestors(node):
            if isinstance(a, (ast.FunctionDef, ast.AsyncFunctionDef, ast.Lambda)):
                return a
        return None

    def qualname(self, fn):
        names = [fn.name]
        for a in self.ancestors(fn):
            if isinstance(a, (ast.ClassDef, ast.FunctionDef)):
                names.append(a.name)
        return '.'.join(reversed(names))

    def own_nodes(self, fn):
        """Nodes of fn not inside a nested function/lambda/class scope."""
        if id(fn) not in self._own:
            out, todo = [], list(ast.iter_child_nodes(fn))
            while todo:
                n = todo.pop()
                out.append(n)
                if not isinstance(n, (ast.FunctionDef, ast.AsyncFunctionDef, ast.Lambda, ast.ClassDef)):
                    todo.extend(ast.iter_child_nodes(n))
            self._own[id(fn)] = out
        return self._own[id(fn)]

    @staticmethod
    def _target_index(target, name):
        """(found, index) of a name in an assignment/loop target."""
        if isinstance(target, ast.Name):
            return (target.id == name, None)
        if isinstance(target, (ast.Tuple, ast.List)):
            for i, e in enumerate(target.elts):
                if isinstance(e, ast.Name) and e.id == name:
                    return (True, i)
        return (False, None)

    def binding(self, name, site):
        """-> ('value', expr) | ('unpack', expr, i) | ('iter', For, i) | ('param', fn, i) | None (ambiguous / not local)."""
        fn = self.func_of(site)
        if fn is None or isinstance(fn, ast.Lambda):
            return None
        nodes = list(self.own_nodes(fn))
        assigns, loops = [], []
        for n in nodes:
            if isinstance(n, ast.Assign):
                for t in n.targets:
                    ok, i = self._target_index(t, name)
                    if ok:
                        assigns.append(('value', n.value) if i is None else ('unpack', n.value, i))
            elif isinstance(n, ast.AnnAssign) and isinstance(n.target, ast.Name) and n.target.id == name and n.value is not None:
                assigns.append(('value', n.value))
            elif isinstance(n, (ast.AugAssign, ast.NamedExpr)) and isinstance(n.target, ast.Name) and n.target.id == name:
                return None
            elif isinstance(n, (ast.For, ast.AsyncFor)):
                ok, i = self._target_index(n.target, name)
                if ok:
                    loops.append((n, i))
            elif isinstance(n, ast.comprehension):
                continue
            elif isinstance(n, (ast.With, ast.AsyncWith)):
                if any(it.optional_vars is not None and self._target_index(it.optional_vars, name)[0] for it in n.items):
                    return None
            elif isinstance(n, (ast.Global, ast.Nonlocal)) and name in n.names:
                return None
        anc = list(self.ancestors(site))
        enclosing = [(l, i) for l, i in loops if any(a is l for a in anc) and not any(site is x or any(a is x for a in anc) for x in [l.iter])]
        if enclosing:
            l, i = enclosing[0] if len(enclosing) == 1 else min(enclosing, key=lambda li: [id(a) for a in anc].index(id(li[0])))
            inside = {id(x) for x in ast.walk(l)}
            if not any(id(a[1]) in inside for a in assigns):
                return ('iter', l, i)
            return None
        # loops that bind the name elsewhere: harmless only when they start after the site and share no loop with it
        site_loops = [a for a in anc if isinstance(a, (ast.For, ast.While, ast.AsyncFor))]
        for l, i in loops:
            if l.lineno <= getattr(site, 'lineno', 0) or any(any(a is sl for a in self.ancestors(l)) for sl in site_loops):
                return None
        if len(assigns) == 1:
            aloops = [a for a in self.ancestors(assigns[0][1]) if isinstance(a, (ast.For, ast.While, ast.AsyncFor))]
            if any(not any(a is l for a in anc) for l in aloops):
                return ('stale', aloops[0])   # assigned inside a loop the site is not part of: the value of that loop's LAST iteration
            return assigns[0]
        if not assigns:
            a = fn.args
            params = [x.arg for x in a.posonlyargs + a.args]
            if name in params:
                return ('param', fn, params.index(name))
            if name in [x.arg for x in a.kwonlyargs]:
                return ('param', fn, name)
        return None

    def call_sites(self, fn):
        out = []
        for n in ast.walk(self.tree):
            if isinstance(n, ast.Call) and ((isinstance(n.func, ast.Name) and n.func.id == fn.name) or (isinstance(n.func, ast.Attribute) and n.func.attr == fn.name)):
                out.append(n)
        return out

    def elements(self, it, site):
        """Element expressions of an iterable built locally: [(expr, site)] or None."""
        while isinstance(it, ast.Call) and isinstance(it.func, ast.Name) and it.func.id in ('reversed', 'sorted', 'list', 'tuple', 'iter') and len(it.args) == 1 and not it.keywords:
            it = it.args[0]
        if isinstance(it, (ast.List, ast.Tuple)):
            return [(e, site) for e in it.elts]
        if not isinstance(it, ast.Name):
            return None
        b = self.binding(it.id, site)
        if not b or b[0] != 'value' or not isinstance(b[1], (ast.List, ast.Tuple)):
            return None
        out = [(e, b[1]) for e in b[1].elts]
        fn = self.func_of(site)
        for n in self.own_nodes(fn):
            if isinstance(n, ast.Attribute) and isinstance(n.value, ast.Name) and n.value.id == it.id:
                call = self.parent.get(id(n))
                if n.attr == 'append' and isinstance(call, ast.Call) and call.func is n and len(call.args) == 1:
                    out.append((call.args[0], call))
                elif n.attr in ('extend', 'insert', 'pop', 'remove', 'clear', 'sort', 'reverse', '__setitem__'):
                    return None
            elif isinstance(n, ast.Subscript) and isinstance(n.value, ast.Name) and n.value.id == it.id and isinstance(n.ctx, (ast.Store, ast.Del)):
                return None
        return out

    def resolve(self, e, site, depth=0):
        """Expression with its local names replaced by the expressions they stand for (a new ast; unresolvable names stay, tagged with their scope)."""
        if depth > 40:
            raise AnalysisError('C39-STRTAB: name resolution does not terminate')
        if isinstance(e, ast.Name):
            b = self.binding(e.id, site)
            if b is None:
                fn = self.func_of(site)
                return ast.Name(id='%s@%s' % (e.id, self.qualname(fn) if fn is not None and not isinstance(fn, ast.Lambda) else ''), ctx=ast.Load())
            if b[0] == 'stale':
                self.stale.append(e.id)
                return ast.Name(id='<last-iteration>%s' % e.id, ctx=ast.Load())
            if b[0] == 'value':
                return self.resolve(b[1], b[1], depth + 1)
            if b[0] == 'unpack':
                v = self.resolve(b[1], b[1], depth + 1)
                if isinstance(v, ast.Tuple) and b[2] < len(v.elts):
                    return v.elts[b[2]]
                return ast.Subscript(value=v, slice=ast.Constant(value=b[2]), ctx=ast.Load())
            if b[0] == 'iter':
                loop, i = b[1], b[2]
                els = self.elements(loop.iter, loop)
                if els and len(els) == 1:
                    x, xsite = els[0]
                    if i is None:
                        return self.resolve(x, xsite, depth + 1)
                    if isinstance(x, ast.Tuple) and i < len(x.elts):
                        return self.resolve(x.elts[i], xsite, depth + 1)
                it = self.resolve(loop.iter, loop, depth + 1)
                return ast.Subscript(value=ast.Call(func=ast.Name(id='<element-of>', ctx=ast.Load()), args=[it], keywords=[]),
                                     slice=ast.Constant(value=i), ctx=ast.Load())
            if b[0] == 'param':
                fn, i = b[1], b[2]
                sites = self.call_sites(fn)
                if len(sites) == 1:
                    c = sites[0]
                    if isinstance(i, int):
                        params = [x.arg for x in fn.args.posonlyargs + fn.args.args]
                        pname = params[i]
                        if isinstance(c.func, ast.Attribute) and params and params[0] in ('self', 'cls'):
                            i -= 1
                        if 0 <= i < len(c.args) and not any(isinstance(a, ast.Starred) for a in c.args):
                            return self.resolve(c.args[i], c, depth + 1)
                    else:
                        pname = i
                    for k in c.keywords:
                        if k.arg == pname:
                            return self.resolve(k.value, c, depth + 1)
                return ast.Name(id='%s@%s' % (e.id, self.qualname(fn)), ctx=ast.Load())
        if isinstance(e, ast.AST):
            new = type(e)()
            for f, v in ast.iter_fields(e):
                if isinstance(v, list):
                    setattr(new, f, [self.resolve(x, site, depth) if isinstance(x, ast.AST) else x for x in v])
                elif isinstance(v, ast.AST):
                    setattr(new, f, self.resolve(v, site, depth) if not isinstance(v, ast.expr_context) else v)
                else:
                    setattr(new, f, v)
            return new
        return e


def _dump(e):
    return ast.dump(e, annotate_fields=False) if isinstance(e, ast.AST) else repr(e)


def _src(e):
    try:
        return ast.unparse(e)
    except Exception:
        return _dump(e)


def emissions(scope, fn):
    """[(call node, marked text, [exprs])] for every string template passed as a call argument inside fn, in source order."""
    out = []
    for n in scope.own_nodes(fn):
        if isinstance(n, ast.Call):
            for a in n.args:
                t = template_of(a)
                if t is not None and any(isinstance(p, str) and p for p in t):
                    txt, exprs = marked(t)
                    out.append((n, txt, exprs))
    out.sort(key=lambda x: (x[0].lineno, x[0].col_offset))
    return out


def decompress_disablers(decls):
    """From the C side: {macro: helper} for `#ifdef M` / `#if defined(M)` blocks at the top of a __Pyx_Decompress* helper that `return NULL`."""
    out = {}
    for name, ds in decls.items():
        if not DECOMPRESS_CALL.match(name + '('):
            continue
        for d in ds:
            if d.kind != 'func' or not d.body:
                continue
            for m in re.finditer(r'^[ \t]*#[ \t]*(?:ifdef[ \t]+(\w+)|if[ \t]+defined[ \t]*\(?[ \t]*(\w+)[ \t]*\)?[ \t]*$)(.*?)^[ \t]*#[ \t]*(?:else|elif|endif)', d.body, re.M | re.S):
                if re.search(r'\breturn\s+(?:NULL|0)\s*;', m.group(3)):
                    out[m.group(1) or m.group(2)] = name
    return out


def c_param_role(ptext):
    """Role of a parameter of a decompress helper, from its declaration."""
    m = re.search(r'([A-Za-z_]\w*)\s*$', ptext)
    name = m.group(1) if m else ''
    if re.search(r'char\s*\*', ptext):
        return 'data', name
    if 'uncompressed' in name or 'decompressed' in name or re.search(r'(?:^|_)(?:out|dst|result)_?(?:len|length|size)', name):
        return 'plain-length', name
    if re.search(r'len|size', name):
        return 'data-length', name
    return 'other', name


def strtab_problems(tree, decls, relname='Code.py'):
    """-> (instances [(key, sample)], problems [(key, line, message)], infos)."""
    scope = PyScope(tree)
    inst, probs, infos = [], [], []
    disablers = decompress_disablers(decls)
    found = 0
    for fn in scope.funcs:
        ems = emissions(scope, fn)
        hits = [(c, txt, ex, m) for c, txt, ex in ems for m in DECOMPRESS_CALL.finditer(txt) if not re.match(r'\s*#\s*define', txt)]
        if not hits:
            continue
        qn = scope.qualname(fn)
        for call, txt, exprs, m in hits:
            found += 1
            helper = m.group(1)
            rp = cutil.match_paren(txt, m.end() - 1)
            if rp < 0:
                raise AnalysisError('C39-STRTAB: unbalanced emitted call of %s in %s' % (helper, qn))
            cargs = split_args(txt[m.end():rp])
            protos = [d for d in decls.get(helper, []) if d.kind in ('func', 'proto')]
            if not protos:
                raise AnalysisError('C39-STRTAB: %s (emitted by %s) has no prototype in Cython/Utility' % (helper, qn))
            params = protos[0].params or []
            if len(params) != len(cargs):
                probs.append(('strtab:%s:%s:arity' % (qn, helper), call.lineno, '%s emits `%s(...)` with %d arguments, the helper takes %d (%s): the generated module does not compile in the configurations '
                              'that select this branch' % (qn, helper, len(cargs), len(params), ', '.join(params))))
                continue
            roles = [c_param_role(p) for p in params]
            # the C variable passed as data and the array written under that name
            data_i = [i for i, (r_, _) in enumerate(roles) if r_ == 'data']
            if len(data_i) != 1:
                raise AnalysisError('C39-STRTAB: cannot identify the data parameter of %s(%s)' % (helper, ', '.join(params)))
            cvar = cargs[data_i[0]].strip()
            mm = _MARK.fullmatch(cvar)
            if mm:
                v = scope.resolve(exprs[int(mm.group(1))], call)
                cvar = v.value if isinstance(v, ast.Constant) and isinstance(v.value, str) else None
            if not cvar or not re.fullmatch(r'[A-Za-z_]\w*', cvar):
                raise AnalysisError('C39-STRTAB: the data argument of the emitted %s call in %s is not a C identifier' % (helper, qn))
            written = find_written_array(scope, fn, call, cvar)
            if written is None:
                raise AnalysisError('C39-STRTAB: no array written under the C name `%s` before the emitted %s call in %s' % (cvar, helper, qn))
            wexpr, wsite = written
            wres = scope.resolve(wexpr, wsite)
            for i, ((role, pname), carg) in enumerate(zip(roles, cargs)):
                if role in ('data', 'other'):
                    continue
                key = 'strtab:%s:%s:%s' % (qn, helper, pname)
                mm = _MARK.fullmatch(carg.strip())
                if not mm:
                    raise AnalysisError('C39-STRTAB: argument `%s` of the emitted %s call in %s is not a single interpolated value' % (carg, helper, qn))
                del scope.stale[:]
                ares = scope.resolve(exprs[int(mm.group(1))], call)
                if scope.stale:
                    inst.append((key, '%s <- %s' % (key, _src(exprs[int(mm.group(1))]))))
                    probs.append((key, call.lineno, '%s emits `%s(%s, ...)` with `%s` for the C parameter `%s`, but `%s` is assigned inside another loop: every emitted `#if (CYTHON_COMPRESS_STRINGS)` branch '
                                  'gets the value of that loop\'s last iteration instead of the length that belongs to its own array - all but one compression setting decompress the wrong number of bytes'
                                  % (qn, helper, cvar, _src(exprs[int(mm.group(1))]), pname, scope.stale[0])))
                    continue
                if not (isinstance(ares, ast.Call) and isinstance(ares.func, ast.Name) and ares.func.id.split('@')[0] == 'len' and len(ares.args) == 1):
                    raise AnalysisError('C39-STRTAB: argument %s of the emitted %s call in %s is `%s`, not a len(...) of a local value' % (pname, helper, qn, _src(ares)))
                got = ares.args[0]
                if role == 'data-length':
                    want, wtxt = wres, 'the array written as `%s` (%s)' % (cvar, _src(wexpr))
                else:
                    if not (isinstance(wres, ast.Call) and len(wres.args) == 1 and not wres.keywords):
                        if any(p_[0].startswith('strtab:%s:%s:' % (qn, helper)) for p_ in probs):
                            continue                  # already reported: the array written under this name is not the compressed one
                        raise AnalysisError('C39-STRTAB: the array `%s` emitted before %s in %s is not the result of a one-argument compress call (%s)' % (cvar, helper, qn, _src(wres)))
                    want, wtxt = wres.args[0], 'the data that was compressed into `%s` (%s)' % (cvar, _src(wres.args[0])[:80])
                inst.append((key, '%s <- %s' % (key, _src(exprs[int(mm.group(1))]))))
                if _dump(got) != _dump(want):
                    probs.append((key, call.lineno, '%s emits `%s(%s, ...)` with len(%s) for the C parameter `%s`, which must be the length of %s: in the build configurations whose '
                                  '`#if (CYTHON_COMPRESS_STRINGS)` branch contains this call the decompressor reads the wrong number of bytes / allocates the wrong result size - the string table of the '
                                  'module is truncated, garbage or the import fails, while the other compression settings work' % (qn, helper, cvar, _src(got)[:80], pname, wtxt)))
        # a preprocessor branch must not disable the helper it calls
        for seg in emitted_segments(scope, fn):
            calls = {m.group(1) for c, txt, ex in seg for m in DECOMPRESS_CALL.finditer(txt) if not re.match(r'\s*#\s*define', txt)}
            defs = {m.group(1): c for c, txt, ex in seg for m in [re.match(r'\s*#\s*define\s+(\w+)', txt)] if m}
            for h in sorted(calls):
                mine = sorted(mc for mc, hh in disablers.items() if hh == h)
                if not mine:
                    continue
                key = 'strtab:%s:%s:enabled' % (qn, h)
                if key not in [k for k, _ in inst]:
                    inst.append((key, '%s: the branch calling %s does not #define %s' % (qn, h, '/'.join(mine))))
                for mc in mine:
                    if mc in defs and key not in [p[0] for p in probs]:
                        probs.append((key, defs[mc].lineno, '%s emits `#define %s` in the same preprocessor branch as the call of %s; StringTools.c compiles the helper to `return NULL` under that macro, '
                                      'so with this CYTHON_COMPRESS_STRINGS setting the string table is never decompressed and the module import fails' % (qn, mc, h)))
    if not found:
        raise AnalysisError('C39-STRTAB: no emitted __Pyx_Decompress* call found in %s' % relname)
    if not disablers:
        infos.append('no `#ifdef <macro> ... return NULL` block found in the decompress helpers')
    return inst, probs, infos


def find_written_array(scope, fn, emit_call, cvar, depth=0):
    """The data expression of the last call before emit_call (in an enclosing block) that receives the C variable name as a string constant: (expr, site)."""
    anc = {id(a) for a in scope.ancestors(emit_call)}
    best = None
    for n in scope.own_nodes(fn):
        if not isinstance(n, ast.Call) or n is emit_call or (n.lineno, n.col_offset) >= (emit_call.lineno, emit_call.col_offset):
            continue
        names = [i for i, a in enumerate(n.args) if isinstance(a, ast.Constant) and a.value == cvar]
        if len(names) != 1:
            continue
        stmt = n
        while id(stmt) in scope.parent and not isinstance(stmt, ast.stmt):
            stmt = scope.parent[id(stmt)]
        block = scope.parent.get(id(stmt))
        if block is not fn and id(block) not in anc:
            continue                          # written in a sibling branch: not on the path to the emission
        if isinstance(block, ast.If) and id(block) in anc:
            # same `if`: must be in the same arm
            arm = block.body if any(stmt is s for s in block.body) else block.orelse
            if not any(id(s) in anc or s is emit_call for s in arm) and not any(emit_call is x for s in arm for x in ast.walk(s)):
                continue
        others = [a for i, a in enumerate(n.args) if i not in names]
        data = None
        callee = [f for f in scope.funcs if isinstance(n.func, ast.Name) and f.name == n.func.id]
        if len(callee) == 1:
            ps = [x.arg for x in callee[0].args.posonlyargs + callee[0].args.args]
            used = {x.id for c in ast.walk(callee[0]) if isinstance(c, ast.Call) and isinstance(c.func, ast.Name) and c.func.id == 'len' for x in c.args if isinstance(x, ast.Name)}
            cand = [i for i, p in enumerate(ps) if p in used and i < len(n.args) and i not in names]
            if len(cand) == 1:
                data = n.args[cand[0]]
        if data is None and len(others) == 2:
            data = others[1]                  # (writer, data, name)
        if data is None and len(others) == 1:
            data = others[0]
        if data is not None and (best is None or (n.lineno, n.col_offset) > (best[1].lineno, best[1].col_offset)):
            best = (data, n)
    if best is None and depth == 0:
        sites = scope.call_sites(fn)
        if len(sites) == 1 and scope.func_of(sites[0]) is not None:
            return find_written_array(scope, scope.func_of(sites[0]), sites[0], cvar, 1)
    return best


def emitted_segments(scope, fn):
    """Emitted lines of fn grouped into the preprocessor branches they end up in, for every path through the if/else statements that emit something
    (loop bodies taken once). -> list of segments, each a list of (call, text, exprs)."""
    ems = {id(c): (c, t, e) for c, t, e in emissions(scope, fn)}
    if not ems:
        return []

    def has(node):
        return any(id(x) in ems for x in ast.walk(node))

    def ev_of(stmt):
        out = [ems[id(x)] for x in ast.walk(stmt) if id(x) in ems]
        out.sort(key=lambda x: (x[0].lineno, x[0].col_offset))
        return out

    def paths(stmts):
        res = [[]]
        for st in stmts:
            if isinstance(st, (ast.FunctionDef, ast.AsyncFunctionDef, ast.ClassDef)) or not has(st):
                continue
            if isinstance(st, ast.If):
                alts = paths(st.body) + paths(st.orelse)
            elif isinstance(st, (ast.For, ast.While, ast.AsyncFor)):
                alts = [a + b for a in paths(st.body) for b in paths(st.orelse)]
            elif isinstance(st, (ast.With, ast.AsyncWith)):
                alts = paths(st.body)
            elif isinstance(st, ast.Try):
                alts = [a + b for a in paths(st.body) for b in paths(st.finalbody)]
            else:
                alts = [ev_of(st)]
            res = [p + a for p in res for a in alts]
            if len(res) > 4096:
                raise AnalysisError('C39-STRTAB: too many emission paths in %s' % fn.name)
        return res

    segs, seen = [], set()
    for p in paths(fn.body):
        cur = []
        for ev in p + [None]:
            boundary = ev is None
            if ev is not None:
                head = ev[1].lstrip()
                mm = _MARK.match(head)
                if mm:
                    x = ev[2][int(mm.group(1))]
                    lits = [c.value for c in ast.walk(x) if isinstance(c, ast.Constant) and isinstance(c.value, str)]
                    boundary = any(l.lstrip().startswith('#') and not l.lstrip().startswith('#define') for l in lits)
                else:
                    boundary = bool(re.match(r'#\s*(?!define\b)', head)) and head.startswith('#')
            if boundary:
                k = tuple(id(e[0]) for e in cur)
                if cur and k not in seen:
                    seen.add(k)
                    segs.append(cur)
                cur = []
            elif ev is not None:
                cur.append(ev)
    return segs


STRTAB_PC = '''
def _write(code, data, c_name):
    code.putln("const char %s[%d] = ..." % (c_name, len(data)))

class G:
    def gen(self, values):
        plain = b''.join(values)
        w = self.parts['x']
        rows = []
        for number, pack in ALGOS:
            packed = pack(plain)
            rows.append((number, packed))
        for number, packed in reversed(rows):
            w.putln("#if C == %d" % number)
            _write(w, packed, 'cstring')
            if number == 90:
                w.putln(f'PyObject *data = __Pyx_DecompressString_LZSS(cstring, {len(packed)}, {LEN2});')
                w.putln("#define __Pyx_DecompressString_UNUSED")
            else:
                w.putln('PyObject *data = __Pyx_DecompressString(cstring, %d, %d);' % (LEN1, number))
                w.putln("#define %s_UNUSED")
        w.putln("#else")
        _write(w, plain, 'bytes')
        w.putln("#define __Pyx_DecompressString_UNUSED")
        w.putln("#define __Pyx_DecompressString_LZSS_UNUSED")
        w.putln("#endif")
'''
STRTAB_PC_C = ("static PyObject *__Pyx_DecompressString(const char *s, Py_ssize_t length, int algo) {\n#ifdef __Pyx_DecompressString_UNUSED\n    return NULL;\n#else\n    return f(s, length);\n#endif\n}\n"
               "static PyObject *__Pyx_DecompressString_LZSS(const char *s, size_t compressed_length, size_t uncompressed_length) {\n#if defined(__Pyx_DecompressString_LZSS_UNUSED)\n"
               "    return NULL;\n#else\n    return g(s);\n#endif\n}\n")


def rule_strtab(ctx):
    r = Rule('C39-STRTAB', 'every emitted __Pyx_Decompress*() call of the string-table generator passes, for the length parameters of the C prototype, len() of the array written under the C name it '
             'passes as data / of the value that was compressed into it (names resolved through single-assignment locals, loop targets and list rows), and the preprocessor branch of a call never '
             '#defines the macro under which StringTools.c compiles the called helper to `return NULL`', floor=4)
    tree = ctx.parse(CODE_PY)
    inst, probs, infos = strtab_problems(tree, ctx.cat.decls, CODE_PY)
    for key, sample in inst:
        r.inst(key, sample=sample)
    for key, line, msg in probs:
        r.violate(key, CODE_PY, line, msg)
    for i in infos:
        r.info(i)
    cdecls = index_c_text(STRTAB_PC_C)
    good = strtab_problems(ast.parse(STRTAB_PC.replace('LEN1', 'len(packed)').replace('LEN2', 'len(plain)').replace('%s_UNUSED', '__Pyx_DecompressString_LZSS_UNUSED')), cdecls)
    bad = strtab_problems(ast.parse(STRTAB_PC.replace('LEN1', 'len(plain)').replace('LEN2', 'len(packed)').replace('%s_UNUSED', '__Pyx_DecompressString_UNUSED')), cdecls)
    r.positive_control(not good[1] and len(good[0]) == 5 and sorted(p[0] for p in bad[1]) == [
        'strtab:G.gen:__Pyx_DecompressString:enabled', 'strtab:G.gen:__Pyx_DecompressString:length', 'strtab:G.gen:__Pyx_DecompressString_LZSS:uncompressed_length'],
        'plain length passed as the compressed length, compressed length as the result size, called helper disabled in its own branch')
    return r
