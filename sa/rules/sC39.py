"""C39 strengthening: feature-macro sibling implementations of a unicode builder return a string of the same length.

C39-LEN   A utility helper that builds its result with `PyUnicode_New(n, ...)` under one setting of the feature macros (direct writes into the
          string, CYTHON_USE_UNICODE_INTERNALS) and composes it from C-API calls under another (PyUnicode_FromOrdinal / PySequence_Repeat /
          PyUnicode_DecodeASCII / PyUnicode_Concat) must return a string of length n on every path of the composing variant.
          The composing variant is interpreted *symbolically*: integer values are linear forms over the function parameters, objects carry the
          linear form of their length (lengths of the C-API results from the CPython documentation), every `if` on a symbolic comparison forks
          the path with the comparison as a constraint, flag parameters (used as truth values) are enumerated over {0, 1}.  At each return the
          identity  len(result) == n  is decided under the path constraints (all forms must reduce to one integer combination of the parameters,
          whose feasible interval is computed; otherwise the path is reported as info).  No input values are sampled and nothing is executed.
"""
import itertools, math, re

from ..core import Rule, AnalysisError
from ..engine import cexpr
from ..engine.cutil import strip_c_comments, split_args
from ..engine.cguard import function_at
from .pC17 import parse_body, as_list

UTIL = 'Cython/Utility'


# ------------------------------------------------------------------------------------------------ linear forms
class Lin:
    __slots__ = ('c', 'k')

    def __init__(self, c=None, k=0):
        self.c = {s: v for s, v in (c or {}).items() if v}
        self.k = k

    def __add__(self, o):
        d = dict(self.c)
        for s, v in o.c.items():
            d[s] = d.get(s, 0) + v
        return Lin(d, self.k + o.k)

    def __neg__(self):
        return Lin({s: -v for s, v in self.c.items()}, -self.k)

    def __sub__(self, o):
        return self + (-o)

    def scale(self, n):
        return Lin({s: v * n for s, v in self.c.items()}, self.k * n)

    def const(self):
        return not self.c

    def __repr__(self):
        parts = []
        for s, v in sorted(self.c.items()):
            parts.append(('%s' if v == 1 else '-%s' if v == -1 else '%d*%%s' % v) % s)
        if self.k or not parts:
            parts.append(str(self.k))
        return ' + '.join(parts).replace('+ -', '- ')

    def key(self):
        return (tuple(sorted(self.c.items())), self.k)


class Obj:
    def __init__(self, length, what):
        self.length, self.what = length, what          # length: Lin


class Null:
    pass


class Opaque:
    def __init__(self, name):
        self.name = name


NULL = Null()


class NeedFlag(Exception):
    def __init__(self, name):
        self.name = name


class Unsupported(Exception):
    pass


class Goto(Exception):
    def __init__(self, label, path):
        self.label, self.path = label, path


# constraints: (Lin, op) meaning  Lin op 0  with op in '>', '>=', '==', '!='
def negate(lit):
    l, op = lit
    if op == '>':
        return (-l, '>=')
    if op == '>=':
        return (-l, '>')
    if op == '==':
        return (l, '!=')
    return (l, '==')


TRUE, FALSE = [[]], []


def dnf_and(a, b):
    return [x + y for x in a for y in b]


def dnf_not(a):
    out = TRUE
    for conj in a:
        out = dnf_and(out, [[negate(l)] for l in conj] if conj else FALSE)
    return out


NOOPS = {'Py_DECREF', 'Py_XDECREF', 'Py_INCREF', 'Py_XINCREF', 'CYTHON_UNUSED_VAR', 'CYTHON_MAYBE_UNUSED_VAR', '__Pyx_GOTREF', '__Pyx_GIVEREF',
         '__Pyx_XGOTREF', '__Pyx_XGIVEREF'}
ONE = Lin(k=1)


class SymExec:
    """Symbolic execution of a loop-free C statement list; paths = (constraints, returned value)."""

    def __init__(self, params, flags):
        self.params, self.flags = params, flags
        self.results = []

    # ---------------------------------------------------------------- expressions
    def val(self, e, env):
        k = e[0]
        if k in ('num', 'char'):
            return Lin(k=e[1])
        if k == 'id':
            if e[1] == 'NULL':
                return NULL
            if e[1] in env:
                return env[e[1]]
            return Opaque(e[1])
        if k == 'cast':
            return self.val(e[2], env)
        if k == 'call':
            name, args = e[1], e[2]
            if name in ('likely', 'unlikely') and len(args) == 1:
                return self.val(args[0], env)
            vs = [self.val(a, env) for a in args]
            if name in NOOPS:
                return Lin()
            if name == 'PyUnicode_FromOrdinal' and len(vs) == 1:
                return Obj(ONE, name)
            if name == 'PySequence_Repeat' and len(vs) == 2 and isinstance(vs[0], Obj) and isinstance(vs[1], Lin):
                if not vs[0].length.const():
                    raise Unsupported('repeat of a string of symbolic length')
                o = Obj(vs[1].scale(vs[0].length.k), name)
                o.nonneg = vs[1]
                return o
            if name in ('PyUnicode_DecodeASCII', 'PyUnicode_DecodeLatin1', 'PyUnicode_DecodeUTF8') and len(vs) == 3 and isinstance(vs[1], Lin):
                if name == 'PyUnicode_DecodeUTF8':
                    raise Unsupported('UTF-8 decoding has no linear length')
                return Obj(vs[1], name)
            if name in ('PyUnicode_Concat', '__Pyx_PyUnicode_Concat', 'PyNumber_Add') and len(vs) == 2 and all(isinstance(v, Obj) for v in vs):
                return Obj(vs[0].length + vs[1].length, name)
            raise Unsupported('call of %s is not modelled' % name)
        if k == 'un':
            op = e[1]
            if op == '!':
                return ('cond', dnf_not(self.cond(e[2], env)))
            v = self.val(e[2], env)
            if isinstance(v, Lin):
                if op == '-':
                    return -v
                if op == '+':
                    return v
            raise Unsupported('unary %s' % op)
        if k == 'bin':
            op = e[1]
            if op in ('&&', '||', '<', '>', '<=', '>=', '==', '!='):
                return ('cond', self.cond(e, env))
            a, b = self.val(e[2], env), self.val(e[3], env)
            a, b = self.as_int(a), self.as_int(b)
            if op == '+':
                return a + b
            if op == '-':
                return a - b
            if op == '*':
                if a.const():
                    return b.scale(a.k)
                if b.const():
                    return a.scale(b.k)
            raise Unsupported('operator %s on symbolic values' % op)
        if k == 'tern':
            raise Unsupported('conditional expression')
        raise Unsupported('expression node %s' % k)

    def as_int(self, v):
        if isinstance(v, Lin):
            return v
        if isinstance(v, tuple) and v[0] == 'cond':
            d = v[1]
            if d == TRUE:
                return Lin(k=1)
            if d == FALSE:
                return Lin(k=0)
        raise Unsupported('non-integer operand')

    def cond(self, e, env):
        """-> DNF (list of conjunctions of literals) under which e is true."""
        k = e[0]
        if k == 'call' and e[1] in ('likely', 'unlikely') and len(e[2]) == 1:
            return self.cond(e[2][0], env)
        if k == 'un' and e[1] == '!':
            return dnf_not(self.cond(e[2], env))
        if k == 'bin' and e[1] == '&&':
            return dnf_and(self.cond(e[2], env), self.cond(e[3], env))
        if k == 'bin' and e[1] == '||':
            return self.cond(e[2], env) + self.cond(e[3], env)
        if k == 'bin' and e[1] in ('<', '>', '<=', '>=', '==', '!='):
            a, b = self.val(e[2], env), self.val(e[3], env)
            if isinstance(a, (Obj, Null)) or isinstance(b, (Obj, Null)):
                if e[1] in ('==', '!=') and isinstance(a, (Obj, Null)) and isinstance(b, (Obj, Null)):
                    same = isinstance(a, Null) and isinstance(b, Null)
                    if isinstance(a, Obj) and isinstance(b, Obj):
                        raise Unsupported('object identity comparison')
                    return TRUE if same == (e[1] == '==') else FALSE
                raise Unsupported('comparison of an object')
            a, b = self.as_int(a), self.as_int(b)
            d = a - b
            lit = {'>': (d, '>'), '>=': (d, '>='), '<': (-d, '>'), '<=': (-d, '>='), '==': (d, '=='), '!=': (d, '!=')}[e[1]]
            if lit[0].const():
                kk = lit[0].k
                return TRUE if {'>': kk > 0, '>=': kk >= 0, '==': kk == 0, '!=': kk != 0}[lit[1]] else FALSE
            return [[lit]]
        v = self.val(e, env)
        if isinstance(v, tuple) and v[0] == 'cond':
            return v[1]
        if isinstance(v, Obj):
            return TRUE           # allocation failures are not explored: every C-API call succeeds
        if isinstance(v, Null):
            return FALSE
        if isinstance(v, Lin):
            if v.const():
                return TRUE if v.k else FALSE
            if len(v.c) == 1 and v.k == 0 and list(v.c.values()) == [1] and list(v.c)[0] in self.params:
                raise NeedFlag(list(v.c)[0])
            return [[(v, '!=')]]
        raise Unsupported('truth value of %r' % (v,))

    # ---------------------------------------------------------------- statements
    DECL = re.compile(r'^(?P<type>(?:[A-Za-z_]\w*[\s\*]+)+)(?P<rest>[A-Za-z_\*].*)$', re.S)
    ASSIGN = re.compile(r'^([A-Za-z_]\w*)\s*(=|\+=|-=)(?!=)\s*(.+)$', re.S)

    def parse(self, text):
        try:
            return cexpr.parse(text)
        except cexpr.ParseError as x:
            raise Unsupported('cannot parse `%s`: %s' % (text[:60], x))

    def simple(self, text, env, cons):
        """-> list of (env, cons) continuing, may raise Goto / record a return."""
        t = text.strip()
        if not t:
            return [(env, cons)]
        m = re.match(r'^return\b\s*(.*)$', t, re.S)
        if m:
            v = self.val(self.parse(m.group(1)), env) if m.group(1).strip() else None
            self.results.append((cons, v))
            return []
        m = re.match(r'^goto\s+(\w+)$', t)
        if m:
            raise Goto(m.group(1), (env, cons))
        m = re.match(r'^(?:([A-Za-z_]\w*)\s*(\+\+|--)|(\+\+|--)\s*([A-Za-z_]\w*))$', t)
        if m:
            name = m.group(1) or m.group(4)
            op = m.group(2) or m.group(3)
            env = dict(env)
            env[name] = self.as_int(env.get(name, Opaque(name))) + Lin(k=1 if op == '++' else -1)
            return [(env, cons)]
        m = self.ASSIGN.match(t)
        if m and m.group(1) in env or (m and not self.DECL.match(t)):
            return self.assign(m.group(1), m.group(2), m.group(3), env, cons)
        if re.match(r'^[A-Za-z_]\w*\s*\(', t):
            self.val(self.parse(t), env)
            return [(env, cons)]
        m = self.DECL.match(t)
        if m:
            out = [(env, cons)]
            for d in split_args(m.group('rest')):
                d = d.strip().lstrip('*').strip()
                mm = re.match(r'^([A-Za-z_]\w*)\s*(?:=\s*(.+))?$', d, re.S)
                if not mm:
                    raise Unsupported('declarator `%s`' % d)
                nxt = []
                for e2, c2 in out:
                    if mm.group(2) is not None:
                        nxt += self.assign(mm.group(1), '=', mm.group(2), e2, c2)
                    else:
                        e3 = dict(e2)
                        e3[mm.group(1)] = Opaque('uninitialised ' + mm.group(1))
                        nxt.append((e3, c2))
                out = nxt
            return out
        raise Unsupported('statement `%s`' % t[:60])

    def assign(self, name, op, rhs, env, cons):
        e = self.parse(rhs)
        v = self.val(e, env)
        out = []
        if isinstance(v, tuple) and v[0] == 'cond':
            for truth, d in ((1, v[1]), (0, dnf_not(v[1]))):
                for conj in d:
                    e2 = dict(env)
                    e2[name] = Lin(k=truth)
                    out.append((e2, cons + conj))
            return out
        env = dict(env)
        if op == '=':
            env[name] = v
        else:
            cur = self.as_int(env.get(name, Opaque(name)))
            env[name] = cur + self.as_int(v) if op == '+=' else cur - self.as_int(v)
        return [(env, cons)]

    def run_list(self, stmts, states):
        """states: list of (env, cons, jump) -> list of (env, cons, jump) leaving the list (jump = label still being looked for, forward only)."""
        cur = states
        for st in stmts:
            nxt = []
            for env, cons, jump in cur:
                if jump is not None:
                    nxt.append((env, cons, None if (st.kind == 'label' and st.text == jump) else jump))
                else:
                    nxt += self.stmt(st, env, cons)
            cur = nxt
            if len(cur) > 256:
                raise Unsupported('too many paths')
        return cur

    def stmt(self, st, env, cons):
        if st.kind == 'simple':
            try:
                return [(e, c, None) for e, c in self.simple(st.text, env, cons)]
            except Goto as g:
                return [(g.path[0], g.path[1], g.label)]
        if st.kind == 'block':
            return self.run_list(st.body, [(env, cons, None)])
        if st.kind == 'label':
            return [(env, cons, None)]
        if st.kind == 'if':
            d = self.cond(self.parse(st.text), env)
            out = []
            for conj in d:
                out += self.run_list(as_list(st.body), [(env, cons + conj, None)])
            for conj in dnf_not(d):
                if st.orelse is not None:
                    out += self.run_list(as_list(st.orelse), [(env, cons + conj, None)])
                else:
                    out.append((env, cons + conj, None))
            return out
        raise Unsupported('%s statement' % st.kind)

    def run_function(self, stmts, env):
        left = self.run_list(stmts, [(env, [], None)])
        if any(j is not None for _, _, j in left):
            raise Unsupported('goto to a label that is not ahead of it')
        return left


# ------------------------------------------------------------------------------------------------ preprocessor variants
def variants(body):
    """Function body text -> [(macro assignment dict, text with the inactive #if branches removed)] (macros enumerated over {0, 1})."""
    lines = body.split('\n')
    conds = []
    for ln in lines:
        m = re.match(r'\s*#\s*(if|elif|ifdef|ifndef)\b(.*)$', ln)
        if m:
            conds.append(m.group(2))
    macros = sorted({x for c in conds for x in re.findall(r'[A-Za-z_]\w*', c)} - {'defined'})
    if len(macros) > 5:
        raise Unsupported('%d macros in the #if conditions of the function' % len(macros))
    out = []
    for bits in itertools.product((1, 0), repeat=len(macros)):
        env = dict(zip(macros, bits))

        def ev(text, kind):
            if kind in ('ifdef', 'ifndef'):
                v = bool(env.get(text.strip(), 1))
                return v if kind == 'ifdef' else not v
            t = re.sub(r'defined\s*\(\s*(\w+)\s*\)|defined\s+(\w+)', '1', text)
            try:
                return bool(cexpr.evaluate(cexpr.parse(t), env))
            except (cexpr.ParseError, cexpr.EvalError) as x:
                raise Unsupported('#if condition `%s`: %s' % (text.strip(), x))
        stack, keep = [], []
        for ln in lines:
            m = re.match(r'\s*#\s*(if|elif|ifdef|ifndef|else|endif)\b(.*)$', ln)
            if not m:
                if all(s[0] for s in stack):
                    keep.append(ln)
                continue
            d = m.group(1)
            if d in ('if', 'ifdef', 'ifndef'):
                a = ev(m.group(2), d)
                stack.append([a, a])
            elif d == 'elif':
                a = (not stack[-1][1]) and ev(m.group(2), 'if')
                stack[-1][0] = a
                stack[-1][1] = stack[-1][1] or a
            elif d == 'else':
                stack[-1][0] = not stack[-1][1]
                stack[-1][1] = True
            else:
                stack.pop()
        out.append((env, '\n'.join(keep)))
    return out


def c_params(header):
    m = re.search(r'\(([^()]*)\)\s*\{\s*$', header, re.S)
    if not m:
        raise Unsupported('parameter list of `%s`' % header[:60])
    out = []
    for p in split_args(m.group(1)):
        mm = re.search(r'([A-Za-z_]\w*)\s*(?:\[\s*\])?\s*$', p.strip())
        if mm and p.strip() != 'void':
            out.append(mm.group(1))
    return out


def fname(header):
    m = re.search(r'([A-Za-z_]\w*)\s*\([^()]*\)\s*\{\s*$', header, re.S)
    return m.group(1) if m else '?'


# ------------------------------------------------------------------------------------------------ decision
def reduce_1d(lins):
    """All non-constant forms must be integer multiples of one primitive vector v -> (v, [(multiple, constant)]) or None."""
    v = None
    out = []
    for l in lins:
        if l.const():
            out.append((0, l.k))
            continue
        g = 0
        for x in l.c.values():
            g = math.gcd(g, abs(x))
        prim = tuple(sorted((s, x // g) for s, x in l.c.items()))
        mult = g
        if v is None:
            v = prim
        if prim != v:
            neg = tuple(sorted((s, -x) for s, x in prim))
            if neg == v:
                mult = -g
            else:
                return None
        out.append((mult, l.k))
    return v, out


def interval(cons1d):
    """[(a, c, op)] meaning a*t + c op 0 over integer t -> (lo, hi, holes) or None when infeasible."""
    lo, hi, holes = -math.inf, math.inf, set()
    for a, c, op in cons1d:
        if a == 0:
            ok = {'>': c > 0, '>=': c >= 0, '==': c == 0, '!=': c != 0}[op]
            if not ok:
                return None
            continue
        if op == '>':
            op, c = '>=', c - 1
        if op == '>=':
            # a*t + c >= 0
            if a > 0:
                lo = max(lo, -(c // a) if (-c) % a == 0 else (-c) // a + 1)
            else:
                hi = min(hi, c // (-a))
        elif op == '==':
            if c % a:
                return None
            lo, hi = max(lo, -c // a), min(hi, -c // a)
        else:
            if c % a == 0:
                holes.add(-c // a)
    if lo > hi:
        return None
    return lo, hi, holes


def decide(cons, F, pre):
    """Is F == 0 on every integer point satisfying cons (+ the preconditions that lie in the same direction)?
    -> (True, None) | (False, witness text) | raises Unsupported."""
    if F.const() and F.k == 0:
        return True, None
    red = reduce_1d([l for l, _ in cons] + [F])
    free = False
    if red is None:
        red = reduce_1d([l for l, _ in cons])
        if red is None:
            raise Unsupported('the path constraints do not reduce to one integer combination of the parameters')
        free = True                     # F varies in a direction the constraints do not restrict
        red = (red[0], red[1] + [(0, 0)])
    v, parts = red
    cons1d = [(a, c, op) for (a, c), (_, op) in zip(parts[:-1], cons)]
    used_pre = []
    for l, op in pre:
        r2 = reduce_1d([Lin(dict(v)) if v else Lin(), l])
        if v is not None and r2 is not None and not l.const():
            cons1d.append((r2[1][1][0], r2[1][1][1], op))
            used_pre.append((l, op))
    iv = interval(cons1d)
    if iv is None:
        return True, None               # infeasible path
    lo, hi, holes = iv
    if free:
        return False, 'for suitable values of %s (not restricted on this path)' % ', '.join(sorted(F.c))
    a, c = parts[-1]
    name = ' + '.join(('%s' if x == 1 else '-%s' if x == -1 else '%d*%%s' % x) % s for s, x in (v or ())).replace('+ -', '- ') or '0'
    if a == 0:
        return (c == 0), (None if c == 0 else 'for every value of %s in [%s, %s]' % (name, lo, hi))
    # a*t + c == 0 has the single solution t0; the feasible set must be {t0}
    if lo == hi and lo not in holes:
        ok = a * lo + c == 0
        return ok, (None if ok else 'for %s == %d' % (name, lo))
    t = lo if lo != -math.inf else hi if hi != math.inf else 0
    for cand in (lo, lo + 1, hi, hi - 1, 0, 1):
        if cand in (-math.inf, math.inf) or cand in holes or cand < lo or cand > hi:
            continue
        if a * cand + c != 0:
            return False, 'e.g. for %s == %d (feasible: [%s, %s])' % (name, cand, lo, hi)
    return False, 'for %s in [%s, %s]' % (name, lo, hi)


def write_indices(text):
    """Index expressions (third argument) of the PyUnicode_WRITE calls of a writing variant."""
    out = []
    for m in re.finditer(r'\b(?:__Pyx_)?PyUnicode_WRITE\s*\(', text):
        depth, j = 0, m.end() - 1
        while j < len(text):
            if text[j] == '(':
                depth += 1
            elif text[j] == ')':
                depth -= 1
                if depth == 0:
                    break
            j += 1
        args = split_args(text[m.end():j])
        if len(args) != 4:
            continue
        try:
            out.append(cexpr.parse(args[2]))
        except cexpr.ParseError:
            continue
    return out


def analyse_function(text, pos):
    """-> dict(name, n_text, results=[(flag assignment, constraints, length form or None, n form)]) or raises Unsupported."""
    f = function_at(text, pos)
    if f is None:
        raise Unsupported('enclosing function not found')
    header, b0, b1 = f
    body = text[b0 + 1:b1]
    params = c_params(header)
    vs = variants(body)
    writers = [(env, t) for env, t in vs if re.search(r'\bPyUnicode_New\s*\(', t)]
    composers = [(env, t) for env, t in vs if not re.search(r'\bPyUnicode_New\s*\(', t)]
    if not writers or not composers:
        raise Unsupported('no pair of a PyUnicode_New variant and a composing variant')
    n_texts = set()
    for env, t in writers:
        for m in re.finditer(r'\bPyUnicode_New\s*\(', t):
            args = split_args(t[m.end():t.index(';', m.end())].rsplit(')', 1)[0])
            n_texts.add(' '.join(args[0].split()))
    if len(n_texts) != 1:
        raise Unsupported('the writing variants allocate different lengths: %s' % sorted(n_texts))
    n_text = n_texts.pop()
    seen, out = set(), []
    for menv, t in composers:
        key = ' '.join(t.split())
        if key in seen:
            continue
        seen.add(key)
        stmts = parse_body('{' + t + '}')
        flags = []
        while True:
            try:
                res = []
                for bits in itertools.product((0, 1), repeat=len(flags)):
                    env = {p: Lin({p: 1}) for p in params}
                    env.update({fl: Lin(k=b) for fl, b in zip(flags, bits)})
                    ex = SymExec(params, flags)
                    ex.run_function(stmts, env)
                    n = ex.val(ex.parse(n_text), env)
                    # locals the allocation length refers to are defined before the #if: evaluate n in the first return's env is not
                    # available, so n must be expressible over the parameters
                    if not isinstance(n, Lin) or any(s not in params for s in n.c):
                        raise Unsupported('allocation length `%s` is not a linear form over the parameters' % n_text)
                    for cons, v in ex.results:
                        res.append((dict(zip(flags, bits)), cons, v, n))
                break
            except NeedFlag as nf:
                if nf.name in flags or len(flags) >= 3:
                    raise Unsupported('flag enumeration does not converge')
                flags.append(nf.name)
        # preconditions from the writing variants: they are memory safe only if the loop-independent part of every write index is >= 0
        pre = []
        for wenv, wt in writers:
            env = {p: Lin({p: 1}) for p in params}
            ex = SymExec(params, [])
            for st in parse_body('{' + wt + '}'):
                tx = st.text.strip() if st.kind == 'simple' else ''
                if tx and SymExec.DECL.match(tx) and '=' in tx and not re.search(r'\w\s*\(', tx):
                    try:
                        r2 = ex.simple(tx, env, [])
                    except (Unsupported, NeedFlag, Goto):
                        continue
                    if len(r2) == 1:
                        env = r2[0][0]
            loopvars = {m.group(1) for m in re.finditer(r'\b([A-Za-z_]\w*)\s*\+\+', wt)} | {m.group(1) for m in re.finditer(r'\+\+\s*([A-Za-z_]\w*)', wt)}
            for lv in loopvars:
                env[lv] = Lin()
            for e in write_indices(wt):
                try:
                    base = ex.val(e, env)
                except (Unsupported, NeedFlag):
                    continue
                if isinstance(base, Lin) and not base.const() and all(sym in params for sym in base.c):
                    pre.append((base, '>='))
        out.append((menv, res, pre))
    return dict(name=fname(header), n_text=n_text, variants=out, line=text.count('\n', 0, b0) + 1)


def len_problems(text):
    """Yield (function, key, ok, message, line) for every decidable path; ('info', ...) rows for undecidable functions."""
    text = strip_c_comments(text)
    done = set()
    for m in re.finditer(r'\bPyUnicode_New\s*\(', text):
        f = function_at(text, m.start())
        if f is None or f[1] in done:
            continue
        done.add(f[1])
        name = fname(f[0])
        try:
            a = analyse_function(text, m.start())
        except Unsupported as x:
            yield ('info', name, None, str(x), 0)
            continue
        for menv, res, pre in a['variants']:
            cfg = ','.join('%s=%d' % kv for kv in sorted(menv.items())) or 'default'
            idx = 0
            for flags, cons, v, n in res:
                if not isinstance(v, Obj):
                    continue                      # NULL / error return
                idx += 1
                fl = ','.join('%s=%d' % kv for kv in sorted(flags.items()))
                F = v.length - n
                key = '%s[%s]:%s|%s' % (a['name'], cfg, fl, ' & '.join(sorted('%r%s0' % (l, op) for l, op in cons)))
                try:
                    ok, wit = decide(cons, F, pre)
                except Unsupported as x:
                    yield ('info', a['name'], None, '%s: %s' % (key, x), a['line'])
                    continue
                where = ' and '.join('%r %s 0' % (l, op) for l, op in cons) or 'unconditionally'
                msg = None
                if not ok:
                    msg = ('%s: with %s the variant allocates PyUnicode_New(%s), but with %s%s the composing variant returns a string of length %r on the path '
                           '[%s] - %r instead of %r, %s: the same generated C file formats the value differently depending on the feature macro'
                           % (a['name'], 'the other setting of the feature macros', a['n_text'], cfg, (' and ' + fl) if fl else '', v.length, where, v.length, n, wit))
                yield ('path', a['name'], key, msg, a['line'])


def rule_len(ctx):
    r = Rule('C39-LEN', 'a unicode builder that allocates PyUnicode_New(n) under one feature-macro setting returns a string of length n on every path of the variant '
             'that composes the result from C-API calls (symbolic linear lengths, path constraints decided on the feasible interval)', floor=6)
    rel = UTIL + '/StringTools.c'
    import os
    files = sorted(f for f in os.listdir(ctx.path(UTIL)) if f.endswith('.c'))
    for fn in files:
        frel = UTIL + '/' + fn
        text = ctx.read(frel)
        if 'PyUnicode_New' not in text:
            continue
        per_fn = {}
        for kind, name, key, msg, line in len_problems(text):
            if kind == 'info':
                r.info('%s %s: not decided (%s)' % (fn, name, msg))
                continue
            r.inst(key, sample=key)
            if msg:
                per_fn.setdefault(name, []).append((key, msg, line))
        for name, lst in sorted(per_fn.items()):
            r.violate('%s:%s' % (fn, name), frel, lst[0][2], lst[0][1] + ' (%d path(s) fail)' % len(lst))
    pc = ("static PyObject* f(Py_ssize_t n, const char* s, int m, int neg, char pad) {\n    PyObject *u;\n    Py_ssize_t off = n - m;\n#if FAST\n"
          "    u = PyUnicode_New(n, 127);\n    for (i=0; i < m; i++) { PyUnicode_WRITE(k, d, off+i, s[i]); }\n#else\n    {\n        PyObject *p = NULL;\n"
          "        u = NULL;\n        if (off > 0) {\n            p = PyUnicode_FromOrdinal(pad);\n            if (likely(p) && off > 1) {\n"
          "                PyObject *t = PySequence_Repeat(p, off %s);\n                Py_DECREF(p);\n                p = t;\n            }\n"
          "            if (unlikely(!p)) goto done;\n        }\n        u = PyUnicode_DecodeASCII(s, m, NULL);\n"
          "        if (likely(u) && p) {\n            PyObject *t = PyUnicode_Concat(p, u);\n            Py_DECREF(u);\n            u = t;\n        }\n"
          "done:\n        Py_XDECREF(p);\n    }\n#endif\n    return u;\n}\n")
    bad = [x for x in len_problems(pc % '+ neg') if x[0] == 'path' and x[3]]
    good = [x for x in len_problems(pc % '') if x[0] == 'path']
    r.positive_control(bool(bad) and len(good) >= 3 and not any(x[3] for x in good), 'repeat count off by the sign flag')
    return r
