"""C01 — eighth round.

C01-UNPACKRUN  (seed C01k: the end check `__Pyx_IternextUnpackEndCheck` of the generic iterator unpacker slipped into the branch of the unrolled
                item fetches, so `a, b, c, d = range(5)` - four or more targets use the C loop - no longer raised ValueError)

SequenceNode.generate_parallel_assignment_code and the emitters it calls (generate_special_parallel_unpacking_code,
generate_generic_parallel_unpacking_code) emit, for `t0, .., tN-1 = rhs`, a size-checked fast path for exact tuples / lists and an iterator
protocol path, each in an unrolled and a C-loop variant, under two preprocessor configurations.  What the statement does is a property of
the emitted C as a whole.  Like C01-ARGBIND the rule
 1. runs the generator with the checker's own interpreter (pC01.TB / s7C01.ArgTB, never the repository code) for every member of a finite
    family: N = 1..6 targets (both sides of the "long enough for a loop" threshold) x static type of the right-hand side (object / list /
    tuple / another builtin type) x may-be-None;
 2. parses the emitted C (pC17.parse_body, engine/cexpr; `#if` blocks resolved for every assignment of the macros they test) and executes
    it on a machine model for EVERY run-time class of the right-hand side admitted by the static type: exact tuple / exact list of 0..N+2
    items, None, a non-iterable, an iterator that yields k = 0..N+2 items and then signals exhaustion (bare NULL or StopIteration), an
    iterator that raises at its j-th step.  C-API helpers are modelled by their contracts;
 3. compares with the language reference (assignment statement, 7.2): target i receives item i; more items -> ValueError "too many values"
    (with N expected) after exactly N+1 steps of the iterator; fewer -> ValueError naming the number of items obtained; an exception of the
    iterator propagates; None / non-iterable -> TypeError; and at the C level: no item slot read before it is filled, no macro applied to an
    object of the wrong type or out of range, the iterator released and the right-hand side disposed of exactly once on the normal path.

C01-AUGOP      (seed C01l: optimise_numeric_binop passed inplace=False for `obj += <literal>`, so __add__ ran instead of __iadd__)

`target OP= value` must reach the run-time operator as the IN-PLACE operation.  The flag travels: ExpandInplaceOperators builds
binop_node(..., inplace=True) -> the node class keeps `inplace` -> either NumBinopNode.py_operation_function (generic call) or
optimise_numeric_binop (literal operand: extra argument of the fast-path helper) reads it.  The rule checks every link: the tree built for
every target shape (TB interpreter, shapes of C01-INPLACE) carries a binary operation with inplace=True and the operator of the statement;
py_operation_function of every class of the NumBinopNode family, interpreted for both values of the flag and every fork, returns the
PyNumber_InPlace* spelling exactly when the flag is set; the literal fast path is decided by the procedure of C02-INPL (rules/sC02.py).
"""
import ast, itertools, re

from ..core import Rule, AnalysisError
from ..engine import cexpr, tables
from . import pC17
from .pC01 import TB, SNode, BNode, Opaque, ModRef, BoundMethod, CodeRec, Closure, Env, Label, TBGiveUp, _Fork, _Raise
from . import s7C01
from .s7C01 import ArgTB, Machine, Unmodelled, Defect, ERRLABEL, c_text, _expr

EXPR = 'Cython/Compiler/ExprNodes.py'
SEQ = 'SequenceNode'
UENTRY = 'generate_parallel_assignment_code'
UMODEL = ('<rhs>', '<rtype>', '<item>', '<coerced>', '<targ>')


# =============================================================================================== 1. running the generator
class UnpackTB(ArgTB):
    def getattr(self, v, attr, text=''):
        if isinstance(v, SNode) and v.cls in UMODEL:
            if attr in v.facts:
                return v.facts[attr]
            if attr in v.facts.get('_methods', ()):
                return BoundMethod(v, attr)
            if attr == 'pos':
                return Opaque('pos')
            raise TBGiveUp('the generator reads %s.%s, which the unpacking model does not define' % (v.cls, attr))
        return ArgTB.getattr(self, v, attr, text)

    def call_method(self, recv, name, args, kw, n, text):
        if isinstance(recv, SNode) and recv.cls in UMODEL:
            f = recv.facts
            if recv.cls == '<rhs>':
                if name in ('py_result', 'result'):
                    return 'RHS'
                if name == 'may_be_none':
                    return f['_none']
                if name == 'generate_disposal_code':
                    args[0].items.append(('text', 'DISPOSE_RHS();'))
                    return None
                if name == 'free_temps':
                    return None
            elif recv.cls == '<item>':
                if name in ('result', 'py_result'):
                    return 'ITEM_%d' % f['idx']
                if name in ('allocate', 'release', 'generate_gotref'):
                    return None
                if name == 'ctype':
                    return Opaque('ctype')
            elif recv.cls == '<coerced>':
                if name == 'generate_evaluation_code':
                    args[0].items.append(('text', 'COERCE(%d, ITEM_%d);' % (f['idx'], f['idx'])))
                    return None
            elif recv.cls == '<targ>':
                if name == 'generate_assignment_code' and args and isinstance(args[0], SNode) and args[0].cls == '<coerced>':
                    args[1].items.append(('text', 'ASSIGN_TARGET(%d, %d);' % (f['idx'], args[0].facts['idx'])))
                    return None
            raise TBGiveUp('the generator calls %s.%s(), which the unpacking model does not define' % (recv.cls, name))
        return ArgTB.call_method(self, recv, name, args, kw, n, text)

    def code_method(self, code, name, args, kw):
        if name == 'error_goto_if_null' and args and isinstance(args[0], str):
            return 'if (!(%s)) {goto %s;}' % (args[0], ERRLABEL)
        if name == 'error_goto_if_neg' and args and isinstance(args[0], str):
            return 'if ((%s) < 0) {goto %s;}' % (args[0], ERRLABEL)
        if name in ('put_decref_clear', 'put_xdecref_clear') and args and isinstance(args[0], str):
            code.items.append(('text', 'DECREF_CLEAR(%s);' % args[0]))
            return None
        if name == 'put_goto':
            # keep `if (..) ` + goto on one statement: the goto is text so that the C parser sees the statement the compiler emits
            code.items.append(('text', 'goto %s;' % s7C01._lab(args[0])))
            return None
        return ArgTB.code_method(self, code, name, args, kw)


RHS_TYPES = {      # static type of the right-hand side -> facts read by the generator
    'object': dict(may_be_pytuple_type=True, may_be_pylist_type=True, is_builtin_type=False, is_pylist_type=False, is_pytuple_type=False),
    'list': dict(may_be_pytuple_type=False, may_be_pylist_type=True, is_builtin_type=True, is_pylist_type=True, is_pytuple_type=False),
    'tuple': dict(may_be_pytuple_type=True, may_be_pylist_type=False, is_builtin_type=True, is_pylist_type=False, is_pytuple_type=True),
    'dict': dict(may_be_pytuple_type=False, may_be_pylist_type=False, is_builtin_type=True, is_pylist_type=False, is_pytuple_type=False),
}


def _unpack_self(n, rtype, may_none):
    items = [SNode('item%d' % i, {'idx': i, 'type': Opaque('type'), '_methods': ('result', 'py_result', 'allocate', 'release', 'generate_gotref', 'ctype')}, cls='<item>')
             for i in range(n)]
    coerced = [SNode('coerced%d' % i, {'idx': i, '_methods': ('generate_evaluation_code',)}, cls='<coerced>') for i in range(n)]
    targs = [SNode('target%d' % i, {'idx': i, 'is_starred': False, '_methods': ('generate_assignment_code',)}, cls='<targ>') for i in range(n)]
    rt = SNode('rtype', dict(RHS_TYPES[rtype]), cls='<rtype>')
    rhs = SNode('rhs', {'type': rt, '_none': may_none, '_methods': ('py_result', 'result', 'may_be_none', 'generate_disposal_code', 'free_temps')}, cls='<rhs>')
    me = SNode('self', {'args': targs, 'unpacked_items': items, 'coerced_unpacked_items': coerced, 'pos': Opaque('pos'), 'starred_assignment': False,
                        'mult_factor': None}, cls=SEQ)
    return me, rhs


def emit_unpack(ix, found, n, rtype, may_none, limit=8):
    out, todo, k = [], [dict()], 0
    stubs = {'may_be_unsafe_shared': lambda tb, a, kw: 'SHARED'}
    while todo:
        d = todo.pop()
        k += 1
        if k > limit:
            raise TBGiveUp('more than %d generator paths' % limit)
        tb = UnpackTB(ix, found[0].module, d, None, stubs)
        tb.inline = {SEQ}
        code = CodeRec()
        me, rhs = _unpack_self(n, rtype, may_none)
        try:
            tb.invoke(Closure(found[1], Env(), None), [me, rhs, code], {})
        except _Fork as f:
            for b in (True, False):
                d2 = dict(d)
                d2[f.key] = b
                todo.append(d2)
            continue
        except _Raise as r:
            raise TBGiveUp('%s raises %s' % (UENTRY, r.name))
        out.append(c_text(code.items))
    return out


# =============================================================================================== 2. preprocessor, machine
def pp_macros(text):
    names = set()
    for line in text.split('\n'):
        m = re.match(r'\s*#\s*(?:if|elif)\b(.*)$', line)
        if m:
            names |= set(re.findall(r'\b[A-Z][A-Z0-9_]+\b', m.group(1)))
    names |= set(re.findall(r'\bCYTHON_[A-Z0-9_]+\b', text))          # configuration macros tested in C expressions
    return sorted(names)


def preprocess(text, macros):
    """resolve #if / #else / #endif of the emitted text for one assignment of the tested macros"""
    out, stack = [], []          # stack of [taken_now, any_taken, parent_active]
    for line in text.split('\n'):
        m = re.match(r'\s*#\s*(if|elif|else|endif)\b(.*)$', line)
        if not m:
            if re.match(r'\s*#', line):
                raise Unmodelled('preprocessor line %r' % line)
            if all(s[0] for s in stack):
                out.append(line)
            continue
        d, rest = m.group(1), m.group(2).strip()
        if d == 'if':
            parent = all(s[0] for s in stack)
            v = bool(cexpr.evaluate(cexpr.parse(rest), dict(macros))) if parent else False
            stack.append([v and parent, v, parent])
        elif d == 'elif':
            if not stack:
                raise Unmodelled('#elif without #if')
            s = stack[-1]
            v = (not s[1]) and bool(cexpr.evaluate(cexpr.parse(rest), dict(macros)))
            s[0], s[1] = v and s[2], s[1] or v
        elif d == 'else':
            if not stack:
                raise Unmodelled('#else without #if')
            s = stack[-1]
            s[0], s[1] = (not s[1]) and s[2], True
        else:
            if not stack:
                raise Unmodelled('#endif without #if')
            stack.pop()
    if stack:
        raise Unmodelled('unterminated #if in the emitted text')
    return '\n'.join(out)


OBJ, NONE_OBJ, OTHER_OBJ, ITER, ELEM, NEXTFN = 7000, 7001, 7002, 7100, 8000, 7200
BARE_DECL = re.compile(r'^(?:Py_ssize_t|int|long|PyObject\s*\*+)\s*(\w+)$')
DEREF_STORE = re.compile(r'^\*\s*\(\s*(\w+)\s*\[(.*)\]\s*\)\s*=\s*(.*)$', re.S)


class Rt:
    """run-time class of the right-hand side"""
    def __init__(self, kind, k=0, style='null', raise_at=None):
        self.kind, self.k, self.style, self.raise_at = kind, k, style, raise_at

    def show(self):
        if self.kind in ('tuple', 'list'):
            return 'an exact %s of %d item(s)' % (self.kind, self.k)
        if self.kind == 'none':
            return 'None'
        if self.kind == 'noniter':
            return 'a non-iterable object'
        if self.raise_at is not None:
            return 'an iterator that raises an exception at step %d' % self.raise_at
        return 'an iterable of %d item(s) (exhaustion signalled by %s)' % (self.k, 'StopIteration' if self.style == 'stop' else 'a bare NULL')


class UnpackMachine(Machine):
    def __init__(self, stmts, n, rt, macros):
        self.stmts, self.n, self.rt = stmts, n, rt
        self.env = {'RHS': OBJ, 'Py_None': OBJ if rt.kind == 'none' else NONE_OBJ, 'NULL': 0, 'SHARED': 1, 'PyIter_Next': NEXTFN}
        self.env.update(macros)
        for i in range(n):
            self.env['ITEM_%d' % i] = 0
        self.arrays = {}
        self.error = None          # exception set by a helper and not yet reported
        self.pending = None        # exception indicator left by the iterator (StopIteration / error) until somebody looks at it
        self.steps = 0
        self.it_calls = 0
        self.it_alive = False
        self.disposed = 0
        self.coerced = {}
        self.targets = {}
        self.sig = None
        self.soft = None           # C-level defect that does not change the outcome of this run

    # ------------------------------------------------------------------------------------------------ expressions
    def ev(self, e):
        if e[0] == 'un' and e[1] == '&' and e[2][0] == 'id' and e[2][1].startswith('ITEM_'):
            return ('ref', e[2][1])
        if e[0] == 'id' and e[1] == 'RHS' and self.disposed:
            raise Defect('reads the right-hand side after disposing of it')
        return Machine.ev(self, e)

    def seq(self, v, kinds, what):
        if v != OBJ:
            raise Unmodelled('%s applied to %r' % (what, v))
        if self.rt.kind not in kinds:
            raise Defect('applies %s to %s' % (what, self.rt.show()))

    def next(self, it):
        if it != ITER or not self.it_alive:
            raise Defect('steps an iterator that was released or never created')
        if self.error is not None or self.pending == 'error':
            raise Defect('steps the iterator while an exception is set')
        self.it_calls += 1
        j = self.it_calls - 1
        rt = self.rt
        if rt.raise_at is not None and j >= rt.raise_at:
            self.pending = 'error'
            return 0
        if rt.raise_at is None and j >= rt.k:
            self.pending = 'stop' if rt.style == 'stop' else None
            return 0
        return ELEM + j

    def iter_finish(self):
        if self.pending == 'error':
            self.pending = None
            self.error = ('Propagated', 'the exception raised by the iterator')
            return -1
        self.pending = None
        return 0

    def call(self, name, args):
        n = len(args)
        if name in self.env and self.env[name] == NEXTFN and n == 1:
            return self.next(self.ev(args[0]))
        if name in self.env and self.env[name] == 0:
            raise Defect('calls the function pointer %s after it was set to NULL' % name)
        if name in ('likely', 'unlikely') and n == 1:
            return self.ev(args[0])
        if name in ('PyTuple_CheckExact', 'PyList_CheckExact') and n == 1:
            v = self.ev(args[0])
            if v != OBJ:
                raise Unmodelled('%s(%r)' % (name, v))
            return int(self.rt.kind == ('tuple' if 'Tuple' in name else 'list'))
        if name in ('__Pyx_PyTuple_GET_SIZE', '__Pyx_PyList_GET_SIZE', '__Pyx_PySequence_SIZE') and n == 1:
            self.seq(self.ev(args[0]), {'__Pyx_PyTuple_GET_SIZE': ('tuple',), '__Pyx_PyList_GET_SIZE': ('list',)}.get(name, ('tuple', 'list')), name)
            return self.rt.k
        if name in ('PyTuple_GET_ITEM', '__Pyx_PyList_GET_ITEM_REF', '__Pyx_PySequence_ITEM') and n in (2, 3):
            self.seq(self.ev(args[0]), {'PyTuple_GET_ITEM': ('tuple',), '__Pyx_PyList_GET_ITEM_REF': ('list',)}.get(name, ('tuple', 'list')), name)
            if self.disposed:
                raise Defect('fetches an item after disposing of the right-hand side')
            i = self.ev(args[1])
            if not isinstance(i, int) or not 0 <= i < self.rt.k:
                raise Defect('fetches item %r of %s' % (i, self.rt.show()))
            return ELEM + i
        if name == '__Pyx_RaiseTooManyValuesError' and n == 1:
            self.error = ('ValueError', 'too many', self.ev(args[0]))
            return 0
        if name == '__Pyx_RaiseNeedMoreValuesError' and n == 1:
            self.error = ('ValueError', 'need more', self.ev(args[0]))
            return 0
        if name == '__Pyx_RaiseNoneNotIterableError' and n == 0:
            self.error = ('TypeError', 'None')
            return 0
        if name == 'PyObject_GetIter' and n == 1:
            v = self.ev(args[0])
            if v != OBJ:
                raise Unmodelled('PyObject_GetIter(%r)' % (v,))
            if self.rt.kind in ('none', 'noniter'):
                self.error = ('TypeError', 'not iterable')
                return 0
            if self.rt.kind in ('tuple', 'list'):
                # an exact tuple / list handed to the iterator protocol behaves like an iterable of its items
                pass
            self.it_alive = True
            return ITER
        if name == '__Pyx_PyObject_GetIterNextFunc' and n == 1:
            if self.ev(args[0]) != ITER:
                raise Defect('takes tp_iternext of something that is not the iterator')
            return NEXTFN
        if name == '__Pyx_IterFinish' and n == 0:
            return self.iter_finish()
        if name == '__Pyx_IternextUnpackEndCheck' and n == 2:
            v, expected = self.ev(args[0]), self.ev(args[1])
            if v:
                self.error = ('ValueError', 'too many', expected)
                return -1
            return self.iter_finish()
        if name == 'DECREF_CLEAR' and n == 1 and args[0][0] == 'id':
            v = self.env.get(args[0][1])
            if v == ITER:
                if not self.it_alive:
                    raise Defect('releases the iterator twice')
                self.it_alive = False
            elif v == 0:
                raise Defect('Py_DECREF of %s, which is NULL' % args[0][1])
            self.env[args[0][1]] = 0
            return 0
        if name == 'DISPOSE_RHS' and n == 0:
            self.disposed += 1
            if self.disposed > 1:
                raise Defect('disposes of the right-hand side twice')
            return 0
        if name == 'COERCE' and n == 2:
            j, v = self.ev(args[0]), self.ev(args[1])
            if not v:
                raise Defect('uses item slot %d before it is filled' % j)
            self.coerced[j] = v
            return 0
        if name == 'ASSIGN_TARGET' and n == 2:
            i, j = self.ev(args[0]), self.ev(args[1])
            if j not in self.coerced:
                raise Defect('assigns target %d from a value that was never evaluated' % i)
            self.targets[i] = self.coerced[j]
            return 0
        raise Unmodelled('C helper %s/%d' % (name, n))

    def block(self, stmts):
        """statements of one C block; a goto to a label of this block (forwards or backwards) continues there, any other goto leaves the block"""
        i = 0
        while i < len(stmts):
            try:
                self.stmt(stmts[i])
                i += 1
            except s7C01._Goto as g:
                at = [k for k, s in enumerate(stmts) if s.kind == 'label' and s.text == g.label]
                if len(at) != 1:
                    raise
                i = at[0] + 1

    def simple(self, text):
        m = DEREF_STORE.match(text.strip())
        if m:
            i = self.ev(_expr(m.group(2)))
            ref = self.load(m.group(1), i) if isinstance(i, int) else None
            if not (isinstance(ref, tuple) and ref[0] == 'ref'):
                raise Unmodelled('store through %r' % (ref,))
            self.env[ref[1]] = self.ev(_expr(m.group(3)))
            return
        m = BARE_DECL.match(text.strip())
        if m:
            self.env.pop(m.group(1), None)          # declared, not initialised: reading it is outside the model
            return
        return Machine.simple(self, text)

    def run(self):
        """-> ('ok', {target: token}, iterator steps) | (exception class, detail.., iterator steps)"""
        try:
            self.block(self.stmts)
        except s7C01._Goto as g:
            if g.label != ERRLABEL:
                raise Unmodelled('goto %s: label not found in an enclosing block' % g.label)
            if self.error is None and self.pending == 'error':
                return ('Propagated', 'the exception raised by the iterator', self.it_calls)
            if self.error is None:
                raise Defect('reaches the error exit without an exception set')
            return self.error + (self.it_calls,)
        if self.error is not None or self.pending == 'error':
            raise Defect('an exception is set but the unpacking completes normally')
        if self.it_alive:
            self.soft = 'completes without releasing the iterator (reference leak)'
        elif self.disposed != 1:
            self.soft = 'completes without disposing of the right-hand side (reference leak)'
        return ('ok', dict(self.targets), self.it_calls)


def unpack_reference(n, rt):
    if rt.kind in ('none', 'noniter'):
        return ('TypeError', 0)
    if rt.kind in ('tuple', 'list'):
        if rt.k == n:
            return ('ok', {i: ELEM + i for i in range(n)}, None)
        return ('ValueError', 'too many', n, None) if rt.k > n else ('ValueError', 'need more', rt.k, None)
    if rt.raise_at is not None and rt.raise_at <= n:
        return ('Propagated', rt.raise_at + 1)
    k = rt.k if rt.raise_at is None else n + 1
    if k == n:
        return ('ok', {i: ELEM + i for i in range(n)}, n + 1)
    if k > n:
        return ('ValueError', 'too many', n, n + 1)
    return ('ValueError', 'need more', k, k + 1)


def runtime_classes(n, rtype, may_none):
    out = []
    if rtype in ('object', 'tuple'):
        out += [Rt('tuple', k) for k in range(n + 3)]
    if rtype in ('object', 'list'):
        out += [Rt('list', k) for k in range(n + 3)]
    if may_none:
        out.append(Rt('none'))
    if rtype in ('object', 'dict'):
        if rtype == 'object':
            out.append(Rt('noniter'))
        for style in ('null', 'stop'):
            out += [Rt('iter', k, style) for k in range(n + 3)]
        out += [Rt('iter', n + 2, 'null', raise_at=j) for j in range(n + 2)]
    return out


def _show_outcome(o):
    if o[0] == 'ok':
        return 'completes' + (' after %d iterator step(s)' % o[-1] if o[-1] is not None else '')
    if o[0] == 'ValueError':
        return 'raises ValueError (%s, count %r)%s' % (o[1], o[2], ' after %d iterator step(s)' % o[3] if o[3] is not None else '')
    if o[0] == 'Propagated':
        return 'propagates the exception of the iterator after %d step(s)' % o[-1]
    return 'raises %s' % o[0]


def unpack_compare(n, rt, got, want):
    """-> None | (kind, message)"""
    if want[0] == 'ok':
        if got[0] != 'ok':
            return ('rejects', '%s, CPython assigns the %d targets' % (_show_outcome(got), n))
        for i in range(n):
            if got[1].get(i) != want[1][i]:
                g = got[1].get(i)
                return ('binds', 'target %d receives %s, CPython gives it item %d' % (i, 'item %d' % (g - ELEM) if g else 'nothing', i))
        if want[2] is not None and got[2] != want[2]:
            return ('steps', 'the iterator is stepped %d time(s), CPython steps it %d times (the step that finds it exhausted is observable)' % (got[2], want[2]))
        return None
    if got[0] == 'ok':
        return ('accepts', 'the unpacking succeeds; CPython %s' % _show_outcome(want if want[0] != 'TypeError' else ('TypeError',)))
    if got[0] != want[0]:
        return ('exception', '%s; CPython %s' % (_show_outcome(got), _show_outcome(want)))
    if want[0] == 'ValueError':
        if got[1] != want[1] or got[2] != want[2]:
            return ('exception', '%s; CPython %s' % (_show_outcome(got), _show_outcome(want)))
        if want[3] is not None and got[3] != want[3]:
            return ('steps', '%s; CPython %s' % (_show_outcome(got), _show_outcome(want)))
    if want[0] == 'Propagated' and got[-1] != want[-1]:
        return ('steps', '%s; CPython %s' % (_show_outcome(got), _show_outcome(want)))
    return None


def check_unpack_text(n, rtype, may_none, text):
    """-> [(kind, message)]"""
    out = {}
    names = pp_macros(text)
    for vals in itertools.product((1, 0), repeat=len(names)):
        macros = dict(zip(names, vals))
        body = preprocess(text, macros)
        try:
            stmts = pC17.parse_body(';\n' + body)          # (a leading brace would be taken as the braces of the body itself)
        except AnalysisError as x:
            raise Unmodelled('the emitted C does not parse: %s' % x)
        rt_macros = dict(macros)
        for rt in runtime_classes(n, rtype, may_none):
            want = unpack_reference(n, rt)
            m = UnpackMachine(stmts, n, rt, rt_macros)
            try:
                ds = [unpack_compare(n, rt, m.run(), want), ('clevel', 'the emitted code %s' % m.soft) if m.soft else None]
            except Defect as x:
                ds = [('clevel', 'the emitted code %s' % x)]
            for d in ds:
                if d is not None and d[0] not in out:
                    cfg = ', '.join('%s=%d' % kv for kv in sorted(macros.items()))
                    out[d[0]] = 'right-hand side %s%s: %s' % (rt.show(), ' [%s]' % cfg if cfg else '', d[1])
    return sorted(out.items())


CONTROL_TEXT = """{
Py_ssize_t index = -1;
t1 = PyObject_GetIter(RHS); if (!(t1)) {goto __ERR__;}
DISPOSE_RHS();
t2 = __Pyx_PyObject_GetIterNextFunc(t1);
index = 0; ITEM_0 = t2(t1); if (unlikely(!ITEM_0)) goto LBL1;
index = 1; ITEM_1 = t2(t1); if (unlikely(!ITEM_1)) goto LBL1;
t2 = NULL;
DECREF_CLEAR(t1);
goto LBL2;
LBL1:;
DECREF_CLEAR(t1);
t2 = NULL;
if (__Pyx_IterFinish() == 0) __Pyx_RaiseNeedMoreValuesError(index);
{goto __ERR__;}
LBL2:;
}
COERCE(0, ITEM_0);
COERCE(1, ITEM_1);
ASSIGN_TARGET(0, 0);
ASSIGN_TARGET(1, 1);
"""          # positive control: an iterator unpacker for two targets without the end check


def rule_unpackrun(ctx, floor=36):
    r = Rule('C01-UNPACKRUN', 'SequenceNode.generate_parallel_assignment_code: the C emitted for `t0, .., tN-1 = rhs` (N = 1..6, static type object / list / tuple / other builtin, '
                              'may be None or not, every #if configuration), executed on a machine model for EVERY run-time class of the right-hand side (exact tuple / list of 0..N+2 items, None, '
                              'non-iterable, iterators of 0..N+2 items, iterators raising at each step), behaves like the assignment statement of the language reference: same items to the same targets, '
                              'ValueError for too many / too few items with the same count and the same number of iterator steps, exceptions propagated, iterator and right-hand side released once', floor=floor)
    ix = ctx.index
    c = ix.cls('ExprNodes', SEQ)
    found = ix.find_method(c, UENTRY) if c is not None else None
    if not found:
        raise AnalysisError('C01-UNPACKRUN: %s.%s not found' % (SEQ, UENTRY))
    line = found[1].lineno
    problems = {}
    try:
        control = {k for k, _ in check_unpack_text(2, 'dict', False, CONTROL_TEXT)} == {'accepts', 'steps'}
    except Unmodelled as x:
        raise AnalysisError('C01-UNPACKRUN: positive control outside the machine model: %s' % x)
    for n in range(1, 7):
        for rtype in ('object', 'list', 'tuple', 'dict'):
            for may_none in (True, False):
                key = 'N=%d,%s%s' % (n, rtype, ',may-be-None' if may_none else '')
                try:
                    texts = emit_unpack(ix, found, n, rtype, may_none)
                except TBGiveUp as x:
                    raise AnalysisError('C01-UNPACKRUN: the generator left the modelled subset for %s: %s' % (key, x))
                for text in texts:
                    try:
                        devs = check_unpack_text(n, rtype, may_none, text)
                    except Unmodelled as x:
                        raise AnalysisError('C01-UNPACKRUN: emitted code for %s outside the machine model: %s' % (key, x))
                    r.inst(key, sample='%s: every run-time class of the right-hand side unpacked like CPython' % key)
                    for kind, msg in devs:
                        p = problems.setdefault(kind, [0, msg, key])
                        p[0] += 1
    r.positive_control(bool(control), 'without the emitted end check an iterable of N+1 items is accepted')
    what = {'accepts': 'an unpacking CPython rejects succeeds', 'rejects': 'an unpacking CPython performs raises', 'binds': 'a target receives the wrong item',
            'steps': 'the iterator is stepped a different number of times', 'exception': 'a different exception (or count) is raised',
            'clevel': 'the emitted C misbehaves at the C level'}
    for kind, (cnt, msg, key) in sorted(problems.items()):
        r.violate('%s.%s:%s' % (SEQ, UENTRY, kind), EXPR, line,
                  'parallel unpacking emitted by %s.%s: %s - e.g. %s, %s (%d member(s) of the family affected)' % (SEQ, UENTRY, what.get(kind, kind), key, msg, cnt))
    return r


# =============================================================================================== C01-AUGOP
def _binops(v, seen=None):
    """binary-operation nodes of a built tree"""
    seen = seen if seen is not None else set()
    out = []
    if isinstance(v, BNode):
        if id(v) in seen:
            return out
        seen.add(id(v))
        if v.cls == 'binop_node' or v.cls.endswith('BinopNode') or ('operand1' in v.fields and 'operand2' in v.fields):
            out.append(v)
        for x in list(v.fields.values()) + list(v.args):
            out += _binops(x, seen)
    elif isinstance(v, (list, tuple)):
        for x in v:
            out += _binops(x, seen)
    return out


def _py_operation_names(ix, found, cname, op, flag, pfv, fpv, limit=16):
    """values returned by py_operation_function on every path (the operand types are left open)"""
    out, todo, n = [], [dict()], 0
    while todo:
        d = todo.pop()
        n += 1
        if n > limit:
            raise TBGiveUp('more than %d paths' % limit)
        tb = ArgTB(ix, found[0].module, d, None, {'is_specialised_binop_type': lambda tb, a, k: tb.decide('specialised')})
        tb.inline = {cname}
        me = SNode('self', {'operator': op, 'inplace': flag, 'py_functions': pfv, 'fast_pyops': fpv,
                            'operand1': SNode('o1', {'type': SNode('t1', {'name': 'T1'})}), 'operand2': SNode('o2', {'type': SNode('t2', {'name': 'T2'})})}, cls=cname)
        try:
            out.append(tb.invoke(Closure(found[1], Env(), None), [me, CodeRec()], {}))
        except _Fork as f:
            for b in (True, False):
                d2 = dict(d)
                d2[f.key] = b
                todo.append(d2)
        except _Raise as x:
            raise TBGiveUp('raises %s' % x.name)
    return out


def rule_augop(ctx, floor=125):
    """seed C01l.  Part 1: the tree ExpandInplaceOperators builds for `target OP= rhs` contains exactly one binary operation, created in-place (inplace=True)
    with the operator of the statement.  Part 2: the literal fast path hands the node's `inplace` attribute to the helper (decision procedure of C02-INPL,
    rules/sC02.rule_inplace_flag over the decision points of optimise_numeric_binop enumerated by props/C02)."""
    from . import pC01, sC02
    from ..props import C02 as M
    r = Rule('C01-AUGOP', '`target OP= value` reaches the run-time operator as the IN-PLACE operation (__iadd__ before __add__, mutable objects updated in place): the tree built by '
                          'ExpandInplaceOperators for every target shape holds one binary operation with inplace=True and the operator of the statement; the fast path for a numeric literal operand '
                          '(optimise_numeric_binop) passes the inplace attribute of the operation node on to the helper for every operator / literal kind / node class', floor=floor)
    ix = ctx.index
    mod = ix.mod('ParseTreeTransforms')
    cls = ix.cls('ParseTreeTransforms', 'ExpandInplaceOperators')
    hname = 'visit_InPlaceAssignmentNode'
    if cls is None or hname not in cls.methods:
        raise AnalysisError('C01-AUGOP: ExpandInplaceOperators.%s not found' % hname)
    fn = cls.methods[hname]
    reported = set()
    for skey, builder in pC01.inplace_shapes():
        try:
            res = pC01._run_inplace(ix, mod, cls, fn, builder)
        except TBGiveUp as e:
            raise AnalysisError('C01-AUGOP: %s leaves the modelled subset of the tree-builder interpreter for target %s: %s' % (hname, skey, e))
        nexp = 0
        for d, kind, v, h in res:
            if kind != 'return' or v is h['node'] or v is None:
                continue
            nexp += 1
            ops = _binops(v)
            bad = None
            if len(ops) != 1:
                bad = ('count', 'holds %d binary operations (one expected: `target = target OP rhs`)' % len(ops))
            else:
                flag = ops[0].fields.get('inplace', False)
                op = ops[0].fields.get('operator')
                if flag is not True:
                    bad = ('flag', 'creates the binary operation with inplace=%r: the generic operator call becomes PyNumber_<Op> instead of PyNumber_InPlace<Op>, so `x += y` calls '
                                   '__add__ where CPython calls __iadd__ and a mutable object shared through another reference is not updated' % (flag,))
                elif op != '+':
                    bad = ('operator', 'creates the binary operation with operator %r for the statement operator \'+\'' % (op,))
            if bad and bad[0] not in reported:
                reported.add(bad[0])
                r.violate('ExpandInplaceOperators.%s:binop:%s' % (hname, bad[0]), mod.rel, fn.lineno, 'target shape %s: the expansion of `target += rhs` %s' % (skey, bad[1]))
        r.inst('tree:' + skey, sample='%s: %d expanded tree(s) carry one in-place binary operation' % (skey, nexp), nontrivial=nexp > 0)
    # ---- the generic operator call: NumBinopNode.py_operation_function
    for cname in ('NumBinopNode',):
        c = ix.cls('ExprNodes', cname)
        found = ix.find_method(c, 'py_operation_function') if c is not None else None
        pf = ix.find_class_attr(c, 'py_functions') if c is not None else None
        fp = ix.find_class_attr(c, 'fast_pyops') if c is not None else None
        if not found or pf is None or fp is None:
            raise AnalysisError('C01-AUGOP: %s.py_operation_function / py_functions / fast_pyops not found' % cname)
        try:
            pfv, fpv = tables.literal(pf[1]), tables.literal(fp[1])
        except Exception as e:
            raise AnalysisError('C01-AUGOP: %s.py_functions / fast_pyops are not literal tables: %s' % (cname, e))
        for op in sorted(pfv):
            for flag in (True, False):
                try:
                    names = _py_operation_names(ix, found, cname, op, flag, pfv, fpv)
                except TBGiveUp as e:
                    raise AnalysisError('C01-AUGOP: %s.py_operation_function leaves the modelled subset for %r: %s' % (cname, op, e))
                key = 'pyop:%s:%s:%s' % (cname, op, 'inplace' if flag else 'plain')
                r.inst(key, sample='%s -> %s' % (key, sorted(set(map(str, names)))))
                for nm in names:
                    if not isinstance(nm, str) or ('InPlace' in nm) != flag:
                        k2 = 'pyop:%s:%s' % (cname, 'inplace' if flag else 'plain')
                        if k2 not in reported:
                            reported.add(k2)
                            r.violate('%s.py_operation_function:%s' % (cname, 'inplace' if flag else 'plain'), EXPR, found[1].lineno,
                                      '%s.py_operation_function returns %r for operator %r with inplace=%r: %s' % (cname, nm, op, flag,
                                      'an augmented assignment calls the binary operator (__add__ instead of __iadd__, a shared mutable object is not updated)' if flag else
                                      'a plain binary operation calls the in-place operator and mutates its left operand'))
                        break
    # ---- the literal fast path: C02-INPL
    opt = ix.mod('Optimize')
    dfn = opt.functions.get(M.DECIDER)
    ocls = ix.cls('Optimize', 'OptimizeBuiltinCalls')
    if dfn is None or ocls is None:
        raise AnalysisError('C01-AUGOP: Optimize.%s / OptimizeBuiltinCalls not found' % M.DECIDER)
    fw = M.find_forwarders(ocls)
    handlers, _ = M.handler_table(ocls, fw)
    ops = set()
    for h in handlers.values():
        ops |= h[2]
    for m, qn, f2, call in M.external_operator_sites(ix):
        if m is opt and qn.split('.')[-1] in fw:
            continue
        ops |= set(M.finite_values(f2, call, call.args[0]))
    points, bailed, fvar = M.enumerate_decider(dfn, ops)
    if not points:
        raise AnalysisError('C01-AUGOP: %s: no path selects a fast path' % M.DECIDER)
    r2 = sC02.rule_inplace_flag(ctx, dfn, fvar, points, floor=0)
    if r2.instances < 20:
        raise AnalysisError('C01-AUGOP: only %d (operator, literal kind, node class, flag) points of %s were decided' % (r2.instances, M.DECIDER))
    for i in range(r2.instances):
        r.inst('fast:%d' % i, sample=r2.samples[i] if i < len(r2.samples) and isinstance(r2.samples[i], str) else 'optimise_numeric_binop decision point %d' % i)
    for f in r2.findings:
        r.violate('optimise_numeric_binop:' + f.construct, f.file, f.line, f.msg)
    for msg in r2.infos:
        r.info(msg)
    # positive control: a tree whose operation is built without the flag
    pc = BNode('SingleAssignmentNode', {'lhs': None, 'rhs': BNode('binop_node', {'operator': '+', 'operand1': None, 'operand2': None, 'inplace': False})})
    o = _binops(pc)
    r.positive_control(len(o) == 1 and o[0].fields.get('inplace') is not True, 'a binary operation built with inplace=False is seen')
    return r
