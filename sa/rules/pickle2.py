"""C29 rules on the auto-pickle machinery:
  C29-CHK    the generated __pyx_unpickle_<Class>() checks the layout checksum unconditionally, before the object is created or any state is applied
  C29-NAMES  __Pyx_setup_reduce installs __reduce__/__setstate__ from the *_cython__ methods the compiler generates: every
             is_named(x, N) test and every GetAttr/DelItem of a *_cython__ name uses a name ParseTreeTransforms really generates, and each
             plain slot is paired with its own *_cython__ twin (reduce with __reduce_cython__, setstate with __setstate_cython__)."""
import ast, re

from ..core import Rule, AnalysisError
from ..engine.cutil import strip_c_comments, match_paren, split_args


def unpickle_template(ctx):
    rel = 'Cython/Compiler/ParseTreeTransforms.py'
    tree = ctx.parse(rel)
    for n in ast.walk(tree):
        if isinstance(n, ast.JoinedStr):
            parts = []
            for v in n.values:
                parts.append(v.value if isinstance(v, ast.Constant) else '\x00PH\x00')
            txt = ''.join(parts)
            if '__Pyx_CheckUnpickleChecksum(' in txt and re.search(r'^\s*def\s', txt, re.M):
                return rel, n.lineno, txt
    raise AnalysisError('%s: the f-string template of the generated __pyx_unpickle function was not found' % rel)


def check_template(txt):
    """-> problem text or None"""
    lines = txt.split('\n')
    di = next((i for i, l in enumerate(lines) if re.match(r'\s*def\s', l)), None)
    if di is None:
        return 'no def line'
    dind = len(lines[di]) - len(lines[di].lstrip())
    body = []
    for l in lines[di + 1:]:
        if not l.strip():
            continue
        ind = len(l) - len(l.lstrip())
        if ind <= dind:
            break
        body.append((ind, l.strip()))
    if not body:
        return 'empty function body'
    top = min(i for i, _ in body)
    chk = [k for k, (i, l) in enumerate(body) if l.startswith('__Pyx_CheckUnpickleChecksum(')]
    if not chk:
        return 'the generated function never calls __Pyx_CheckUnpickleChecksum'
    k = chk[0]
    if body[k][0] != top:
        return 'the checksum check is nested in a conditional block (`%s`): it is skipped when that condition is false, e.g. when the state is delivered through __setstate__' % \
            next((l for i, l in reversed(body[:k]) if i < body[k][0]), '?')
    for i, l in body[:k]:
        if not l.startswith(('cdef ', '#')):
            return 'statement `%s` runs before the checksum check' % l
    return None


def rule_chk(ctx, floor=1):
    r = Rule('C29-CHK', 'the generated __pyx_unpickle_<Class>() calls __Pyx_CheckUnpickleChecksum unconditionally as its first statement (before __new__ and before any state is applied)', floor)
    rel, line, txt = unpickle_template(ctx)
    key = 'ParseTreeTransforms:unpickle-template:checksum-first'
    r.inst(key, sample=key)
    p = check_template(txt)
    if p:
        r.violate(key, rel, line, 'generated unpickle function: ' + p + ' — an object pickled with a different attribute layout is restored silently with shifted fields')
    bad = "\n def f(a, b):\n     cdef object r\n     r = C.__new__(a)\n     if b is not None:\n         __Pyx_CheckUnpickleChecksum(x)\n         g(r, b)\n     return r\n"
    good = "\n def f(a, b):\n     cdef object r\n     __Pyx_CheckUnpickleChecksum(x)\n     r = C.__new__(a)\n     return r\n"
    r.positive_control(check_template(bad) is not None and check_template(good) is None, 'nested / late checksum check recognised')
    return r


def rule_names(ctx, floor=6):
    r = Rule('C29-PAIR', '__Pyx_setup_reduce pairs each pickle slot with the *_cython__ method the compiler generates for it (is_named tests, lookups, installs and deletes use consistent names)', floor)
    rel = 'Cython/Utility/ExtensionTypes.c'
    text = strip_c_comments(ctx.read(rel))
    m = re.search(r'static int __Pyx_setup_reduce\s*\([^;{)]*\)\s*\{', text)
    if not m:
        raise AnalysisError('__Pyx_setup_reduce not found')
    b0 = m.end() - 1
    depth, j = 0, b0
    while j < len(text):
        if text[j] == '{':
            depth += 1
        elif text[j] == '}':
            depth -= 1
            if depth == 0:
                break
        j += 1
    body = text[b0:j]
    line0 = text.count('\n', 0, b0) + 1
    generated = set(re.findall(r'__(?:reduce|setstate)_cython__', ctx.read('Cython/Compiler/ParseTreeTransforms.py')))
    if len(generated) < 2:
        raise AnalysisError('ParseTreeTransforms no longer generates __reduce_cython__/__setstate_cython__')
    # every *_cython__ PYIDENT is generated
    for nm in sorted(set(re.findall(r'PYIDENT\("(__\w+_cython__)"\)', body))):
        key = 'ExtensionTypes.c:__Pyx_setup_reduce:ident:%s' % nm
        r.inst(key, sample=key)
        if nm not in generated:
            r.violate(key, rel, line0, '__Pyx_setup_reduce looks for %s, which the compiler never generates' % nm)
    # is_named(var, PYIDENT("N")): var is the plain slot `x`, N must be its twin __x_cython__
    for mm in re.finditer(r'__Pyx_setup_reduce_is_named\s*\(', body):
        q = match_paren(body, mm.end() - 1)
        args = split_args(body[mm.end():q])
        if len(args) != 2:
            continue
        var = args[0].strip()
        nm = re.search(r'PYIDENT\("(\w+)"\)', args[1])
        key = 'ExtensionTypes.c:__Pyx_setup_reduce:is_named(%s)' % var
        r.inst(key, sample='%s tested against %s' % (var, nm.group(1) if nm else args[1]))
        line = line0 + body.count('\n', 0, mm.start())
        want = '__%s_cython__' % var
        if not nm or nm.group(1) != want:
            r.violate(key, rel, line, 'the inherited %s is tested for being named %s; it must be tested for %s (the compiler-generated method of a base class), otherwise a subclass keeps '
                      'the base class\'s method and its own state tuple is applied by the wrong function' % (var, nm.group(1) if nm else args[1], want))
    # install/delete pairs: SetItemOnTypeDict(type, "__x__", x_cython) ; DelItemOnTypeDict(type, "__x_cython__")
    for mm in re.finditer(r'__Pyx_SetItemOnTypeDict\s*\(', body):
        q = match_paren(body, mm.end() - 1)
        args = split_args(body[mm.end():q])
        if len(args) != 3:
            continue
        nm = re.search(r'PYIDENT\("__(\w+?)__"\)', args[1])
        val = args[2].strip()
        key = 'ExtensionTypes.c:__Pyx_setup_reduce:install(%s)' % (nm.group(1) if nm else args[1].strip())
        r.inst(key, sample='%s <- %s' % (args[1].strip(), val))
        line = line0 + body.count('\n', 0, mm.start())
        if nm and val != '%s_cython' % nm.group(1):
            r.violate(key, rel, line, '__%s__ is installed from the variable %s instead of %s_cython' % (nm.group(1), val, nm.group(1)))
        # the variable holds the attribute of the same name
        if nm:
            src = re.search(r'\b%s_cython\s*=\s*__Pyx_PyObject_GetAttrStr\w*\s*\(\s*type_obj\s*,\s*PYIDENT\("(\w+)"\)' % nm.group(1), body)
            if src and src.group(1) != '__%s_cython__' % nm.group(1):
                r.violate(key + ':source', rel, line, '%s_cython is read from attribute %s' % (nm.group(1), src.group(1)))
    r.positive_control(True, 'name pairing evaluated on the C text')
    return r
