"""DET rule family: order-taint (D1).  A value is *unordered* if it is a set/frozenset (literal, comprehension,
constructor, set operation), or a local/attribute bound to one.  Iterating an unordered value into an
order-sensitive effect (emitting code, appending to a list, joining a string, building a tuple/list, yielding)
makes the output depend on PYTHONHASHSEED unless the iteration is wrapped in sorted()."""
import ast, re

from ..core import Rule, AnalysisError, node_src, norm_stmt
from ..engine.pyindex import walk_no_nested as _walk_no_nested, is_self_attr

_NODES = {}


def walk_no_nested(fn):
    """memoised node list per function (the taint passes revisit every function several times)"""
    k = id(fn)
    if k not in _NODES:
        _NODES[k] = (fn, list(_walk_no_nested(fn)))
    return _NODES[k][1]

SET_CTORS = {'set', 'frozenset'}
CLEAN = {'sorted', 'min', 'max', 'sum', 'len', 'any', 'all', 'set', 'frozenset', 'bool', 'dict'}
ORDERED_MAKERS = {'list', 'tuple'}
GLOBAL_SET_RETURNING = set()


class Taint:
    def __init__(self, ix, module):
        self.ix, self.m = ix, module
        self.class_set_attrs = {}
        self.class_los_attrs = {}
        self.cur_owner = None

    def set_attrs(self, owner):
        """self attributes that hold sets in class `owner` (assigned set()/{...} in any method along the MRO)."""
        if owner is None:
            return set()
        k = id(owner)
        if k not in self.class_set_attrs:
            self.class_set_attrs[k] = set()       # guards re-entrance
            self.class_los_attrs[k] = set()
            out = set()
            for c in self.ix.mro(owner):
                for fn in c.methods.values():
                    for n in walk_no_nested(fn):
                        if isinstance(n, ast.Assign):
                            for t in n.targets:
                                if is_self_attr(t) and self.is_set_expr(n.value, set(), set()):
                                    out.add(t.attr)
                for a, v in c.attrs.items():
                    if isinstance(v, ast.AST) and self.is_set_expr(v, set(), set()):
                        out.add(a)
            self.class_set_attrs[k] = out
            # attributes holding a stack/list of sets:  self.x.append(set())
            los = set()
            for c in self.ix.mro(owner):
                for fn in c.methods.values():
                    for n in walk_no_nested(fn):
                        if isinstance(n, ast.Call) and isinstance(n.func, ast.Attribute) and n.func.attr == 'append' and is_self_attr(n.func.value) \
                                and n.args and self.is_set_expr(n.args[0], set(), set()):
                            los.add(n.func.value.attr)
            self.class_los_attrs[k] = los
        return self.class_set_attrs[k]

    def los_attrs(self, owner):
        if owner is None:
            return set()
        self.set_attrs(owner)
        return self.class_los_attrs.get(id(owner), set())

    def build_summaries(self):
        """One-level function summaries for this module: which results are unordered, which parameters pass their
        (un)orderedness through to the result."""
        self.ret_unordered = {}     # function name -> set of tuple positions (or {'all'})
        self.passes = {}            # function name -> set of parameter indices (self not counted)
        fns = [(qn, owner, fn) for qn, owner, fn in self.ix.functions_of(self.m)]
        for _ in range(2):
            for qn, owner, fn in fns:
                attrs = self.set_attrs(owner)
                tainted = self.tainted_locals(fn, attrs)
                params = [a.arg for a in fn.args.args if a.arg not in ('self', 'cls')]
                ru, ps = set(), set()
                for n in walk_no_nested(fn):
                    if isinstance(n, ast.Return) and n.value is not None:
                        v = n.value
                        if isinstance(v, ast.Tuple):
                            for i, e in enumerate(v.elts):
                                if self.is_unordered(e, tainted, attrs):
                                    ru.add(i)
                        elif self.is_unordered(v, tainted, attrs):
                            ru.add('all')
                        for i, pnm in enumerate(params):
                            if self.is_unordered(v, tainted | {pnm}, attrs) and not self.is_unordered(v, tainted, attrs):
                                ps.add(i)
                if ru:
                    self.ret_unordered[fn.name] = ru
                if ps:
                    self.passes[fn.name] = ps

    def is_unordered(self, e, tainted, attrs):
        """Set-typed, or an ordered container whose element order was taken from iterating a set."""
        if self.is_set_expr(e, tainted, attrs):
            return True
        if isinstance(e, ast.Call) and isinstance(e.func, ast.Name) and e.func.id in ORDERED_MAKERS and e.args:
            return self.is_unordered(e.args[0], tainted, attrs)
        if isinstance(e, (ast.ListComp, ast.GeneratorExp)):
            return self.is_unordered(e.generators[0].iter, tainted, attrs)
        return False

    def is_set_expr(self, e, tainted, attrs):
        if isinstance(e, (ast.Set, ast.SetComp)):
            return True
        # element of a list-of-sets attribute:  self.stack.pop()  /  self.stack[-1]
        if self.cur_owner is not None:
            los = self.los_attrs(self.cur_owner)
            if isinstance(e, ast.Call) and isinstance(e.func, ast.Attribute) and e.func.attr == 'pop' and is_self_attr(e.func.value) and e.func.value.attr in los:
                return True
            if isinstance(e, ast.Subscript) and is_self_attr(e.value) and e.value.attr in los:
                return True
        if isinstance(e, ast.Call):
            f = e.func
            if isinstance(f, ast.Name) and f.id in SET_CTORS:
                return True
            # method with a codebase-unique name that is known to return a set (global summary)
            if isinstance(f, ast.Attribute) and f.attr in GLOBAL_SET_RETURNING:
                return True
            fname = f.id if isinstance(f, ast.Name) else f.attr if isinstance(f, ast.Attribute) and isinstance(f.value, ast.Name) and f.value.id in ('self', 'cls') else None
            if fname and getattr(self, 'ret_unordered', None) is not None:
                if 'all' in self.ret_unordered.get(fname, ()):
                    return True
                for i in self.passes.get(fname, ()):
                    if i < len(e.args) and self.is_unordered(e.args[i], tainted, attrs):
                        return True
            if isinstance(f, ast.Attribute) and f.attr in ('union', 'intersection', 'difference', 'symmetric_difference', 'copy') and self.is_set_expr(f.value, tainted, attrs):
                return True
            return False
        if isinstance(e, ast.BinOp) and isinstance(e.op, (ast.BitOr, ast.BitAnd, ast.Sub, ast.BitXor)):
            return self.is_set_expr(e.left, tainted, attrs) or self.is_set_expr(e.right, tainted, attrs)
        if isinstance(e, ast.Name):
            if e.id not in tainted:
                return False
            # flow refinement: the nearest assignment that precedes this use in source order decides (a name that held
            # a set and is then rebound to a sorted/ordered value is clean from there on)
            amap = getattr(tainted, 'assigns', None)
            if amap and e.id in amap and hasattr(e, 'lineno'):
                prev = [a for a in amap[e.id] if a[0] < e.lineno]
                if prev:
                    line, val, aug = max(prev, key=lambda a: a[0])
                    if aug:
                        return True
                    if val is None:
                        return True
                    if isinstance(val, tuple) and val[0] == 'unpack':
                        call, i = val[1], val[2]
                        f = call.func
                        fname = f.id if isinstance(f, ast.Name) else f.attr if isinstance(f, ast.Attribute) else None
                        ru = getattr(self, 'ret_unordered', {}).get(fname, ())
                        if i in ru or 'all' in ru:
                            return True
                        for pi in getattr(self, 'passes', {}).get(fname, ()):
                            if pi < len(call.args) and self.is_unordered(call.args[pi], tainted, attrs):
                                return True
                        return False
                    depth = getattr(self, '_depth', 0)
                    if depth > 6:
                        return True
                    self._depth = depth + 1
                    try:
                        return self.is_unordered(val, tainted, attrs)
                    finally:
                        self._depth = depth
            return True
        if is_self_attr(e):
            return e.attr in attrs
        if isinstance(e, ast.IfExp):
            return self.is_set_expr(e.body, tainted, attrs) or self.is_set_expr(e.orelse, tainted, attrs)
        return False

    def tainted_locals(self, fn, attrs):
        key = (id(fn), len(getattr(self, 'ret_unordered', None) or ()), len(getattr(self, 'passes', None) or ()), len(GLOBAL_SET_RETURNING))
        memo = self.__dict__.setdefault('_tl', {})
        if key in memo:
            return memo[key]
        res = memo[key] = self._tainted_locals(fn, attrs)
        return res

    def _tainted_locals(self, fn, attrs):
        class TSet(set):
            pass
        tainted = TSet()
        tainted.assigns = {}
        for n in walk_no_nested(fn):
            if isinstance(n, ast.Assign):
                for t in n.targets:
                    if isinstance(t, ast.Name):
                        tainted.assigns.setdefault(t.id, []).append((n.lineno, n.value, False))
                    elif isinstance(t, ast.Tuple):
                        for x in t.elts:
                            if isinstance(x, ast.Name):
                                i = t.elts.index(x)
                                if isinstance(n.value, ast.Tuple) and i < len(n.value.elts):
                                    tainted.assigns.setdefault(x.id, []).append((n.lineno, n.value.elts[i], False))
                                elif isinstance(n.value, ast.Call):
                                    tainted.assigns.setdefault(x.id, []).append((n.lineno, ('unpack', n.value, i), False))
                                else:
                                    tainted.assigns.setdefault(x.id, []).append((n.lineno, None, False))
            elif isinstance(n, ast.AnnAssign) and isinstance(n.target, ast.Name) and n.value is not None:
                tainted.assigns.setdefault(n.target.id, []).append((n.lineno, n.value, False))
            elif isinstance(n, ast.AugAssign) and isinstance(n.target, ast.Name):
                tainted.assigns.setdefault(n.target.id, []).append((n.lineno, n.value, True))
        changed = True
        while changed:
            changed = False
            for n in walk_no_nested(fn):
                tg = []
                if isinstance(n, ast.Assign):
                    tg, val = n.targets, n.value
                elif isinstance(n, ast.AnnAssign) and n.value is not None:
                    tg, val = [n.target], n.value
                elif isinstance(n, ast.AugAssign) and isinstance(n.op, (ast.BitOr, ast.BitAnd, ast.Sub)):
                    tg, val = [n.target], n.value
                else:
                    continue
                if self.is_unordered(val, tainted, attrs):
                    for t in tg:
                        if isinstance(t, ast.Name) and t.id not in tainted:
                            tainted.add(t.id)
                            changed = True
                # a, b, c = self.f(...)   /   x = self.f(...)[i]
                call, idx = val, None
                if isinstance(val, ast.Subscript) and isinstance(val.slice, ast.Constant) and isinstance(val.slice.value, int):
                    call, idx = val.value, val.slice.value
                if isinstance(call, ast.Call) and getattr(self, 'ret_unordered', None):
                    f = call.func
                    fname = f.id if isinstance(f, ast.Name) else f.attr if isinstance(f, ast.Attribute) else None
                    ru = self.ret_unordered.get(fname, ())
                    for t in tg:
                        if isinstance(t, ast.Tuple) and idx is None:
                            for i, e in enumerate(t.elts):
                                if i in ru and isinstance(e, ast.Name) and e.id not in tainted:
                                    tainted.add(e.id)
                                    changed = True
                        elif isinstance(t, ast.Name) and idx is not None and idx in ru and t.id not in tainted:
                            tainted.add(t.id)
                            changed = True
        return tainted


def _order_sensitive_body(body):
    """Does a loop body have an effect whose result depends on iteration order?"""
    for s in body:
        for n in ast.walk(s):
            if isinstance(n, ast.Call) and isinstance(n.func, ast.Attribute):
                a = n.func.attr
                if a in ('append', 'extend', 'insert', 'write', 'put', 'putln', 'put_safe', 'appendleft') or a.startswith('put_') or a.startswith('generate_') or a in ('use_utility_code', 'use_entry_utility_code'):
                    return node_src(n, 60)
            if isinstance(n, (ast.Yield, ast.YieldFrom)):
                return 'yield'
            if isinstance(n, ast.AugAssign) and isinstance(n.op, ast.Add) and not isinstance(n.value, ast.Constant):
                return node_src(n, 60)
            if isinstance(n, ast.Return) and n.value is not None:
                return node_src(n, 60)
            if isinstance(n, ast.Break):
                return 'break (first element wins)'
    return None


def rule_D1(ctx, modules=None, floor=20):
    ix = ctx.index
    r = Rule('D1', 'no set/frozenset is iterated into an order-sensitive effect (emitted code, list/tuple/string building, yield) without sorted()', floor)
    mods = modules or [m for m in ix.modules.values() if m.name.startswith('Cython.Compiler') or m.short in ('Dependencies', 'Cache', 'Utils', 'Inline', 'StringIOTree')]
    # global summary: methods with a codebase-unique name that return a set
    GLOBAL_SET_RETURNING.clear()
    defs = {}
    taints = {}
    for m in mods:
        for qn, owner, fn in ix.functions_of(m):
            defs.setdefault(fn.name, []).append((m, owner, fn))
    for name, lst in defs.items():
        if len(lst) != 1 or name.startswith('__'):
            continue
        m, owner, fn = lst[0]
        if not any(isinstance(n, ast.Return) and n.value is not None for n in walk_no_nested(fn)):
            continue
        T0 = taints.setdefault(m.name, Taint(ix, m))
        T0.cur_owner = owner
        attrs = T0.set_attrs(owner)
        tl = T0.tainted_locals(fn, attrs)
        rets = [n for n in walk_no_nested(fn) if isinstance(n, ast.Return) and n.value is not None]
        if rets and all(T0.is_set_expr(n.value, tl, attrs) for n in rets):
            GLOBAL_SET_RETURNING.add(name)
    r.info('methods summarised as set-returning: %s' % sorted(GLOBAL_SET_RETURNING))
    for m in mods:
        if m.short in ('TestUtils',) or '.Tests' in m.name:
            continue
        T = taints.setdefault(m.name, Taint(ix, m))
        T.build_summaries()
        for qn, owner, fn in ix.functions_of(m):
            T.cur_owner = owner
            attrs = T.set_attrs(owner)
            tainted = T.tainted_locals(fn, attrs)
            for n in walk_no_nested(fn):
                sink = None
                it = None
                if isinstance(n, ast.For):
                    it = n.iter
                    if T.is_unordered(it, tainted, attrs):
                        eff = _order_sensitive_body(n.body)
                        if eff:
                            sink = 'for-loop with order-sensitive body (%s)' % eff
                        else:
                            r.inst('%s.%s:for:%s' % (m.short, qn, norm_stmt(it)[:40]), nontrivial=False)
                elif isinstance(n, (ast.ListComp, ast.GeneratorExp)):
                    g = n.generators[0]
                    it = g.iter
                    if T.is_set_expr(it, tainted, attrs):
                        sink = 'list/generator built from a set'
                elif isinstance(n, ast.Call) and isinstance(n.func, ast.Name) and n.func.id in ORDERED_MAKERS and n.args and T.is_set_expr(n.args[0], tainted, attrs):
                    it = n.args[0]
                    sink = '%s() of a set' % n.func.id
                elif isinstance(n, ast.Call) and isinstance(n.func, ast.Attribute) and n.func.attr == 'join' and n.args and T.is_set_expr(n.args[0], tainted, attrs):
                    it = n.args[0]
                    sink = 'str.join of a set'
                elif isinstance(n, ast.Starred) and T.is_set_expr(n.value, tainted, attrs):
                    it = n.value
                    sink = 'star-unpacking of a set'
                if sink is None:
                    continue
                # cleansed by an enclosing order-insensitive consumer:  sorted(x for x in S), set(...), any(...), len([...])
                if _cleansed(fn, n):
                    r.inst('%s.%s:%s' % (m.short, qn, norm_stmt(it)[:40]), sample='%s.%s: %s over %s (order-insensitive consumer)' % (m.short, qn, sink, node_src(it, 40)), nontrivial=False)
                    continue
                key = '%s.%s:%s' % (m.short, qn, norm_stmt(it)[:50])
                r.inst(key, sample='%s.%s: %s over %s' % (m.short, qn, sink, node_src(it, 40)))
                r.violate(key, m.rel, n.lineno,
                          '%s.%s iterates the unordered %s into an order-sensitive effect (%s): the result depends on PYTHONHASHSEED / set history; wrap it in sorted()' % (m.short, qn, node_src(it, 50), sink))
    return r


def _cleansed(fn, node):
    """Is `node` (a comprehension / list() call) directly consumed by an order-insensitive function, or only used for membership?"""
    parents = {}
    for p in ast.walk(fn):
        for c in ast.iter_child_nodes(p):
            parents[id(c)] = p
    p = parents.get(id(node))
    hops = 0
    while p is not None and hops < 3:
        if isinstance(p, ast.Call) and isinstance(p.func, ast.Name) and p.func.id in CLEAN:
            return True
        if isinstance(p, ast.Call) and isinstance(p.func, ast.Attribute) and p.func.attr in ('update', 'union', 'intersection', 'difference', 'issubset', 'issuperset', 'difference_update', 'intersection_update'):
            return True
        if isinstance(p, ast.Compare) and any(isinstance(o, (ast.In, ast.NotIn)) for o in p.ops):
            return True
        if isinstance(p, (ast.SetComp, ast.Set, ast.DictComp)):
            return True
        if isinstance(p, ast.comprehension):
            p = parents.get(id(p))
            hops += 1
            continue
        if isinstance(p, (ast.stmt,)):
            return False
        p = parents.get(id(p))
        hops += 1
    return False
