"""C02-CMPSEL (round 8) — PyLongCompare: for EVERY admitted constant the unrolled digit comparison that is SELECTED compares the right number of digits.

C02-FAST decides each `unequal = (size != N) || digits[0] != ... | digits[N-1] != ...` block on its own (N digit tests for size N, digit i against bits
[i*SHIFT, (i+1)*SHIFT)).  Which block runs is decided by a cascade of preprocessor conditions (`#if PyLong_SHIFT * k < SIZEOF_LONG*8`) and run-time tests
(`if (uintval >> (PyLong_SHIFT * k))`).  Seed C02k removed the two-digit block for 30-bit digits "because the constant is limited to 30 bits": 2**30 itself
(admitted: the cut-off is |c| <= 2**30) has two digits, and `x == 2**30` became false.

Decided: for each expansion of PyLongCompare (Eq / Ne x object / bint result), each data model PyLong_SHIFT in longintrepr.h's {15, 30} x sizeof(long) in {4, 8}
(preprocessor conditions over PyLong_SHIFT / SIZEOF_LONG are EVALUATED, other macros fork both ways), the magnitudes 1 .. cut-off (the cut-off is extracted from
optimise_numeric_binop for the operator, not assumed) are partitioned by every threshold the selecting conditions can distinguish (2**n for `uintval >> n`,
K and K+1 for comparisons with uintval-free K) and by the digit boundaries 2**(SHIFT*d).  In every cell exactly one `unequal = ...` assignment is selected, and the
digit count it requires (`size != N`) is the number of SHIFT-bit digits of the magnitudes of the cell.  A shift of uintval by >= the width of unsigned long that
is compiled in a model is reported as well (undefined behaviour, C11 6.5.7p3).  Conditions on uintval of any other form are refused (ANALYSIS-ERROR).
"""
import re

from ..core import Rule, AnalysisError
from ..engine import cexpr, cguard
from ..engine.cutil import strip_c_comments
from . import pC02 as P
from . import sC02

REL_C = 'Cython/Utility/Optimize.c'
_PP = re.compile(r'^[ \t]*#[ \t]*(if|ifdef|ifndef|elif|else|endif)\b(.*)$')
MODELS = [(sh, w) for sh in (15, 30) for w in (4, 8)]


def preprocess(body, env):
    """[(configuration note, text)] with #if conditions over `env` evaluated; conditions with other macros fork both ways"""
    import itertools
    body = re.sub(r'\\[ \t]*\n', ' ', body)
    lines = body.split('\n')
    free = []
    conds = {}
    for ln in lines:
        m = _PP.match(ln)
        if m and m.group(1) in ('if', 'elif', 'ifdef', 'ifndef'):
            c = ' '.join(m.group(2).split())
            if m.group(1) in ('ifdef', 'ifndef'):
                c = 'defined(%s)' % c
            if c in conds:
                continue
            try:
                conds[c] = bool(cexpr.evaluate(cexpr.parse(c), env))
            except Exception:
                conds[c] = None
                free.append(c)
    if len(free) > 6:
        raise AnalysisError('C02-CMPSEL: %d preprocessor conditions that cannot be evaluated in one function' % len(free))
    out, seen = [], set()
    for bits in itertools.product((True, False), repeat=len(free)):
        val = dict(conds)
        val.update(zip(free, bits))
        keep, stack = [], []
        for ln in lines:
            m = _PP.match(ln)
            if not m:
                keep.append(ln if all(x[1] for x in stack) else '')
                continue
            keep.append('')
            d = m.group(1)
            c = ' '.join(m.group(2).split())
            if d in ('if', 'ifdef', 'ifndef'):
                if d != 'if':
                    c = 'defined(%s)' % c
                t = val[c] if d != 'ifndef' else not val[c]
                stack.append([t, t])
            elif d == 'elif':
                if not stack:
                    raise AnalysisError('C02-CMPSEL: #elif without #if')
                if stack[-1][0]:
                    stack[-1][1] = False
                else:
                    stack[-1] = [val[c], val[c]]
            elif d == 'else':
                if not stack:
                    raise AnalysisError('C02-CMPSEL: #else without #if')
                stack[-1] = [True, not stack[-1][0]]
            else:
                if not stack:
                    raise AnalysisError('C02-CMPSEL: #endif without #if')
                stack.pop()
        t = '\n'.join(keep)
        k = re.sub(r'\s+', ' ', t)
        if k not in seen:
            seen.add(k)
            out.append((' '.join('%s=%d' % (c[:28], val[c]) for c in free), t))
    return out


def _mentions(e, name):
    return any(x[0] == 'id' and x[1] == name for x in cexpr.walk(e))


def thresholds(e, env, width, probs, var='uintval'):
    """boundaries at which a condition over `var` can change its truth value; refuses shapes that are not monotone tests"""
    out = set()
    k = e[0]
    if not _mentions(e, var):
        return out
    if k == 'cast':
        return thresholds(e[2], env, width, probs, var)
    if k == 'call' and e[1] in ('likely', 'unlikely') and len(e[2]) == 1:
        return thresholds(e[2][0], env, width, probs, var)
    if k == 'un' and e[1] == '!':
        return thresholds(e[2], env, width, probs, var)
    if k == 'id':
        return {1}
    if k == 'bin':
        op, l, r = e[1], e[2], e[3]
        if op in ('&&', '||'):
            return thresholds(l, env, width, probs, var) | thresholds(r, env, width, probs, var)
        inner_l = l
        while inner_l[0] == 'cast':
            inner_l = inner_l[2]
        if op == '>>' and inner_l == ('id', var) and not _mentions(r, var):
            n = cexpr.evaluate(r, env)
            if n >= width or n < 0:
                probs.append('`%s >> %d` is compiled with a %d-bit unsigned long: the shift count is not smaller than the width (undefined behaviour, C11 6.5.7p3)' % (var, n, width))
                return out
            return {1 << n}
        if op in ('<', '<=', '>', '>=', '==', '!='):
            if _mentions(l, var) and not _mentions(r, var):
                side, other = l, r
            elif _mentions(r, var) and not _mentions(l, var):
                side, other = r, l
            else:
                raise AnalysisError('C02-CMPSEL: condition compares two expressions over %s' % var)
            kk = cexpr.evaluate(other, env)
            s = side
            while s[0] == 'cast':
                s = s[2]
            if s == ('id', var):
                return {kk, kk + 1}
            if s[0] == 'bin' and s[1] == '>>':
                base = thresholds(s, env, width, probs, var)
                n = cexpr.evaluate(s[3], env) if base else 0
                return {kk << n, (kk + 1) << n} | base
    raise AnalysisError('C02-CMPSEL: a selecting condition uses %s in a form that is not a threshold test (`%s >> n`, comparison with a constant)' % (var, var))


def c_eval(e, env, width):
    """cexpr evaluation with unsigned long wrap-around for the variable"""
    return cexpr.evaluate(e, env)


def selection_problems(fname, body, cutoff, r=None, base=''):
    """-> {key: message}; registers instances on r"""
    probs = {}
    body = strip_c_comments(body)
    for sh, w in MODELS:
        width = 8 * w
        env = {'PyLong_SHIFT': sh, 'SIZEOF_LONG': w, 'CYTHON_USE_PYLONG_INTERNALS': 1, 'PyLong_MASK': (1 << sh) - 1, 'PyLong_BASE': 1 << sh}
        top = min(cutoff, (1 << (width - 1)) - 1)
        for cfg, text in preprocess(body, env):
            model = 'PyLong_SHIFT=%d sizeof(long)=%d%s' % (sh, w, (' ' + cfg) if cfg else '')
            assigns = []
            for m in re.finditer(r'\bunequal\s*=(?!=)\s*([^;]+);', text):
                gs = []
                for ctext, pol in cguard.guards(text, m.start()):
                    try:
                        ce = cexpr.parse(ctext)
                    except Exception:
                        if re.search(r'\buintval\b', ctext):
                            raise AnalysisError('C02-CMPSEL: %s: condition `%s` cannot be parsed' % (fname, ctext[:60]))
                        continue
                    if _mentions(ce, 'uintval'):
                        gs.append((ce, pol, ctext))
                ms = re.findall(r'\bsize\s*!=\s*(\d+)', m.group(1))
                assigns.append((gs, int(ms[0]) if len(ms) == 1 else None, ' '.join(m.group(1).split())))
            if not assigns:
                if 'CYTHON_USE_PYLONG_INTERNALS=0' in cfg.replace(' ', '') or 'PYLONG_INTERNALS' not in body:
                    continue
                continue
            bounds = {1, top + 1}
            notes = []
            for gs, n, _ in assigns:
                for ce, pol, ctext in gs:
                    bounds |= thresholds(ce, env, width, notes)
            for note in notes:
                probs.setdefault('shiftwidth:%d/%d' % (sh, w), '%s [%s]: %s' % (fname, model, note))
            d = 1
            while (1 << (sh * d)) <= top:
                bounds.add(1 << (sh * d))
                d += 1
            cuts = sorted(b for b in bounds if 1 <= b <= top + 1)
            for lo, hi1 in zip(cuts, cuts[1:]):
                hi = hi1 - 1
                nd = (lo.bit_length() + sh - 1) // sh
                key = 'select:shift%d:long%d:digits%d' % (sh, w, nd)
                if r is not None:
                    r.inst('%s:%s:%d' % (base, key, lo), sample='%s %s: |c| in [%d, %d] has %d digit(s)' % (base, model, lo, hi, nd))
                venv = dict(env)
                venv['uintval'] = lo
                active = []
                for gs, n, txt in assigns:
                    try:
                        ok = all(bool(cexpr.evaluate(ce, venv)) == bool(pol) for ce, pol, _ in gs)
                    except cexpr.EvalError as e:
                        raise AnalysisError('C02-CMPSEL: %s: %s' % (fname, e))
                    if ok:
                        active.append((n, txt))
                rng = ('|c| = %d' % lo) if lo == hi else ('%d <= |c| <= %d' % (lo, hi))
                if len(active) != 1:
                    probs.setdefault(key + ':count', '%s [%s]: for an admitted constant with %s (%d digit(s)) %d digit comparisons are selected instead of one' % (fname, model, rng, nd, len(active)))
                    continue
                n, txt = active[0]
                if n is None:
                    continue        # shape reported by C02-FAST digits:*
                if n != nd:
                    probs.setdefault(key, '%s [%s]: for the admitted constant(s) %s (optimise_numeric_binop admits |c| <= %d), whose magnitude has %d digit(s) of %d bits, the selected comparison '
                                     'is `unequal = %s`: it requires size == %d, so an int equal to the constant compares unequal (`x == c` is False, `x != c` True for x == c)'
                                     % (fname, model, rng, cutoff, nd, sh, txt[:70], n))
    return probs


POSITIVE = """{
    unsigned long uintval = (unsigned long) intval;
#if PyLong_SHIFT < 30
    if (uintval >> (PyLong_SHIFT * 2)) {
        unequal = (size != 3) || (digits[0] != (uintval & (unsigned long) PyLong_MASK)) | (digits[1] != ((uintval >> (1 * PyLong_SHIFT)) & (unsigned long) PyLong_MASK)) | (digits[2] != ((uintval >> (2 * PyLong_SHIFT)) & (unsigned long) PyLong_MASK));
    } else
    if (uintval >> (PyLong_SHIFT * 1)) {
        unequal = (size != 2) || (digits[0] != (uintval & (unsigned long) PyLong_MASK)) | (digits[1] != ((uintval >> (1 * PyLong_SHIFT)) & (unsigned long) PyLong_MASK));
    } else
#endif
        unequal = (size != 1) || (((unsigned long) digits[0]) != (uintval & (unsigned long) PyLong_MASK));
}"""


def rule_cmpsel(ctx, points, trees, admitted, floor=68):
    r = Rule('C02-CMPSEL', 'PyLongCompare: for every admitted constant magnitude (1 .. cut-off of optimise_numeric_binop), PyLong_SHIFT 15 / 30 and sizeof(long) 4 / 8, the preprocessor and '
             'run-time cascade selects exactly one unrolled digit comparison, and it requires the digit count of that magnitude', floor)
    done = set()
    reported = {}
    for p in points:
        if p.section != 'PyLongCompare':
            continue
        k0 = (p.op, p.order, p.ret_obj)
        if k0 in done:
            continue
        done.add(k0)
        cutoff = admitted(p.op)
        text = P.tpl_expand(trees[(p.section, 'impl')], dict(p.context))
        t = text        # keep preprocessor lines: strip comments only
        funcs = sC02.c_functions(strip_c_comments(t))
        base = 'PyLongCompare(op=%s,order=%s,ret=%s)' % (p.op, p.order, 'object' if p.ret_obj else 'bint')
        if p.cname not in funcs:
            r.info('%s: entry %s not found in the expansion (reported by C02-P3)' % (base, p.cname))
            continue
        params, b0, b1 = funcs[p.cname]
        body = strip_c_comments(t)[b0:b1 + 1]
        if not re.search(r'\bunequal\s*=(?!=)', body):
            raise AnalysisError('C02-CMPSEL: %s has no `unequal = ...` digit comparison' % p.cname)
        for k, msg in sorted(selection_problems(p.cname, body, cutoff, r, base).items()):
            # one finding per kind of deviation: the construct key names the first instantiation it was seen for
            if k in reported:
                reported[k] += 1
                continue
            reported[k] = 1
            r.violate('%s:%s' % (base, k), REL_C, 0, '%s: %s' % (base, msg))
    if not done:
        raise AnalysisError('C02-CMPSEL: no PyLongCompare point')
    more = {k: n for k, n in reported.items() if n > 1}
    if more:
        r.info('deviations also found for further op/order/result instantiations: %s' % ', '.join('%s (%d)' % kv for kv in sorted(more.items())))
    pc = selection_problems('pc', POSITIVE, 2 ** 30)
    ok = selection_problems('pc', POSITIVE, 2 ** 30 - 1)
    r.positive_control(any('shift30' in k and 'digits2' in k for k in pc) and not ok, 'a cascade without a two-digit block for 30-bit digits is reported for cut-off 2**30 and accepted for 2**30-1')
    return r
