"""C20 rule helpers.

Part 1 (C20-ORDER / C20-ONCE): the *evaluation sequence* of a node class = the order in which its code generator asks its
operands to generate their evaluation code, extracted path-wise from the class's generate_evaluation_code /
generate_execution_code (resolved through the MRO, helper methods of the class inlined, local aliases of self.<attr>
followed, `for x in self.subexpr_nodes()` expanded to the effective `subexprs` list).  The sequences are compared with a
frozen table of the language reference's left-to-right obligations.

Part 2 (LET-ORDER): abstract interpretation of the tree-rewriting functions of Optimize.py that wrap sub-trees of the
original node into temporaries (LetRefNode/ResultRefNode + EvalWithTempExprNode/LetNode): values are provenance paths
into the original node, temporaries, and evaluation-ordered sequences of the sources a new tree evaluates.
"""
import ast, re

from ..core import Rule, AnalysisError, node_src
from ..engine.pyindex import walk_no_nested

EVAL_METHODS = {
    'generate_evaluation_code': 'eval',
    'generate_bool_evaluation_code': 'eval',
    'generate_assignment_code': 'assign',
    'generate_subexpr_evaluation_code': 'subeval',
    'generate_rhs_evaluation_code': 'rhs',
    'generate_deletion_code': 'delete',
    'generate_execution_code': 'exec',
}
MAX_SEQS = 400


class SeqExtractor:
    def __init__(self, ix):
        self.ix = ix
        self._memo = {}
        self._has_events = {}

    # ------------------------------------------------------------------ alias resolution
    def resolve(self, e, env):
        """expression -> attribute path relative to self ('' = self itself), or None."""
        if isinstance(e, ast.Name):
            if e.id == 'self':
                return ''
            return env.get(e.id)
        if isinstance(e, (ast.Tuple, ast.List)):
            parts = [self.resolve(v, env) for v in e.elts]
            if parts and all(isinstance(p, str) and p for p in parts):
                return tuple(parts)
            return None
        if isinstance(e, ast.Attribute):
            b = self.resolve(e.value, env)
            if b is None or isinstance(b, tuple):
                return None
            return (b + '.' if b else '') + e.attr
        if isinstance(e, ast.Subscript):
            b = self.resolve(e.value, env)
            if b is None:
                return None
            if isinstance(b, tuple):
                if isinstance(e.slice, ast.Constant) and isinstance(e.slice.value, int) and -len(b) <= e.slice.value < len(b):
                    return b[e.slice.value]
                return None
            if isinstance(e.slice, ast.Constant) and isinstance(e.slice.value, int):
                return '%s[%d]' % (b, e.slice.value)
            return b + '[*]'
        if isinstance(e, ast.BoolOp) and isinstance(e.op, ast.Or):
            parts = [self.resolve(v, env) for v in e.values]
            if all(isinstance(p, str) for p in parts):
                return '|'.join(parts)
            return None
        if isinstance(e, ast.IfExp):
            a, b = e.body, e.orelse
            if isinstance(b, ast.Constant) and b.value is None:
                return self.resolve(a, env)
            if isinstance(a, ast.Constant) and a.value is None:
                return self.resolve(b, env)
            return None
        return None

    # ------------------------------------------------------------------ sequences of one method
    def sequences(self, cls, mname, bind=None, depth=0, start_after=None):
        """-> set of event tuples for cls.<mname> (resolved through the MRO; start_after = class after which to search, for super())."""
        found = self._find(cls, mname, start_after)
        if found is None:
            return None
        owner, fn = found
        key = (cls.qual, owner.qual, mname, tuple(sorted((bind or {}).items())))
        if key in self._memo:
            return self._memo[key]
        if depth > 4:
            return {()}
        self._memo[key] = {()}          # recursion guard
        env = dict(bind or {})
        states = self._block(fn.body, {(self._freeze(env), ())}, cls, owner, depth)
        seqs = {ev for _, ev in states[0] | states[1]}
        self._memo[key] = seqs
        return seqs

    def _find(self, cls, mname, start_after=None):
        mro = self.ix.mro(cls)
        if start_after is not None:
            if start_after in mro:
                mro = mro[mro.index(start_after) + 1:]
        for k in mro:
            if mname in k.methods:
                return k, k.methods[mname]
        return None

    @staticmethod
    def _freeze(env):
        return tuple(sorted(env.items()))

    def _block(self, stmts, states, cls, owner, depth):
        """states: set of (frozen env, events).  -> (normal states, returned states)"""
        cur, done = set(states), set()
        for s in stmts:
            if not cur:
                break
            cur, d = self._stmt(s, cur, cls, owner, depth)
            done |= d
            if len(cur) + len(done) > MAX_SEQS:
                raise AnalysisError('evaluation-sequence extraction: more than %d paths in %s' % (MAX_SEQS, cls.qual))
        return cur, done

    def _events_of_expr(self, expr, env, cls, owner, depth):
        """-> list of alternatives, each a tuple of events, produced by evaluating the calls inside expr in order."""
        alts = [()]
        for c in _calls_in_order(expr):
            f = c.func
            new = None
            if isinstance(f, ast.Attribute):
                kind = EVAL_METHODS.get(f.attr)
                recv = f.value
                is_super = isinstance(recv, ast.Call) and isinstance(recv.func, ast.Name) and recv.func.id == 'super'
                is_self = isinstance(recv, ast.Name) and recv.id == 'self'
                # BaseClass.method(self, ...) spelled explicitly
                explicit_base = None
                if isinstance(recv, ast.Name) and c.args and isinstance(c.args[0], ast.Name) and c.args[0].id == 'self' and recv.id not in env and recv.id != 'self':
                    for k in self.ix.mro(cls):
                        if k.name == recv.id:
                            explicit_base = k
                if is_super or is_self or explicit_base is not None:
                    if is_super:
                        sub = self._inline(cls, f.attr, c, env, depth, start_after=owner, skip_first=0)
                    elif explicit_base is not None:
                        mro = self.ix.mro(cls)
                        i = mro.index(explicit_base)
                        sub = self._inline(cls, f.attr, c, env, depth, start_after=mro[i - 1] if i > 0 else None, skip_first=1) if i > 0 else \
                            self._inline(cls, f.attr, c, env, depth, skip_first=1)
                    else:
                        sub = self._inline(cls, f.attr, c, env, depth, skip_first=0)
                    if sub is not None:
                        new = sub
                elif kind is not None:
                    path = self.resolve(recv, env)
                    if not isinstance(path, str):
                        path = '?' + ' '.join(ast.unparse(recv).split())
                    new = [((kind, path),)]
            if new is None:
                continue
            alts = [a + n for a in alts for n in new]
            if len(alts) > MAX_SEQS:
                raise AnalysisError('evaluation-sequence extraction: too many alternatives in %s' % cls.qual)
        return alts

    def _inline(self, cls, mname, call, env, depth, start_after=None, skip_first=0):
        found = self._find(cls, mname, start_after)
        if found is None:
            return None
        owner, fn = found
        if not self._method_has_events(cls, owner, fn, depth):
            return None
        params = [a.arg for a in fn.args.args][1:]
        bind = {}
        args = call.args[skip_first:]
        for p, a in zip(params, args):
            r = self.resolve(a, env)
            if isinstance(r, str) and r != '':
                bind[p] = r
        for k in call.keywords:
            if k.arg in params:
                r = self.resolve(k.value, env)
                if isinstance(r, str) and r != '':
                    bind[k.arg] = r
        seqs = self.sequences(cls, mname, bind, depth + 1, start_after)
        return sorted(seqs) if seqs is not None else None

    def _method_has_events(self, cls, owner, fn, depth):
        k = (owner.qual, fn.name)
        if k not in self._has_events:
            self._has_events[k] = False
            res = False
            for n in walk_no_nested(fn):
                if isinstance(n, ast.Call) and isinstance(n.func, ast.Attribute):
                    if n.func.attr in EVAL_METHODS:
                        res = True
                    elif isinstance(n.func.value, ast.Name) and n.func.value.id == 'self' and depth < 4:
                        f2 = self._find(cls, n.func.attr)
                        if f2 is not None and f2[1] is not fn and self._method_has_events(cls, f2[0], f2[1], depth + 1):
                            res = True
            self._has_events[k] = res
        return self._has_events[k]

    def _stmt(self, s, states, cls, owner, depth):
        done = set()
        if isinstance(s, ast.If):
            pre = self._apply_expr(s.test, states, cls, owner, depth)
            a, d1 = self._block(s.body, pre, cls, owner, depth)
            b, d2 = self._block(s.orelse, pre, cls, owner, depth) if s.orelse else (pre, set())
            return a | b, d1 | d2
        if isinstance(s, (ast.For, ast.AsyncFor)):
            # `reversed(X)`, `X[::-1]`, `list(X)` around the iterable: a literal sequence of operands is expanded in the iteration order actually written;
            # for a child list the direction is the business of C20-LISTDIR (the events of the elements are the same either way)
            it_expr, backwards = self._strip_direction(s.iter)
            if it_expr is not s.iter:
                s = ast.copy_location(ast.For(target=s.target, iter=it_expr, body=s.body, orelse=s.orelse, lineno=s.lineno), s)
            pre = self._apply_expr(s.iter, states, cls, owner, depth) if not self._is_subexpr_nodes(s.iter) else states
            out = set()
            for fenv, ev in pre:
                env = dict(fenv)
                elems = self._iter_elems(s.iter, env, cls)
                if elems is not None and backwards:
                    elems = list(elems)[::-1]
                cur = {(fenv, ev)}
                if elems is not None:
                    # literal sequence of aliases: expand in order
                    for path in elems:
                        nxt = set()
                        for fe, e2 in cur:
                            en = dict(fe)
                            self._bind_target(s.target, path, en)
                            n2, d2 = self._block(s.body, {(self._freeze(en), e2)}, cls, owner, depth)
                            nxt |= n2
                            done |= d2
                        cur = nxt
                    out |= cur
                else:
                    path = self.resolve(s.iter, env)
                    if not isinstance(path, str):
                        path = None
                    en = dict(env)
                    self._bind_target(s.target, (path + '[*]') if path else None, en)
                    if path is None and isinstance(s.iter, ast.Call) and isinstance(s.iter.func, ast.Name) and s.iter.func.id == 'enumerate' \
                            and s.iter.args and isinstance(s.target, ast.Tuple) and len(s.target.elts) == 2:
                        p = self.resolve(s.iter.args[0], env)
                        self._bind_target(s.target.elts[1], (p + '[*]') if isinstance(p, str) and p else None, en)
                    if path is None and isinstance(s.iter, ast.Call) and isinstance(s.iter.func, ast.Name) and s.iter.func.id == 'zip':
                        tg = s.target.elts if isinstance(s.target, ast.Tuple) else []
                        for t, a in zip(tg, s.iter.args):
                            p = self.resolve(a, env)
                            self._bind_target(t, (p + '[*]') if isinstance(p, str) and p else None, en)
                    mark = ('loop', '%s:%d' % (owner.qual, s.lineno))
                    n2, d2 = self._block(s.body, {(self._freeze(en), ev + (mark,))}, cls, owner, depth)
                    out |= {(fe, e2 + (('endloop', mark[1]),)) for fe, e2 in n2} | {(fenv, ev)}
                    done |= d2
            if s.orelse:
                out, d3 = self._block(s.orelse, out, cls, owner, depth)
                done |= d3
            return out, done
        if isinstance(s, ast.While):
            pre = self._apply_expr(s.test, states, cls, owner, depth)
            n2, d2 = self._block(s.body, pre, cls, owner, depth)
            return pre | n2, d2
        if isinstance(s, (ast.With, ast.AsyncWith)):
            return self._block(s.body, states, cls, owner, depth)
        if isinstance(s, ast.Try):
            n1, d1 = self._block(s.body, states, cls, owner, depth)
            out = set(n1)
            for h in s.handlers:
                n2, d2 = self._block(h.body, states | n1, cls, owner, depth)
                out |= n2
                d1 |= d2
            if s.orelse:
                out, d3 = self._block(s.orelse, out, cls, owner, depth)
                d1 |= d3
            if s.finalbody:
                out, d4 = self._block(s.finalbody, out, cls, owner, depth)
                d1 |= d4
            return out, d1
        if isinstance(s, ast.Return):
            st = self._apply_expr(s.value, states, cls, owner, depth) if s.value is not None else states
            return set(), st
        if isinstance(s, ast.Raise):
            return set(), set()
        if isinstance(s, (ast.FunctionDef, ast.AsyncFunctionDef, ast.ClassDef)):
            return states, done
        if isinstance(s, ast.Assign):
            st = self._apply_expr(s.value, states, cls, owner, depth)
            out = set()
            for fenv, ev in st:
                env = dict(fenv)
                for t in s.targets:
                    if isinstance(t, ast.Tuple) and isinstance(s.value, ast.Tuple) and len(t.elts) == len(s.value.elts):
                        vals = [self.resolve(v, env) for v in s.value.elts]
                        for te, v in zip(t.elts, vals):
                            self._bind_target(te, v, env)
                    else:
                        self._bind_target(t, self.resolve(s.value, env), env)
                out.add((self._freeze(env), ev))
            return out, done
        # any other simple statement
        return self._apply_expr(s, states, cls, owner, depth), done

    def _apply_expr(self, expr, states, cls, owner, depth):
        out = set()
        for fenv, ev in states:
            for alt in self._events_of_expr(expr, dict(fenv), cls, owner, depth):
                out.add((fenv, ev + alt))
        return out

    @staticmethod
    def _bind_target(t, path, env):
        if isinstance(t, ast.Name):
            if path is None or path == '':
                env.pop(t.id, None)
            else:
                env[t.id] = path
        elif isinstance(t, (ast.Tuple, ast.List)):
            for e in t.elts:
                if isinstance(e, ast.Name):
                    env.pop(e.id, None)

    @staticmethod
    def _strip_direction(it):
        backwards = False
        while True:
            if isinstance(it, ast.Call) and isinstance(it.func, ast.Name) and it.func.id == 'reversed' and len(it.args) == 1 and not it.keywords:
                it, backwards = it.args[0], not backwards
            elif isinstance(it, ast.Call) and isinstance(it.func, ast.Name) and it.func.id in ('list', 'tuple') and len(it.args) == 1 and not it.keywords:
                it = it.args[0]
            elif isinstance(it, ast.Subscript) and isinstance(it.slice, ast.Slice) and it.slice.lower is None and it.slice.upper is None and \
                    isinstance(it.slice.step, ast.UnaryOp) and isinstance(it.slice.step.op, ast.USub) and isinstance(it.slice.step.operand, ast.Constant) and it.slice.step.operand.value == 1:
                it, backwards = it.value, not backwards
            else:
                return it, backwards

    @staticmethod
    def _is_subexpr_nodes(it):
        return isinstance(it, ast.Call) and isinstance(it.func, ast.Attribute) and it.func.attr == 'subexpr_nodes' and \
            isinstance(it.func.value, ast.Name) and it.func.value.id == 'self'

    def _iter_elems(self, it, env, cls):
        """A for-loop iterable that is a literal sequence of operand aliases (or self.subexpr_nodes()) -> list of paths."""
        if self._is_subexpr_nodes(it):
            sub = self.subexprs(cls)
            if sub is None:
                raise AnalysisError('cannot resolve the subexprs list of %s' % cls.qual)
            return list(sub)
        if isinstance(it, (ast.Tuple, ast.List)):
            paths = [self.resolve(e, env) for e in it.elts]
            if all(p is not None for p in paths):
                return paths
            return None
        if isinstance(it, ast.Name) and it.id in env and isinstance(env[it.id], tuple):
            return list(env[it.id])
        return None

    def subexprs(self, cls):
        for name in ('subexprs', 'child_attrs'):
            r = self.ix.class_list_attr(cls, name)
            if r is not None and r[1] is not None:
                return r[1]
        return None


def _calls_in_order(node):
    out = []

    def rec(n):
        if isinstance(n, (ast.FunctionDef, ast.AsyncFunctionDef, ast.ClassDef, ast.Lambda)):
            return
        if isinstance(n, ast.Call):
            # receiver and arguments are evaluated before the call itself
            for ch in ast.iter_child_nodes(n):
                rec(ch)
            out.append(n)
            return
        for ch in ast.iter_child_nodes(n):
            rec(ch)
    if node is not None:
        rec(node)
    return out


# =============================================================================================== C20-ORDER / C20-ONCE
# Frozen from the Python language reference (section numbers of the 3.12 reference).  (module, class, entry method,
# earlier event, later event, reason).  An event is kind:attribute; kind eval = the operand's value is computed,
# assign = the operand is used as assignment target (its own sub-expressions are evaluated there), subeval = the
# sub-expressions of a target are evaluated, rhs = right-hand side of a constituent assignment.
EV = 'generate_evaluation_code'
EX = 'generate_execution_code'
ORDER_TABLE = [
    ('ExprNodes', 'BinopNode', EV, 'eval:operand1', 'eval:operand2', '6.16 Evaluation order: operands of a binary operation left to right'),
    ('ExprNodes', 'BoolBinopNode', EV, 'eval:operand1', 'eval:operand2', '6.11 Boolean operations: x is evaluated first, y only if needed'),
    ('ExprNodes', 'CondExprNode', EV, 'eval:condition', 'eval:true_val', '6.13 Conditional expressions: the condition is evaluated first'),
    ('ExprNodes', 'CondExprNode', EV, 'eval:condition', 'eval:false_val', '6.13 Conditional expressions: the condition is evaluated first'),
    ('ExprNodes', 'PrimaryCmpNode', EV, 'eval:operand1', 'eval:operand2', '6.10 Comparisons: a op b evaluates a before b'),
    ('ExprNodes', 'PrimaryCmpNode', EV, 'eval:operand2', 'eval:cascade', '6.10 Comparisons: a op1 b op2 c evaluates b before c'),
    ('ExprNodes', 'CascadedCmpNode', EV, 'eval:operand2', 'eval:cascade', '6.10 Comparisons: chained operands left to right'),
    ('ExprNodes', 'IndexNode', EV, 'eval:base', 'eval:index', '6.3.2 Subscriptions: the primary is evaluated before the subscript'),
    ('ExprNodes', 'BufferIndexNode', EV, 'eval:base', 'eval:indices', '6.3.2 Subscriptions: the primary is evaluated before the subscript'),
    ('ExprNodes', 'SliceIndexNode', EV, 'eval:base', 'eval:start', '6.3.3 Slicings: primary, then lower bound'),
    ('ExprNodes', 'SliceIndexNode', EV, 'eval:start', 'eval:stop', '6.3.3 Slicings: lower bound before upper bound'),
    ('ExprNodes', 'SliceNode', EV, 'eval:start', 'eval:stop', '6.3.3 Slicings: lower bound before upper bound'),
    ('ExprNodes', 'SliceNode', EV, 'eval:stop', 'eval:step', '6.3.3 Slicings: upper bound before stride'),
    ('ExprNodes', 'DictItemNode', EV, 'eval:key', 'eval:value', '6.2.7 Dictionary displays: each key is evaluated before its value (3.8+)'),
    ('ExprNodes', 'SimpleCallNode', EV, 'eval:function', 'eval:args', '6.3.4 Calls: the primary is evaluated before the arguments'),
    ('ExprNodes', 'SimpleCallNode', EV, 'eval:function', 'eval:arg_tuple', '6.3.4 Calls: the primary is evaluated before the arguments'),
    ('ExprNodes', 'GeneralCallNode', EV, 'eval:function', 'eval:positional_args', '6.3.4 Calls: the primary is evaluated before the arguments'),
    ('ExprNodes', 'GeneralCallNode', EV, 'eval:positional_args', 'eval:keyword_args', '6.3.4 Calls: positional arguments before keyword arguments (source order; *args come before **kwargs)'),
    ('ExprNodes', 'PyMethodCallNode', EV, 'eval:function|eval:function_obj', 'eval:arg_tuple', '6.3.4 Calls: the primary is evaluated before the arguments'),
    ('ExprNodes', 'PyMethodCallNode', EV, 'eval:arg_tuple', 'eval:kwdict|eval:kwnames|eval:kwvalues', '6.3.4 Calls: positional arguments before keyword arguments'),
    ('ExprNodes', 'CachedBuiltinMethodCallNode', EV, 'eval:obj', 'eval:args', '6.3.4 Calls: the object of a method call is evaluated before the arguments'),
    ('ExprNodes', 'FormattedValueNode', EV, 'eval:value', 'eval:format_spec', '2.4.3 f-strings: the expression is evaluated before the (nested) format spec'),
    ('ExprNodes', 'SequenceNode', EV, 'eval:args', 'eval:mult_factor', '6.16: in `[a] * n` (folded into the display node) the display is evaluated before the factor'),
    ('ExprNodes', 'IndexNode', 'generate_assignment_code', 'eval:base', 'eval:index', '7.2 / 6.3.2: in the target a[i] the primary is evaluated before the subscript'),
    ('ExprNodes', 'IndexNode', 'generate_deletion_code', 'eval:base', 'eval:index', '7.5 / 6.3.2: in `del a[i]` the primary is evaluated before the subscript'),
    ('ExprNodes', 'BufferIndexNode', 'generate_assignment_code', 'eval:base', 'eval:indices', '7.2 / 6.3.2: in the target a[i, j] the primary is evaluated before the subscripts'),
    ('ExprNodes', 'SliceIndexNode', 'generate_assignment_code', 'eval:base', 'eval:start', '7.2 / 6.3.3: in the target a[i:j] the primary is evaluated before the bounds'),
    ('ExprNodes', 'SliceIndexNode', 'generate_assignment_code', 'eval:start', 'eval:stop', '7.2 / 6.3.3: lower bound before upper bound'),
    ('UtilNodes', 'EvalWithTempExprNode', EV, 'eval:temp_expression', 'eval:subexpression', 'definition of the let construct: the temporary is computed before the expression that uses it (premise of LET-ORDER)'),
    ('UtilNodes', 'LetNode', EX, 'eval:temp_expression', 'exec:body', 'definition of the let construct: the temporary is computed before the body (premise of LET-ORDER)'),
    ('Nodes', 'SingleAssignmentNode', EX, 'eval:rhs', 'assign:lhs', '7.2 Assignment statements: the expression list is evaluated before the target (and its sub-expressions)'),
    ('Nodes', 'CascadedAssignmentNode', EX, 'eval:rhs', 'assign:lhs_list', '7.2 Assignment statements: the expression list is evaluated first, then the target lists left to right'),
    ('Nodes', 'ParallelAssignmentNode', EX, 'rhs:stats', 'assign:stats', '7.2: in `a, b = x, y` all right-hand sides are evaluated before any target is assigned'),
    ('Nodes', 'InPlaceAssignmentNode', EX, 'subeval:lhs', 'eval:rhs', '7.2.1 Augmented assignment: the target (its primary and subscript) is evaluated before the expression list'),
    ('Nodes', '_ForInStatNode', EX, 'eval:iterator', 'assign:target', '8.3 The for statement: the iterable is evaluated once, before the first assignment to the target list'),
    ('Nodes', 'RaiseStatNode', EX, 'eval:exc_type', 'eval:cause', '7.8 The raise statement: `raise a from b` evaluates a before b'),
]
# events that evaluate user code a second time if they occur twice on one path
ONCE_KINDS = ('eval', 'rhs', 'subeval', 'exec')


def _matches(ev, spec):
    for alt in spec.split('|'):
        kind, attr = alt.split(':', 1)
        if ev[0] != kind:
            continue
        for a in ev[1].split('|'):
            if a == attr or a.startswith(attr + '.') or a.startswith(attr + '['):
                return True
    return False


def order_problems(seqs, first, second):
    """-> list of sequences in which an event matching `second` precedes one matching `first`."""
    bad = []
    for s in seqs:
        i1 = [i for i, e in enumerate(s) if _matches(e, first)]
        i2 = [i for i, e in enumerate(s) if _matches(e, second)]
        if i1 and i2 and min(i2) < max(i1):
            bad.append(s)
            continue
        # both inside one loop over an operand list: the later operand of element k precedes the earlier operand of element k+1
        stack, inside = [], {}
        for i, e in enumerate(s):
            if e[0] == 'loop':
                stack.append(e[1])
            elif e[0] == 'endloop':
                if stack:
                    stack.pop()
            else:
                inside[i] = tuple(stack)
        if any(set(inside[a]) & set(inside[b]) for a in i1 for b in i2):
            bad.append(s)
    return bad


def _fmt(seq):
    return ' -> '.join({'loop': 'for each {', 'endloop': '}'}.get(e[0], '%s %s' % e) for e in seq)


def rule_order(ctx):
    ix = ctx.index
    sx = SeqExtractor(ix)
    r = Rule('C20-ORDER', 'operand evaluation order of every multi-operand expression/assignment node class (order of the generate_evaluation_code calls its '
             'code generator makes, incl. the default iteration over `subexprs`) respects the left-to-right order of the language reference', floor=54)
    for mod, cname, entry, first, second, reason in ORDER_TABLE:
        base = ix.cls(mod, cname)
        seen_both = False
        for c in [base] + ix.subclasses(base):
            seqs = sx.sequences(c, entry)
            if seqs is None:
                raise AnalysisError('%s has no %s' % (c.qual, entry))
            key = '%s%s:%s<%s' % (c.qual, '' if entry in (EV, EX) else '.' + entry, first, second)
            has1 = any(_matches(e, first) for s in seqs for e in s)
            has2 = any(_matches(e, second) for s in seqs for e in s)
            if has1 and has2:
                seen_both = True
            r.inst(key, sample='%s: %s' % (c.qual, _fmt(max(seqs, key=len))), nontrivial=has1 and has2)
            bad = order_problems(seqs, first, second)
            if bad:
                owner = sx._find(c, entry)[0]
                r.violate(key, owner.module.rel, owner.methods[entry].lineno,
                          '%s.%s evaluates %s before %s (%s); the language requires the opposite order: %s'
                          % (c.qual, entry, second.split(':', 1)[1], first.split(':', 1)[1], _fmt(bad[0]), reason))
        if not seen_both:
            raise AnalysisError('order table entry %s.%s %s < %s: the code generator of no class in the family produces both events (operand renamed?)' % (mod, cname, first, second))
    # positive control
    class _FakeIx:
        def mro(self, c):
            return [c]
    tree = ast.parse("class X:\n    def generate_execution_code(self, code):\n        lhs, rhs = self.lhs, self.rhs\n        rhs.generate_evaluation_code(code)\n        lhs.generate_subexpr_evaluation_code(code)\n")

    class _C:
        qual = 'pc.X'
        name = 'X'
        methods = {'generate_execution_code': tree.body[0].body[0]}
    seqs = SeqExtractor(_FakeIx()).sequences(_C, EX)
    r.positive_control(bool(order_problems(seqs, 'subeval:lhs', 'eval:rhs')), 'rhs evaluated before the sub-expressions of an augmented-assignment target')
    return r


def rule_once(ctx):
    ix = ctx.index
    sx = SeqExtractor(ix)
    r = Rule('C20-ONCE', 'no code-generation path of a multi-operand node class asks the same operand twice to generate its evaluation code '
             '(a sub-expression is evaluated at most once)', floor=45)
    done = set()
    for mod, cname, entry, first, second, reason in ORDER_TABLE:
        base = ix.cls(mod, cname)
        for c in [base] + ix.subclasses(base):
            if (c.qual, entry) in done:
                continue
            done.add((c.qual, entry))
            seqs = sx.sequences(c, entry)
            key = '%s.%s' % (c.qual, entry)
            r.inst(key, sample='%s: %d path(s)' % (key, len(seqs)))
            for s in sorted(seqs):
                dup = [e for i, e in enumerate(s) if e[0] in ONCE_KINDS and not e[1].startswith('?') and e in s[:i]]
                if dup:
                    owner = sx._find(c, entry)[0]
                    r.violate('%s:%s:%s' % (key, dup[0][0], dup[0][1]), owner.module.rel, owner.methods[entry].lineno,
                              '%s generates the evaluation code of operand %r twice on one path (%s): the sub-expression would be evaluated twice' % (key, dup[0][1], _fmt(s)))
                    break
    tree = ast.parse("class X:\n    def generate_evaluation_code(self, code):\n        self.operand1.generate_evaluation_code(code)\n        if self.flag:\n            self.operand1.generate_evaluation_code(code)\n")

    class _FakeIx:
        def mro(self, c):
            return [c]

    class _C:
        qual = 'pc.X'
        name = 'X'
        methods = {EV: tree.body[0].body[0]}
    seqs = SeqExtractor(_FakeIx()).sequences(_C, EV)
    r.positive_control(any(s.count(('eval', 'operand1')) == 2 for s in seqs), 'operand evaluated twice on one path')
    return r


# =============================================================================================== LET-ORDER
class Src:
    """A sub-tree of the original program, named by its access path from a function parameter."""
    __slots__ = ('path', 'simple')

    def __init__(self, path, simple=False):
        self.path, self.simple = tuple(path), simple

    def __eq__(self, o):
        return isinstance(o, Src) and self.path == o.path

    def __hash__(self):
        return hash(self.path)

    def show(self):
        out = ''
        for st in self.path:
            if st[0] == 'root':
                out += st[1]
            elif st[0] == 'attr':
                out += '.' + st[1]
            elif st[0] == 'idx':
                out += '[%d]' % st[1]
            elif st[0] == 'rng':
                out += '[%s:%s%s]' % ('' if st[1] is None else st[1], '' if st[2] is None else st[2], '' if st[3] == 1 else ':%d' % st[3])
            elif st[0] == 'elem':
                out += '[i]'
        return out

    def __repr__(self):
        return 'Src(%s%s)' % (self.show(), ',simple' if self.simple else '')


class Hole:
    __slots__ = ('name',)

    def __init__(self, name):
        self.name = name

    def __repr__(self):
        return 'Hole(%s)' % self.name


class RunSeq:
    """For each element of a list run (in the given polarity): the items of seq."""
    __slots__ = ('seq', 'asc')

    def __init__(self, seq, asc):
        self.seq, self.asc = tuple(seq), asc

    def __repr__(self):
        return 'Run%s(%r)' % ('' if self.asc else '-desc', list(self.seq))


class Temp:
    __slots__ = ('expr', 'tid')
    _n = [0]

    def __init__(self, expr, tid=None):
        self.expr = tuple(expr)
        if tid is None:
            Temp._n[0] += 1
            tid = Temp._n[0]
        self.tid = tid

    def __repr__(self):
        return 'Temp#%d(%r)' % (self.tid, list(self.expr))


class Ref:
    """The tree refers to a temporary (evaluates nothing, but the temporary must be bound by an enclosing let)."""
    __slots__ = ('tid', 'paths')

    def __init__(self, tid, paths):
        self.tid, self.paths = tid, frozenset(paths)

    @property
    def what(self):
        return ', '.join(sorted(Src(p).show() for p in self.paths))

    def __repr__(self):
        return 'Ref#%d' % self.tid


class Bind:
    __slots__ = ('tid',)

    def __init__(self, tid):
        self.tid = tid

    def __repr__(self):
        return 'Bind#%d' % self.tid


class Tree:
    __slots__ = ('seq', 'cls')

    def __init__(self, seq, cls=None):
        self.seq, self.cls = tuple(seq), cls

    def __repr__(self):
        return 'Tree(%r)' % (list(self.seq),)


class RunItem:
    """List segment: one value per element of a run."""
    __slots__ = ('value', 'asc')

    def __init__(self, value, asc):
        self.value, self.asc = value, asc


class ListV:
    __slots__ = ('items',)

    def __init__(self, items=()):
        self.items = list(items)

    def copy(self):
        return ListV(self.items)


class Opaque:
    def __repr__(self):
        return 'Opaque'


OPAQUE = Opaque()


class FuncV:
    def __init__(self, node):
        self.node = node


class Undecided(Exception):
    pass


TEMP_CTORS = ('LetRefNode', 'ResultRefNode')
MUST_BIND = {}      # temp id -> source paths, for temporaries created with the LetRefNode spelling
WRAP_CTORS = ('EvalWithTempExprNode', 'LetNode')
SIMPLE_PREDICATES = ('is_simple', 'try_is_simple')
SIMPLE_ATTRS = ('is_literal', 'is_name')


def seq_of(v):
    if isinstance(v, Src):
        return () if v.simple else (v,)
    if isinstance(v, Tree):
        return v.seq
    if isinstance(v, Temp):
        srcs = [x for x, _ in flatten(v.expr)]
        if srcs and not all(len(x.path) == 1 for x in srcs):
            return (Ref(v.tid, {x.path for x in srcs}),)
        if v.tid in MUST_BIND:
            # spelled LetRefNode(...): a let-bound temporary must be bound by a LetNode/EvalWithTempExprNode even if its operand turned out
            # to be side-effect free — nothing else generates the operand's code, and result() of the unbound reference crashes the compiler
            return (Ref(v.tid, MUST_BIND[v.tid]),)
        return ()
    if isinstance(v, ListV):
        out = ()
        for it in v.items:
            if isinstance(it, RunItem):
                s = seq_of(it.value)
                if s:
                    out += (RunSeq(s, it.asc),)
            else:
                out += seq_of(it)
        return out
    if isinstance(v, (tuple, list)):
        out = ()
        for it in v:
            out += seq_of(it)
        return out
    return ()


class PEnv:
    def __init__(self, vars=None, attrs=None, run=None):
        self.vars = dict(vars or {})
        self.attrs = dict(attrs or {})

    def copy(self):
        e = PEnv()
        e.vars = {k: (v.copy() if isinstance(v, ListV) else v) for k, v in self.vars.items()}
        # lists may be aliased by several names: keep the aliasing
        ids = {}
        for k, v in self.vars.items():
            if isinstance(v, ListV):
                if id(v) in ids:
                    e.vars[k] = e.vars[ids[id(v)]]
                else:
                    ids[id(v)] = k
        e.attrs = dict(self.attrs)
        return e


class Prov:
    """Abstract interpreter for one rewriting function."""
    MAX_PATHS = 1500

    def __init__(self, class_order, child_attrs=None):
        self.class_order = class_order        # callable: node class name -> list of operand attrs in evaluation order, or None
        self.child_attrs = child_attrs        # names that hold child nodes in some node class (None: every attribute may)
        self.results = []                     # (value returned, line)
        self.run_stack = []

    # ---------------------------------------------------------------- expressions
    def ev(self, n, env):
        m = getattr(self, 'ev_' + type(n).__name__, None)
        return m(n, env) if m else OPAQUE

    def ev_Constant(self, n, env):
        if n.value is None or isinstance(n.value, bool):
            return ('const', n.value)
        return OPAQUE

    def ev_Name(self, n, env):
        return env.vars.get(n.id, OPAQUE)

    def ev_List(self, n, env):
        return ListV([self.ev(e, env) for e in n.elts])

    def ev_Tuple(self, n, env):
        return ListV([self.ev(e, env) for e in n.elts])

    def ev_Attribute(self, n, env):
        v = self.ev(n.value, env)
        if isinstance(v, Src):
            p = v.path + (('attr', n.attr),)
            if p in env.attrs:
                return env.attrs[p]
            if self.child_attrs is not None and n.attr not in self.child_attrs:
                return OPAQUE          # pos, type, entry, constant_result ...: not a sub-tree
            return Src(p, simple=v.simple or _known_simple(env, p))
        if isinstance(v, Tree):
            return Tree(v.seq) if (self.child_attrs is None or n.attr in self.child_attrs) else OPAQUE
        return OPAQUE

    def ev_Subscript(self, n, env):
        v = self.ev(n.value, env)
        sl = n.slice
        if isinstance(sl, ast.Slice):
            lo, hi, st = (self._int(x, env) for x in (sl.lower, sl.upper, sl.step))
            if any(x == 'unknown' for x in (lo, hi, st)):
                return Tree(seq_of(v)) if seq_of(v) else OPAQUE
            st = 1 if st is None else st
            if st not in (1, -1):
                return OPAQUE
            if isinstance(v, Src):
                return Src(v.path + (('rng', lo, hi, st),))
            if isinstance(v, ListV):
                if all(not isinstance(i, RunItem) for i in v.items):
                    return ListV(v.items[slice(lo, hi, st)])
                if lo is None and hi is None:
                    if st == 1:
                        return v.copy()
                    return ListV([RunItem(i.value, not i.asc) if isinstance(i, RunItem) else i for i in reversed(v.items)])
                raise Undecided('slice %s of a list built in a loop' % ast.unparse(n))
            return OPAQUE
        k = self._int(sl, env)
        if k == 'unknown' or k is None:
            return Tree(seq_of(v)) if seq_of(v) else OPAQUE
        if isinstance(v, Src):
            if k == -1 and env.attrs.get(('maxlen',) + v.path) == 1:
                k = 0           # a list known to have at most one element: its last element is its first
            return Src(v.path + (('idx', k),), simple=v.simple or _known_simple(env, v.path + (('idx', k),)))
        if isinstance(v, ListV):
            if all(not isinstance(i, RunItem) for i in v.items) and -len(v.items) <= k < len(v.items):
                return v.items[k]
            if v.items and k == 0 and not isinstance(v.items[0], RunItem):
                return v.items[0]
            if v.items and k == -1 and not isinstance(v.items[-1], RunItem):
                return v.items[-1]
            raise Undecided('index %s of a list built in a loop' % ast.unparse(n))
        return OPAQUE

    def _int(self, x, env):
        if x is None:
            return None
        if isinstance(x, ast.Constant) and isinstance(x.value, int):
            return x.value
        if isinstance(x, ast.UnaryOp) and isinstance(x.op, ast.USub) and isinstance(x.operand, ast.Constant) and isinstance(x.operand.value, int):
            return -x.operand.value
        return 'unknown'

    def ev_BinOp(self, n, env):
        a, b = self.ev(n.left, env), self.ev(n.right, env)
        if isinstance(n.op, ast.Add) and isinstance(a, ListV) and isinstance(b, ListV):
            return ListV(a.items + b.items)
        if isinstance(n.op, ast.Add) and (isinstance(a, ListV) or isinstance(b, ListV)):
            return ListV((a.items if isinstance(a, ListV) else [a]) + (b.items if isinstance(b, ListV) else [b]))
        s = seq_of(a) + seq_of(b)
        return Tree(s) if s else OPAQUE

    def ev_BoolOp(self, n, env):
        vals = [self.ev(v, env) for v in n.values]
        if isinstance(n.op, ast.Or):
            for v in vals:
                if isinstance(v, tuple) and len(v) == 2 and v[0] == 'const' and not v[1]:
                    continue
                if isinstance(v, Temp):
                    return v              # a node object is truthy
                break
        s = ()
        for v in vals:
            s += seq_of(v)
        return Tree(s) if s else OPAQUE

    def ev_IfExp(self, n, env):
        a, b = self.ev(n.body, env), self.ev(n.orelse, env)
        sa, sb = seq_of(a), seq_of(b)
        if not sa and not sb:
            return OPAQUE
        if not sb:
            return a
        if not sa:
            return b
        raise Undecided('conditional expression with two different sub-trees: %s' % ast.unparse(n)[:80])

    def ev_Compare(self, n, env):
        return OPAQUE

    def ev_UnaryOp(self, n, env):
        return OPAQUE

    def ev_Lambda(self, n, env):
        return FuncV(n)

    def ev_ListComp(self, n, env):
        if len(n.generators) == 1 and not n.generators[0].ifs and isinstance(n.generators[0].target, ast.Name):
            it = self.ev(n.generators[0].iter, env)
            return self._map(lambda v, e: self._with(e, n.generators[0].target.id, v, n.elt), it, env)
        return OPAQUE

    ev_GeneratorExp = ev_ListComp

    def _with(self, env, name, v, expr):
        e2 = env.copy()
        e2.vars[name] = v
        return self.ev(expr, e2)

    def _elem_of(self, v):
        """iteration over a value -> list of (element value, run?) segments: (value, None) for a concrete item, (value, asc) for a run."""
        if isinstance(v, ListV):
            return [((it.value, it.asc) if isinstance(it, RunItem) else (it, None)) for it in v.items]
        if isinstance(v, Src):
            asc = True
            if v.path and v.path[-1][0] == 'rng' and v.path[-1][3] < 0:
                asc = False
            return [(Src(v.path + (('elem',),)), asc)]
        if isinstance(v, Tree) and v.seq:
            return [(Tree(v.seq), '?')]
        return [(OPAQUE, '?')]

    def _map(self, fn, it, env):
        out = []
        for val, run in self._elem_of(it):
            r = fn(val, env)
            out.append(r if run is None else RunItem(r, run))
        return ListV(out)

    def ev_Call(self, n, env):
        f = n.func
        name = f.attr if isinstance(f, ast.Attribute) else f.id if isinstance(f, ast.Name) else None
        args = [self.ev(a.value if isinstance(a, ast.Starred) else a, env) for a in n.args]
        kws = [(k.arg, self.ev(k.value, env)) for k in n.keywords]
        if name in TEMP_CTORS:
            src = args[0] if args else dict(kws).get('expression', dict(kws).get('node'))
            t = Temp(seq_of(src) if src is not None else ())
            if name == 'LetRefNode':
                paths = {x.path for x, _ in flatten(t.expr)}
                if paths and not all(len(p) == 1 for p in paths):
                    MUST_BIND[t.tid] = frozenset(paths)
            return t
        if name in WRAP_CTORS:
            vals = args + [v for k, v in kws]
            if len(vals) >= 2:
                t, body = vals[0], vals[1]
                d = dict(kws)
                t = d.get('lazy_temp', d.get('temp', t)) if not args else t
                body = d.get('subexpression', d.get('body', body)) if len(args) < 2 else body
                first = (t.expr + (Bind(t.tid),)) if isinstance(t, Temp) else seq_of(t)
                return Tree(first + seq_of(body), cls=name)
        if name == 'TempResultFromStatNode' and args and isinstance(args[0], Temp):
            rest = ()
            for a in args[1:]:
                rest += seq_of(a)
            for k, v in kws:
                rest += seq_of(v)
            return Tree((Bind(args[0].tid),) + rest, cls=name)
        if isinstance(f, ast.Name):
            fv = env.vars.get(f.id)
            if name in ('list', 'tuple') and not args:
                return ListV([])
            if name in ('list', 'tuple') and len(args) == 1:
                a = args[0]
                if isinstance(a, ListV):
                    return a.copy()
                return a          # a copy of a source list is the same sequence of sub-trees
            if name == 'map' and len(args) == 2:
                fn_node = n.args[0]
                return self._map(lambda v, e: self._call_value(fn_node, [v], e), args[1], env)
            if name == 'reversed' and len(args) == 1:
                a = args[0]
                if isinstance(a, Src):
                    a = ListV([RunItem(v, run) if run is not None else v for v, run in self._elem_of(a)])
                if isinstance(a, ListV):
                    return ListV([RunItem(i.value, (not i.asc) if i.asc != '?' else '?') if isinstance(i, RunItem) else i for i in reversed(a.items)])
                return a
            if name in ('len', 'isinstance', 'any', 'all', 'bool', 'int', 'str', 'type', 'id', 'hasattr', 'getattr', 'print', 'error', 'warning'):
                return OPAQUE
            if isinstance(fv, FuncV):
                return self._apply_func(fv, args, env)
        if isinstance(f, ast.Attribute) and isinstance(self.ev(f.value, env), (Src, Tree, Temp, ListV)):
            recv = self.ev(f.value, env)
            if isinstance(recv, ListV) and name == 'append' and len(args) == 1:
                run = self.run_stack[-1] if self.run_stack else None
                recv.items.append(args[0] if run is None else RunItem(args[0], run))
                return OPAQUE
            if isinstance(recv, ListV) and name == 'extend' and len(args) == 1 and isinstance(args[0], ListV) and not self.run_stack:
                recv.items.extend(args[0].items)
                return OPAQUE
            if isinstance(recv, ListV) and name in ('insert', 'pop', 'remove', 'sort', 'reverse', 'extend'):
                raise Undecided('list operation %s' % ast.unparse(n)[:60])
            if name in SIMPLE_PREDICATES:
                return OPAQUE
            # a method of a sub-tree (coerce_to, analyse_types, as_none_safe_node ...) keeps the provenance
            s = seq_of(recv)
            rest = ()
            for a in args:
                rest += seq_of(a)
            for k, v in kws:
                rest += seq_of(v)
            if isinstance(recv, Src) and not rest:
                return recv
            if isinstance(recv, Temp) and not rest:
                return recv if name in ('analyse_types', 'analyse_expressions', 'coerce_to', 'coerce_to_pyobject') and False else Tree(())
            if s or rest:
                return Tree(s + rest)
            return OPAQUE if not isinstance(recv, (Tree, Temp)) else Tree(())
        if isinstance(f, ast.Attribute) and name in ('append', 'extend', 'insert') and isinstance(f.value, ast.Name) and \
                any(isinstance(a, Temp) or seq_of(a) for a in args):
            raise Undecided('%s: the list %s is not tracked' % (ast.unparse(n)[:60], f.value.id))
        return self._construct(name, args, kws)

    def _construct(self, name, args, kws):
        """Any other call: a node constructor or a helper - the result evaluates the sub-trees handed in; keyword operands of
        a known node class are put into the evaluation order of that class."""
        order = self.class_order(name) if name else None
        seq = ()
        for a in args:
            seq += seq_of(a)
        if order:
            def rank(kv):
                k = kv[0]
                return order.index(k) if k in order else len(order)
            kws = sorted(kws, key=rank)
        for k, v in kws:
            seq += seq_of(v)
        return Tree(seq, cls=name)

    def _call_value(self, fn_node, args, env):
        name = fn_node.attr if isinstance(fn_node, ast.Attribute) else fn_node.id if isinstance(fn_node, ast.Name) else None
        if name in TEMP_CTORS:
            return Temp(seq_of(args[0]))
        if isinstance(fn_node, ast.Name) and isinstance(env.vars.get(fn_node.id), FuncV):
            return self._apply_func(env.vars[fn_node.id], args, env)
        return self._construct(name, args, [])

    def _apply_func(self, fv, args, env):
        s = ()
        for a in args:
            s += seq_of(a)
        return Tree(s)

    # ---------------------------------------------------------------- tests
    def branch(self, test, env):
        """-> list of (truth, env) outcomes; predicates that establish side-effect freeness refine the tested variable."""
        if isinstance(test, ast.UnaryOp) and isinstance(test.op, ast.Not):
            return [(not t, e) for t, e in self.branch(test.operand, env)]
        if isinstance(test, ast.BoolOp):
            is_and = isinstance(test.op, ast.And)
            outs = [(None, env)]
            res = []
            for v in test.values:
                nxt = []
                for _, e in outs:
                    for t, e2 in self.branch(v, e):
                        if t != is_and:
                            res.append((t, e2))      # decided by short circuit
                        else:
                            nxt.append((t, e2))
                outs = nxt
            res += [(is_and, e) for _, e in outs]
            return res
        if isinstance(test, ast.Constant):
            return [(bool(test.value), env)]
        if isinstance(test, ast.Name):
            v = env.vars.get(test.id)
            if isinstance(v, tuple) and len(v) == 2 and v[0] == 'const':
                return [(bool(v[1]), env)]
            if isinstance(v, Temp):
                return [(True, env)]        # a node object is truthy (lists and parameters may be empty/false)
            # an unknown flag (e.g. a parameter): both ways, but the same way every time it is tested
            k = ('assume', test.id)
            if k in env.attrs:
                return [(env.attrs[k], env)]
            et, ef = env.copy(), env.copy()
            et.attrs[k], ef.attrs[k] = True, False
            return [(True, et), (False, ef)]
        target = None
        if isinstance(test, ast.Call) and isinstance(test.func, ast.Attribute) and test.func.attr in SIMPLE_PREDICATES:
            target = test.func.value
        elif isinstance(test, ast.Attribute) and test.attr in SIMPLE_ATTRS:
            target = test.value
        # unwrap_coerced_node(x): a coercion wrapper around x evaluates nothing but x
        while isinstance(target, ast.Call) and isinstance(target.func, ast.Name) and target.func.id in ('unwrap_coerced_node', 'unwrap_node') and len(target.args) == 1:
            target = target.args[0]
        if target is not None and not isinstance(target, ast.Name):
            tv = None
            if isinstance(target, ast.Subscript):
                try:
                    tv = self.ev(target, env)
                    base = self.ev(target.value, env)
                except Undecided:
                    tv = base = None
                if isinstance(base, Tree) and isinstance(target.value, ast.Name) and env.attrs.get(('maxlenv', target.value.id), 99) <= 1:
                    # the only element of a helper-computed list: the list evaluates nothing but this element
                    tv = Tree(base.seq)
            target = None if not isinstance(tv, (Src, Tree)) else ('value', tv)
        if target is not None:
            v = target[1] if isinstance(target, tuple) else env.vars.get(target.id)
            if isinstance(v, Src):
                if v.simple:
                    return [(True, env)]
                et, ef = env.copy(), env.copy()
                _mark_simple(et, {v.path})
                return [(True, et), (False, ef)]
            if isinstance(v, Tree):
                paths = {x.path for x, _ in flatten(v.seq)}
                if not paths:
                    return [(True, env.copy()), (False, env.copy())]
                et, ef = env.copy(), env.copy()
                _mark_simple(et, paths)            # side-effect free: evaluating its operands later / again is harmless
                return [(True, et), (False, ef)]
        if isinstance(test, ast.Compare) and len(test.ops) == 1 and isinstance(test.ops[0], (ast.Is, ast.IsNot)) and \
                isinstance(test.left, ast.Name) and isinstance(test.comparators[0], ast.Name):
            a, b = env.vars.get(test.left.id), env.vars.get(test.comparators[0].id)
            if isinstance(a, (Tree, Temp, Src, ListV)) and isinstance(b, (Tree, Temp, Src, ListV)):
                same = (a is b) or (isinstance(a, Src) and isinstance(b, Src) and a == b)
                return [(same == isinstance(test.ops[0], ast.Is), env)]
        if isinstance(test, ast.Compare) and len(test.ops) == 1 and isinstance(test.ops[0], (ast.Is, ast.IsNot)) and \
                isinstance(test.left, ast.Name) and isinstance(test.comparators[0], ast.Constant) and test.comparators[0].value is None:
            a = env.vars.get(test.left.id)
            is_none = None
            if isinstance(a, tuple) and len(a) == 2 and a[0] == 'const':
                is_none = a[1] is None
            elif isinstance(a, (Temp, ListV)):
                is_none = False
            if is_none is not None:
                return [(is_none == isinstance(test.ops[0], ast.Is), env)]
        # len(<source list>) <op> <int>: remember an upper bound of the length on the branch where it holds
        if isinstance(test, ast.Compare) and len(test.ops) == 1 and isinstance(test.left, ast.Call) and isinstance(test.left.func, ast.Name) \
                and test.left.func.id == 'len' and len(test.left.args) == 1 and isinstance(test.comparators[0], ast.Constant) and isinstance(test.comparators[0].value, int):
            v = self.ev(test.left.args[0], env)
            k = test.comparators[0].value
            if isinstance(v, Tree) and isinstance(test.left.args[0], ast.Name):
                # a list computed by a helper from source operands: remember the bound under the variable name
                op = type(test.ops[0])
                ub = {ast.Gt: (None, k), ast.GtE: (None, k - 1), ast.Lt: (k - 1, None), ast.LtE: (k, None), ast.Eq: (k, None), ast.NotEq: (None, k)}.get(op)
                if ub:
                    et, ef = env.copy(), env.copy()
                    for e2, b in ((et, ub[0]), (ef, ub[1])):
                        if b is not None:
                            kk = ('maxlenv', test.left.args[0].id)
                            e2.attrs[kk] = min(b, e2.attrs.get(kk, b))
                    return [(True, et), (False, ef)]
            if isinstance(v, Src):
                op = type(test.ops[0])
                # (bound when the test is true, bound when it is false)
                ub = {ast.Gt: (None, k), ast.GtE: (None, k - 1), ast.Lt: (k - 1, None), ast.LtE: (k, None), ast.Eq: (k, None), ast.NotEq: (None, k)}.get(op)
                if ub:
                    et, ef = env.copy(), env.copy()
                    for e2, b in ((et, ub[0]), (ef, ub[1])):
                        if b is not None:
                            e2.attrs[('maxlen',) + v.path] = min(b, e2.attrs.get(('maxlen',) + v.path, b))
                    return [(True, et), (False, ef)]
        self.ev(test, env)
        if isinstance(test, ast.Attribute) and isinstance(test.value, ast.Attribute) and test.value.attr == 'type' and test.attr.startswith('is_'):
            # a test of the C type of an operand (x.type.is_pyobject): remembered, so that a finding that only exists for some
            # operand types says so in its construct key, and the same test gives the same answer along one path
            k = ('typeassume', ast.unparse(test))
            if k in env.attrs:
                return [(env.attrs[k], env)]
            et, ef = env.copy(), env.copy()
            et.attrs[k], ef.attrs[k] = True, False
            return [(True, et), (False, ef)]
        return [(True, env.copy()), (False, env.copy())]

    # ---------------------------------------------------------------- statements
    def block(self, stmts, envs):
        cur = list(envs)
        for s in stmts:
            nxt = []
            for e in cur:
                nxt += self.stmt(s, e)
            cur = _dedupe(nxt)
            if len(cur) > self.MAX_PATHS:
                raise Undecided('more than %d paths' % self.MAX_PATHS)
            if not cur:
                break
        return cur

    def assign(self, t, v, env):
        if isinstance(t, ast.Name):
            env.vars[t.id] = v
            env.attrs.pop(('assume', t.id), None)
        elif isinstance(t, (ast.Tuple, ast.List)):
            n = len(t.elts)
            if isinstance(v, ListV) and len(v.items) == n and not any(isinstance(i, RunItem) for i in v.items):
                for e, x in zip(t.elts, v.items):
                    self.assign(e, x, env)
            elif isinstance(v, Src):
                for i, e in enumerate(t.elts):
                    self.assign(e, Src(v.path + (('idx', i),)), env)
            else:
                for e in t.elts:
                    self.assign(e, Tree(seq_of(v)) if seq_of(v) else OPAQUE, env)
        elif isinstance(t, ast.Attribute):
            base = self.ev(t.value, env)
            if isinstance(base, Src):
                env.attrs[base.path + (('attr', t.attr),)] = v
        elif isinstance(t, ast.Subscript):
            base = self.ev(t.value, env)
            k = self._int(t.slice, env) if not isinstance(t.slice, ast.Slice) else 'unknown'
            if isinstance(base, ListV) and isinstance(k, int) and not any(isinstance(i, RunItem) for i in base.items) and -len(base.items) <= k < len(base.items):
                base.items[k] = v
            elif isinstance(base, Src) and isinstance(k, int):
                env.attrs[base.path + (('idx', k),)] = v

    @staticmethod
    def _is_simple_flag(e):
        """a boolean combination that tests at least one side-effect-freeness predicate (`x.is_name and not x.is_temp`, `not items[0].is_simple()`)"""
        if not isinstance(e, (ast.BoolOp, ast.UnaryOp, ast.Attribute, ast.Call)):
            return False
        if isinstance(e, ast.UnaryOp) and not isinstance(e.op, ast.Not):
            return False
        if isinstance(e, ast.BoolOp):
            return all(isinstance(v, (ast.BoolOp, ast.UnaryOp, ast.Attribute, ast.Call, ast.Name, ast.Compare)) for v in e.values) and \
                any(Prov._is_simple_flag(v) for v in e.values)
        if isinstance(e, ast.UnaryOp):
            return Prov._is_simple_flag(e.operand)
        if isinstance(e, ast.Attribute):
            return e.attr in SIMPLE_ATTRS
        return isinstance(e.func, ast.Attribute) and e.func.attr in SIMPLE_PREDICATES and not e.args

    def stmt(self, s, env):
        if isinstance(s, ast.Assign) and len(s.targets) == 1 and isinstance(s.targets[0], ast.Name) and self._is_simple_flag(s.value):
            # flag = obj.is_name and not obj.is_temp: the test is made HERE, on the operands as they are bound now; the paths split on its outcome and the
            # flag is a constant on each of them (a later `if not flag:` then carries the same facts as the test written in place)
            outs = []
            for truth, e2 in self.branch(s.value, env):
                e2 = e2.copy() if e2 is env else e2
                e2.vars[s.targets[0].id] = ('const', bool(truth))
                outs.append(e2)
            return outs
        if isinstance(s, ast.Assign):
            v = self.ev(s.value, env)
            for t in s.targets:
                self.assign(t, v, env)
            return [env]
        if isinstance(s, ast.AugAssign):
            v = self.ev(s.value, env)
            if isinstance(s.target, ast.Name):
                cur = env.vars.get(s.target.id, OPAQUE)
                if isinstance(cur, ListV) and isinstance(v, ListV) and isinstance(s.op, ast.Add) and not self.run_stack:
                    env.vars[s.target.id] = ListV(cur.items + v.items)
                else:
                    sq = seq_of(cur) + seq_of(v)
                    env.vars[s.target.id] = Tree(sq) if sq else OPAQUE
            return [env]
        if isinstance(s, ast.AnnAssign):
            if s.value is not None:
                self.assign(s.target, self.ev(s.value, env), env)
            return [env]
        if isinstance(s, ast.Expr):
            self.ev(s.value, env)
            return [env]
        if isinstance(s, ast.Return):
            v = self.ev(s.value, env) if s.value is not None else OPAQUE
            self.results.append((v, s.lineno, env))
            return []
        if isinstance(s, (ast.Raise, ast.Continue, ast.Break)):
            # break/continue: approximated by ending this path of the (abstract, single) iteration
            return [env] if isinstance(s, (ast.Continue, ast.Break)) else []
        if isinstance(s, ast.If):
            out = []
            for t, e in self.branch(s.test, env):
                body = s.body if t else s.orelse
                out += self.block(body, [e]) if body else [e]
            return out
        if isinstance(s, (ast.For, ast.AsyncFor)):
            return self.loop(s, env)
        if isinstance(s, ast.While):
            return self.block(s.body, [env.copy()]) + [env]
        if isinstance(s, (ast.With, ast.AsyncWith)):
            return self.block(s.body, [env])
        if isinstance(s, ast.Try):
            out = self.block(s.body, [env.copy()])
            for h in s.handlers:
                out += self.block(h.body, [env.copy()])
            if s.finalbody:
                out = self.block(s.finalbody, out)
            return out
        if isinstance(s, (ast.FunctionDef, ast.AsyncFunctionDef)):
            env.vars[s.name] = FuncV(s)
            return [env]
        return [env]

    def loop(self, s, env):
        if isinstance(s.iter, ast.Name) and env.attrs.get(('assume', s.iter.id)) is False:
            # the iterable was tested falsy on this path (`if xs and ...`): an empty list, no iteration
            return self.block(s.orelse, [env]) if s.orelse else [env]
        it = self.ev(s.iter, env)
        if isinstance(s.iter, ast.Call) and isinstance(s.iter.func, ast.Name) and s.iter.func.id == 'enumerate' and s.iter.args \
                and isinstance(s.target, ast.Tuple) and len(s.target.elts) == 2:
            it = self.ev(s.iter.args[0], env)
            target = s.target.elts[1]
        else:
            target = s.target
        if isinstance(it, Src) and it.path and it.path[-1][0] == 'rng':
            mx = env.attrs.get(('maxlen',) + it.path[:-1])
            if mx is not None and _rng_max_count(it.path[-1], mx) == 0:
                return [env]
        envs = [env]
        assigned = sorted({x.id for st in s.body for x in ast.walk(st) if isinstance(x, ast.Name) and isinstance(x.ctx, ast.Store)})
        for val, run in self._elem_of(it):
            nxt = []
            for e in envs:
                if run is None:
                    self.assign(target, val, e)
                    nxt += self.block(s.body, [e])
                    continue
                # one abstract iteration standing for every element of the run
                carried = [v for v in assigned if isinstance(e.vars.get(v), (Tree, Src, Temp)) and self._read_before_write(s.body, v)]
                init = {v: e.vars[v] for v in carried}
                e2 = e.copy()
                for v in carried:
                    e2.vars[v] = Tree((Hole(v),))
                self.assign(target, val, e2)
                self.run_stack.append(run)
                try:
                    outs = self.block(s.body, [e2])
                finally:
                    self.run_stack.pop()
                for o in outs:
                    for v in carried:
                        new = o.vars.get(v)
                        sq = seq_of(new) if not isinstance(new, Temp) else None
                        if sq is None:
                            continue
                        holes = [i for i, x in enumerate(sq) if isinstance(x, Hole) and x.name == v]
                        if _contains_hole(sq, v, nested_only=True) or len(holes) > 1:
                            raise Undecided('loop-carried tree %s is used more than once per iteration' % v)
                        if not holes:
                            continue
                        pre, post = sq[:holes[0]], sq[holes[0] + 1:]
                        isq = seq_of(init[v])
                        final = ()
                        if pre:
                            final += (RunSeq(pre, (not run) if run != '?' else '?'),)
                        final += isq
                        if post:
                            final += (RunSeq(post, run),)
                        o.vars[v] = Tree(final)
                    # stale holes in other variables: the value of the previous iteration
                    for k, val2 in list(o.vars.items()):
                        o.vars[k] = _fill_holes(val2, init)
                    nxt.append(o)
            envs = nxt
            if len(envs) > self.MAX_PATHS:
                raise Undecided('more than %d paths' % self.MAX_PATHS)
        if s.orelse:
            envs = self.block(s.orelse, envs)
        return envs

    @staticmethod
    def _read_before_write(body, name):
        """Is `name` read in the loop body (so that its value flows from one iteration to the next)?"""
        for st in body:
            for x in ast.walk(st):
                if isinstance(x, ast.Name) and x.id == name and isinstance(x.ctx, ast.Load):
                    return True
        return False


def _strip(v, paths):
    """Remove the sources with the given paths (now known to be side-effect free) from a value."""
    if isinstance(v, Src):
        return Src(v.path, simple=True) if v.path in paths else v
    if isinstance(v, Tree):
        return Tree(_strip_seq(v.seq, paths), v.cls)
    if isinstance(v, Temp):
        return Temp(_strip_seq(v.expr, paths), v.tid)
    if isinstance(v, RunItem):
        return RunItem(_strip(v.value, paths), v.asc)
    return v


def _strip_seq(seq, paths):
    out = ()
    for x in seq:
        if isinstance(x, Src):
            if x.path not in paths:
                out += (x,)
        elif isinstance(x, Ref):
            rest = x.paths - set(paths)
            if rest:
                out += (Ref(x.tid, rest),)
            elif x.tid in MUST_BIND:
                out += (Ref(x.tid, MUST_BIND[x.tid]),)      # a LetRefNode reference stays a reference, whatever its operand is
        elif isinstance(x, RunSeq):
            sub = _strip_seq(x.seq, paths)
            if sub:
                out += (RunSeq(sub, x.asc),)
        else:
            out += (x,)
    return out


def _mark_simple(env, paths):
    done = {}
    for k, v in list(env.vars.items()):
        if isinstance(v, ListV):
            if id(v) not in done:
                v.items[:] = [_strip(i, paths) for i in v.items]
                done[id(v)] = True
        else:
            env.vars[k] = _strip(v, paths)
    for k, v in list(env.attrs.items()):
        if not isinstance(v, (int, bool, ListV)):
            env.attrs[k] = _strip(v, paths)
    for p in paths:
        env.attrs[('simple',) + tuple(p)] = True      # operands derived from this path later on are side-effect free as well


def _known_simple(env, path):
    path = tuple(path)
    return any(env.attrs.get(('simple',) + path[:i]) is True for i in range(1, len(path) + 1))


def _vkey(v):
    if isinstance(v, ListV):
        return ('L', id(v) if False else None, tuple(_vkey(i) for i in v.items))
    if isinstance(v, RunItem):
        return ('R', v.asc, _vkey(v.value))
    if isinstance(v, Src):
        return ('S', v.path, v.simple)
    if isinstance(v, (Tree,)):
        return ('T', tuple(_vkey(x) for x in v.seq))
    if isinstance(v, Temp):
        return ('Tmp', v.tid, tuple(_vkey(x) for x in v.expr))
    if isinstance(v, (Ref, Bind)):
        return (type(v).__name__, v.tid)
    if isinstance(v, RunSeq):
        return ('RS', v.asc, tuple(_vkey(x) for x in v.seq))
    if isinstance(v, Hole):
        return ('H', v.name)
    if isinstance(v, FuncV):
        return ('F', id(v.node))
    if isinstance(v, tuple):
        return v if all(not isinstance(x, (Src, Tree, Temp, ListV)) for x in v) else tuple(_vkey(x) for x in v)
    if isinstance(v, int):
        return v
    return 'O'


def _dedupe(envs):
    seen, out = set(), []
    for e in envs:
        try:
            k = (tuple(sorted((n, _vkey(v)) for n, v in e.vars.items())), tuple(sorted((p, _vkey(v)) for p, v in e.attrs.items())))
            hash(k)
        except TypeError:
            out.append(e)
            continue
        if k not in seen:
            seen.add(k)
            out.append(e)
    return out


def _contains_hole(seq, name, nested_only=False):
    for x in seq:
        if isinstance(x, Hole) and x.name == name and not nested_only:
            return True
        if isinstance(x, RunSeq) and _contains_hole(x.seq, name):
            return True
    return False


def _fill_seq(seq, init):
    out = ()
    for x in seq:
        if isinstance(x, Hole) and x.name in init:
            out += seq_of(init[x.name])
        elif isinstance(x, RunSeq):
            out += (RunSeq(_fill_seq(x.seq, init), x.asc),)
        else:
            out += (x,)
    return out


def _fill_holes(v, init):
    if isinstance(v, Tree):
        return Tree(_fill_seq(v.seq, init), v.cls)
    if isinstance(v, Temp):
        return Temp(_fill_seq(v.expr, init), v.tid)
    return v


# ---------------------------------------------------------------- source order of two provenance paths
def _rng_bounds(st):
    _, lo, hi, step = st
    if step > 0:
        a = 0 if lo is None else lo
        b = -1 if hi is None else hi - 1
    else:
        b = -1 if lo is None else lo
        a = 0 if hi is None else hi + 1
    return a, b


def _rng_max_count(st, maxlen):
    """Largest number of elements the slice can have for a list of at most maxlen elements."""
    best = 0
    for n in range(0, maxlen + 1):
        best = max(best, len(range(n)[slice(st[1], st[2], st[3])]))
    return best


def _idx_cmp(i, j):
    if (i >= 0) == (j >= 0):
        return (i > j) - (i < j)
    return None


def src_cmp(a, b, attr_order):
    """-1: a is evaluated before b in the source program, 1: after, 0: same, None: unknown."""
    pa, pb = a.path, b.path
    n = 0
    while n < len(pa) and n < len(pb) and pa[n] == pb[n]:
        n += 1
    if n == len(pa) and n == len(pb):
        return 0
    if n == len(pa) or n == len(pb):
        return None           # one contains the other
    x, y = pa[n], pb[n]
    if x[0] == 'attr' and y[0] == 'attr':
        return attr_order(pa[:n], x[1], y[1])
    rx = (x[1], x[1]) if x[0] == 'idx' else _rng_bounds(x) if x[0] == 'rng' else None
    ry = (y[1], y[1]) if y[0] == 'idx' else _rng_bounds(y) if y[0] == 'rng' else None
    if rx is None or ry is None:
        return None
    c = _idx_cmp(rx[1], ry[0])
    if c is not None and c < 0:
        return -1
    c = _idx_cmp(rx[0], ry[1])
    if c is not None and c > 0:
        return 1
    return None


def flatten(seq, ctx=()):
    """-> list of (Src, run context tuple) in evaluation order; run context = ids of the enclosing RunSeqs."""
    out = []
    for x in seq:
        if isinstance(x, Src):
            out.append((x, ctx))
        elif isinstance(x, RunSeq):
            out += flatten(x.seq, ctx + ((id(x), x.asc),))
    return out


def _collect_refs(seq, refs, binds):
    for x in seq:
        if isinstance(x, Ref):
            refs[x.tid] = x.what
        elif isinstance(x, Bind):
            binds.add(x.tid)
        elif isinstance(x, RunSeq):
            _collect_refs(x.seq, refs, binds)


def order_violations(seq, attr_order):
    """Pairs evaluated against source order, plus runs iterated backwards."""
    flat = flatten(seq)
    bad = []
    for i, (x, cx) in enumerate(flat):
        for (run_id, asc) in cx:
            if asc is False:
                bad.append(('reversed', x, x))
        for y, cy in flat[i + 1:]:
            c = src_cmp(x, y, attr_order)
            if c == 1:
                bad.append(('order', x, y))
    return bad


OPTIMIZE = 'Cython/Compiler/Optimize.py'


class _ClassOrder:
    """node class name -> operand attributes in the order its code generator evaluates them (from the sequence extractor)."""

    def __init__(self, ix):
        self.ix, self.sx, self.memo = ix, SeqExtractor(ix), {}

    def __call__(self, name):
        if name not in self.memo:
            self.memo[name] = None
            for c in self.ix.classes_by_name.get(name, []):
                if not (c.module.name.startswith('Cython.Compiler')):
                    continue
                for entry in (EV, EX):
                    try:
                        seqs = self.sx.sequences(c, entry)
                    except AnalysisError:
                        seqs = None
                    if seqs:
                        best = max(seqs, key=len)
                        order = []
                        for kind, attr in best:
                            if kind in ('loop', 'endloop'):
                                continue
                            a = re.split(r'[.\[|]', attr)[0]
                            if a and not a.startswith('?') and a not in order:
                                order.append(a)
                        if order:
                            self.memo[name] = order
                            break
                if self.memo[name]:
                    break
        return self.memo[name]


def let_order_function(fn, class_order, node_class=None, child_attrs=None):
    """Analyse one rewriting function -> (decided?, number of rewritten results, [violations], note)."""
    pv = Prov(class_order, child_attrs)
    env = PEnv()
    params = [a.arg for a in fn.args.args]
    for p in params[1:] if params and params[0] == 'self' else params:
        env.vars[p] = Src((('root', p),))
    first_param = params[1] if len(params) > 1 and params[0] == 'self' else (params[0] if params else None)

    def attr_order(prefix, a, b):
        if node_class and prefix == (('root', first_param),):
            order = class_order(node_class)
            if order and a in order and b in order:
                return -1 if order.index(a) < order.index(b) else 1
        return None
    try:
        pv.block(fn.body, [env])
    except Undecided as e:
        return False, 0, [], str(e)
    n = 0
    problems = []
    for val, line, e in pv.results:
        if isinstance(val, Src) or not isinstance(val, Tree):
            continue
        sq = _fill_seq(val.seq, {})
        if any(isinstance(x, Hole) for x in sq):
            return False, 0, [], 'unresolved loop-carried value in the result'
        if len(flatten(sq)) < 2 and not any(isinstance(x, RunSeq) for x in sq):
            continue
        n += 1
        refs, binds = {}, set()
        _collect_refs(sq, refs, binds)
        for tid, what in sorted(refs.items()):
            if tid not in binds:
                problems.append(('unbound', what, what, line, ' ; '.join(s.show() for s, _ in flatten(sq)), ()))
        for kind, x, y in order_violations(sq, attr_order):
            # the construct: the pair of sibling operands whose order is inverted (paths cut after the first step that differs)
            n = 0
            while n < len(x.path) and n < len(y.path) and x.path[n] == y.path[n]:
                n += 1
            facts = tuple(sorted((k[1], v) for k, v in e.attrs.items() if isinstance(k, tuple) and k and k[0] == 'typeassume'))
            problems.append((kind, Src(x.path[:n + 1]).show(), Src(y.path[:n + 1]).show(), line, ' ; '.join(s.show() for s, _ in flatten(sq)), facts))
    return True, n, problems, ''


LET_POSITIVE = '''
def _optimise(self, node, args):
    refs = list(map(UtilNodes.ResultRefNode, args[1:]))
    result = args[0]
    for ref in refs:
        prev = UtilNodes.ResultRefNode(result)
        result = ExprNodes.CondExprNode(ref.pos, true_val=ref, false_val=prev, condition=ExprNodes.PrimaryCmpNode(ref.pos, operand1=ref, operator='<', operand2=prev))
        result = UtilNodes.EvalWithTempExprNode(prev, result)
    for ref in refs[::-1]:
        result = UtilNodes.EvalWithTempExprNode(ref, result)
    return result
'''


def rule_let_order(ctx, select=None, rid='LET-ORDER', floor=8):
    ix = ctx.index
    r = Rule(rid, 'tree rewrites of Optimize.py that move operands of the original node into temporaries (LetRefNode/ResultRefNode wrapped by '
             'EvalWithTempExprNode/LetNode) evaluate those operands in their source order (temporaries outermost-first, then the rewritten expression), '
             'unless the later-evaluated operand is known to be side-effect free (is_simple()/literal/name); a LetRefNode that the result refers to is bound by a LetNode', floor=floor)
    co = _ClassOrder(ix)
    m = ix.mod('Optimize')
    undecided = []
    child_attrs = set()
    for c in ix.node_classes():
        for nm in ('subexprs', 'child_attrs'):
            lst = ix.class_list_attr(c, nm)
            if lst is not None and lst[1]:
                child_attrs |= set(lst[1])
    if len(child_attrs) < 100:
        raise AnalysisError('only %d child attribute names found in the node classes' % len(child_attrs))
    for qn, owner, fn in ix.functions_of(m):
        if owner is None:
            continue
        if select is not None and not select(qn):
            continue
        uses = [n for n in walk_no_nested(fn) if isinstance(n, ast.Call) and (
            (isinstance(n.func, ast.Attribute) and n.func.attr in WRAP_CTORS) or (isinstance(n.func, ast.Name) and n.func.id in WRAP_CTORS))]
        if not uses:
            continue
        node_class = fn.name[len('visit_'):] if fn.name.startswith('visit_') else None
        decided, n, problems, note = let_order_function(fn, co, node_class, child_attrs)
        key = 'Optimize.%s' % qn
        if not decided:
            undecided.append('%s (%s)' % (key, note))
            continue
        r.inst(key, sample='%s: %d rewritten result(s) with two or more operands' % (key, n), nontrivial=n > 0)
        seen = set()
        # operand-type facts shared by every path on which a finding exists: part of its construct key
        common = {}
        for kind, x, y, line, seq, facts in problems:
            k = (kind, x, y)
            common[k] = set(facts) if k not in common else common[k] & set(facts)
        for kind, x, y, line, seq, facts in sorted(problems, key=lambda p: (len(p[4]), p[:5])):
            k = (kind, x, y)
            if k in seen:
                continue
            seen.add(k)
            if common.get(k):
                qual = '@only-when(%s)' % ','.join('%s=%s' % f for f in sorted(common[k]))
                y = y + qual
            if kind == 'unbound':
                r.violate('%s:%s-never-evaluated' % (key, x), m.rel, line,
                          '%s moves %s into a temporary and uses the temporary in the returned tree, but never wraps it with EvalWithTempExprNode/LetNode: the operand is '
                          'never evaluated (its side effects are lost) and the temporary is read unset' % (key, x))
            elif kind == 'order':
                r.violate('%s:%s-before-%s' % (key, x, y), m.rel, line,
                          '%s builds a tree that evaluates %s before %s, but %s comes first in the source expression (evaluation order of the new tree: %s): '
                          'calls with side effects inside these operands run in the wrong order' % (key, x, y, y, seq))
            else:
                r.violate('%s:%s-reversed' % (key, x), m.rel, line,
                          '%s wraps the temporaries for the elements of %s so that the LAST element is outermost: they are evaluated right to left (%s)' % (key, x, seq))
    for u in undecided:
        r.info('not decided: ' + u)
    pc = ast.parse(LET_POSITIVE).body[0]
    d, n, probs, note = let_order_function(pc, co)
    r.positive_control(d and any(k == 'order' and y == 'args[0]' for k, x, y, l, s, f in probs), 'first argument evaluated after the temporaries of the others')
    return r


# =============================================================================================== C20-DROP
SIDE_EFFECT_FREE_WORDS = ('is_simple', 'try_is_simple', 'is_literal', 'has_constant_result', 'is_name')
DROP_POSITIVE = '''
def _fold(self, node, seq, factor):
    if factor.constant_result <= 0:
        del seq.args[:]
    return seq
'''


def _drops(fn, child_attrs):
    """Statements that empty an operand list of an existing node: `del X.attr[:]`, `X.attr = []`, `X.attr.clear()` -> [(stmt, owner text, attr, guarded?)]"""
    from ..engine import pyflow
    hits = []

    def target_of(s):
        if isinstance(s, ast.Delete):
            for t in s.targets:
                if isinstance(t, ast.Subscript) and isinstance(t.slice, ast.Slice) and t.slice.lower is None and t.slice.upper is None \
                        and isinstance(t.value, ast.Attribute) and t.value.attr in child_attrs:
                    return t.value
        if isinstance(s, ast.Assign) and isinstance(s.value, (ast.List, ast.Tuple)) and not s.value.elts:
            for t in s.targets:
                if isinstance(t, ast.Attribute) and t.attr in child_attrs and not (isinstance(t.value, ast.Name) and t.value.id == 'self'):
                    return t
        if isinstance(s, ast.Expr) and isinstance(s.value, ast.Call) and isinstance(s.value.func, ast.Attribute) and s.value.func.attr == 'clear' \
                and isinstance(s.value.func.value, ast.Attribute) and s.value.func.value.attr in child_attrs:
            return s.value.func.value
        return None
    fresh = set()
    for n in walk_no_nested(fn):
        if isinstance(n, ast.Assign) and isinstance(n.value, ast.Call) and len(n.targets) == 1 and isinstance(n.targets[0], ast.Name):
            fname = n.value.func.attr if isinstance(n.value.func, ast.Attribute) else getattr(n.value.func, 'id', '')
            if fname.endswith('Node'):
                fresh.add(n.targets[0].id)

    def tr(n, state):
        if isinstance(n, ast.stmt):
            t = target_of(n)
            if t is not None and not (isinstance(t.value, ast.Name) and t.value.id in fresh):
                owner = ast.unparse(t.value)
                guarded = any(isinstance(f, tuple) and f and f[0] == 'G' and any(w in f[1] for w in SIDE_EFFECT_FREE_WORDS) for f in state)
                hits.append((n, owner, t.attr, guarded))
        return state

    def refine(test, truth, state):
        return frozenset(state) | {('G', ast.unparse(test))}
    pyflow.Flow(tr, refine=refine).run(fn)
    return hits


def rule_drop(ctx):
    ix = ctx.index
    r = Rule('C20-DROP', 'a rewrite in Optimize.py that discards the operand list of an existing node (del X.args[:], X.args = []) does so only under a test that '
             'establishes the operands as side-effect free (is_simple/is_literal/has_constant_result): otherwise calls inside them are never made', floor=1)
    child_attrs = set()
    for c in ix.node_classes():
        for nm in ('subexprs', 'child_attrs'):
            lst = ix.class_list_attr(c, nm)
            if lst is not None and lst[1]:
                child_attrs |= set(lst[1])
    m = ix.mod('Optimize')
    for qn, owner, fn in ix.functions_of(m):
        for stmt, own, attr, guarded in _drops(fn, child_attrs):
            key = 'Optimize.%s:drop:%s.%s' % (qn, own, attr)
            r.inst(key, sample='%s: %s' % (key, node_src(stmt, 60)))
            if not guarded:
                r.violate(key, m.rel, stmt.lineno, "%s empties %s.%s without testing that the dropped operands are side-effect free: `[f()] * 0` never calls f "
                          "(CPython evaluates the display first and then multiplies)" % ('Optimize.' + qn, own, attr))
    pc = ast.parse(DROP_POSITIVE).body[0]
    r.positive_control(any(not g for _, _, _, g in _drops(pc, {'args'})), 'operand list deleted under a test of the factor only')
    return r
