"""Helpers for C16: variables read by a Tempita section (with the {{if}} guards they sit under), enumeration of the
paths of a Python block that builds a template context dictionary, and a reader for `cdef extern` function
declarations and call sites inside Cython/Utility/*.pyx (which are not parsable as Python)."""
import ast, re

from ..core import AnalysisError
from ..engine.cutil import split_args, match_paren
from . import pC15 as P

BUILTIN_NAMES = {'int', 'str', 'len', 'bool', 'repr', 'range', 'enumerate', 'True', 'False', 'None', 'max', 'min', 'sorted', 'list', 'tuple', 'dict', 'set'}


# ======================================================================================= template reads
def _names(expr_text):
    try:
        tree = ast.parse(expr_text.strip(), mode='eval')
    except SyntaxError:
        raise AnalysisError('cannot parse template expression %r' % expr_text)
    return [n.id for n in ast.walk(tree) if isinstance(n, ast.Name) and isinstance(n.ctx, ast.Load) and n.id not in BUILTIN_NAMES]


def template_reads(text):
    """[(variable, guards, kind, expression text)]: every variable a template reads; guards = tuple of (condition text, polarity)
    of the enclosing {{if}}/{{elif}}/{{else}} branches (a conjunction); kind = 'subst' (rendered into the C text) or 'cond'."""
    out = []
    stack = []      # per open {{if}}: [list of earlier condition texts, current (text, pol) or None for else]
    bound = []

    def guards():
        g = []
        for earlier, cur in stack:
            g += [(e, False) for e in earlier]
            if cur is not None:
                g.append(cur)
        return tuple(g)

    def read(expr, kind='cond'):
        for n in _names(expr):
            if n not in bound:
                out.append((n, guards(), kind, expr.strip()))
    for t in P.tempita_tokens(text):
        k = t[0]
        if k == 'expr':
            e = t[1]
            if '|' in e and '||' not in e:
                e = e.split('|')[0]
            read(e, 'subst')
        elif k == 'if':
            read(t[1])
            stack.append([[], (t[1], True)])
        elif k == 'elif':
            if not stack:
                raise AnalysisError('{{elif}} without {{if}}')
            earlier, cur = stack[-1]
            stack[-1] = [earlier + [cur[0]], None]
            read(t[1])
            stack[-1][1] = (t[1], True)
        elif k == 'else':
            if not stack:
                raise AnalysisError('{{else}} without {{if}}')
            earlier, cur = stack[-1]
            stack[-1] = [earlier + ([cur[0]] if cur else []), None]
        elif k == 'endif':
            if not stack:
                raise AnalysisError('{{endif}} without {{if}}')
            stack.pop()
        elif k == 'for':
            m = re.match(r'([\w\s,]+?)\s+in\s+(.*)$', t[1], re.S)
            if not m:
                raise AnalysisError('unsupported template loop %r' % t[1])
            read(m.group(2))
            bound.extend(x.strip() for x in m.group(1).split(','))
        elif k == 'endfor':
            pass
        elif k == 'py':
            raise AnalysisError('{{py:}} block in a template that is checked for variable reads')
        elif k == 'default':
            bound.append(t[1].split('=')[0].strip())
    if stack:
        raise AnalysisError('unterminated {{if}} in template')
    return out


def guard_known_false(guards, truth_of):
    """True when the conjunction of guards is certainly false given truth_of(name) -> True/False/None."""
    def ev(e):
        if isinstance(e, ast.Name):
            return truth_of(e.id)
        if isinstance(e, ast.Constant):
            return bool(e.value)
        if isinstance(e, ast.UnaryOp) and isinstance(e.op, ast.Not):
            v = ev(e.operand)
            return None if v is None else not v
        if isinstance(e, ast.BoolOp):
            vals = [ev(v) for v in e.values]
            if isinstance(e.op, ast.And):
                if any(v is False for v in vals):
                    return False
                return True if all(v is True for v in vals) else None
            if any(v is True for v in vals):
                return True
            return False if all(v is False for v in vals) else None
        return None
    for text, pol in guards:
        try:
            tree = ast.parse(text.strip(), mode='eval').body
        except SyntaxError:
            continue
        v = ev(tree)
        if v is not None and v != pol:
            return True
    return False


# ======================================================================================= python context paths
class CtxPath:
    __slots__ = ('keys', 'values', 'consts', 'facts', 'names')

    def __init__(self):
        self.keys, self.values, self.consts, self.facts, self.names = set(), {}, {}, {}, {}

    def copy(self):
        c = CtxPath()
        c.keys, c.values, c.consts, c.facts, c.names = set(self.keys), dict(self.values), dict(self.consts), dict(self.facts), dict(self.names)
        return c


def _const(e, consts):
    """Constant string value of a key expression under loop-variable bindings."""
    if isinstance(e, ast.Constant) and isinstance(e.value, str):
        return e.value
    if isinstance(e, ast.Name) and e.id in consts:
        return consts[e.id]
    if isinstance(e, ast.BinOp) and isinstance(e.op, ast.Add):
        a, b = _const(e.left, consts), _const(e.right, consts)
        return None if a is None or b is None else a + b
    return None


def context_paths(stmts, dict_name, base_dicts, is_load, max_paths=512):
    """Enumerate the paths through `stmts`; yield (load call node, CtxPath) each time is_load(call) matches.

    dict_name   the local that holds the context dictionary
    base_dicts  {name: (set of keys, {key: value node})} for dictionaries defined outside the block (dict(base, k=v))
    Tracks: `d = dict(base, k=v, ...)`, `d = {...}`, `d[<const>] = v`, `d.update(k=v)`, `name = "const"`, loops over literal
    tuples (unrolled), if/else forks (test text remembered in facts), continue/return/break (path ends)."""
    count = [0]

    def run(block, states):
        """-> states that fall through the block"""
        cur = states
        for s in block:
            if not cur:
                break
            cur = step(s, cur)
        return cur

    results = []

    def loads_in(node, st):
        for n in ast.walk(node):
            if isinstance(n, ast.Call) and is_load(n):
                results.append((n, st.copy()))

    def assign_dict(value, st):
        if isinstance(value, ast.Dict):
            st.keys, st.values = set(), {}
            for k, v in zip(value.keys, value.values):
                kk = _const(k, st.consts) if k is not None else None
                if kk is None:
                    raise AnalysisError('context dictionary literal with a non-constant key')
                st.keys.add(kk)
                st.values[kk] = v
            return True
        if isinstance(value, ast.Call) and isinstance(value.func, ast.Name) and value.func.id == 'dict':
            st.keys, st.values = set(), {}
            for a in value.args:
                if isinstance(a, ast.Name) and a.id in base_dicts:
                    st.keys |= base_dicts[a.id][0]
                    st.values.update(base_dicts[a.id][1])
                else:
                    raise AnalysisError('context dictionary copied from an unknown base %s' % ast.unparse(a))
            for kw in value.keywords:
                if kw.arg is None:
                    raise AnalysisError('context dictionary built with **kwargs')
                st.keys.add(kw.arg)
                st.values[kw.arg] = kw.value
            return True
        return False

    def step(s, states):
        out = []
        if isinstance(s, ast.If):
            txt = ast.unparse(s.test)
            t_states, f_states = [], []
            for st in states:
                known = st.facts.get(txt)
                if known is None and isinstance(s.test, ast.Name) and s.test.id in st.names:
                    known = bool(st.names[s.test.id])
                if known is not False:
                    a = st.copy()
                    a.facts[txt] = True
                    t_states.append(a)
                if known is not True:
                    b = st.copy()
                    b.facts[txt] = False
                    f_states.append(b)
            out = run(s.body, t_states) + run(s.orelse, f_states)
        elif isinstance(s, ast.For):
            if isinstance(s.iter, (ast.Tuple, ast.List)) and isinstance(s.target, ast.Name) and \
                    all(isinstance(e, ast.Constant) and isinstance(e.value, str) for e in s.iter.elts):
                cur = states
                for e in s.iter.elts:
                    nxt = []
                    for st in cur:
                        st = st.copy()
                        st.consts[s.target.id] = e.value
                        # facts about per-iteration tests do not carry over
                        st.facts = {k: v for k, v in st.facts.items() if s.target.id not in k and not _mentions_assigned(k, s)}
                        nxt.append(st)
                    cur = run(s.body, nxt)
                out = cur
            else:
                touches = any((isinstance(n, ast.Name) and n.id == dict_name) or (isinstance(n, ast.Call) and is_load(n)) or
                              isinstance(n, (ast.Continue, ast.Break, ast.Return)) for n in ast.walk(s))
                if touches:
                    raise AnalysisError('loop over a non-literal sequence touches the context dictionary inside the context-building block')
                out = states          # irrelevant to the context
        elif isinstance(s, (ast.Continue, ast.Return, ast.Break, ast.Raise)):
            out = []
        elif isinstance(s, ast.Assign):
            for st in states:
                loads_in(s.value, st)
                tgt = s.targets[0]
                if isinstance(tgt, ast.Name) and tgt.id == dict_name:
                    if not assign_dict(s.value, st):
                        raise AnalysisError('context dictionary assigned from %s' % ast.unparse(s.value)[:60])
                elif isinstance(tgt, ast.Subscript) and isinstance(tgt.value, ast.Name) and tgt.value.id == dict_name:
                    k = _const(tgt.slice, st.consts)
                    if k is None:
                        raise AnalysisError('context key %s is not a constant' % ast.unparse(tgt.slice))
                    st.keys.add(k)
                    st.values[k] = s.value
                elif isinstance(tgt, ast.Name):
                    if isinstance(s.value, ast.Constant):
                        st.names[tgt.id] = s.value.value
                    else:
                        st.names.pop(tgt.id, None)
                    st.facts = {k: v for k, v in st.facts.items() if not re.search(r'\b%s\b' % re.escape(tgt.id), k)}
                out.append(st)
        elif isinstance(s, ast.Expr):
            for st in states:
                loads_in(s.value, st)
                c = s.value
                if isinstance(c, ast.Call) and isinstance(c.func, ast.Attribute) and c.func.attr == 'update' and \
                        isinstance(c.func.value, ast.Name) and c.func.value.id == dict_name:
                    if c.args:
                        raise AnalysisError('context dictionary updated from a non-literal mapping')
                    for kw in c.keywords:
                        if kw.arg is None:
                            raise AnalysisError('context dictionary updated with **kwargs')
                        st.keys.add(kw.arg)
                        st.values[kw.arg] = kw.value
                out.append(st)
        elif isinstance(s, (ast.AugAssign, ast.Pass, ast.Assert, ast.AnnAssign)):
            out = states
        else:
            raise AnalysisError('statement %s inside the context-building block is not modelled' % type(s).__name__)
        count[0] += len(out)
        if count[0] > max_paths * 40:
            raise AnalysisError('too many paths in the context-building block')
        return out

    run(stmts, [CtxPath()])
    return results


def _mentions_assigned(fact_text, loop):
    for n in ast.walk(loop):
        if isinstance(n, ast.Name) and isinstance(n.ctx, ast.Store) and re.search(r'\b%s\b' % re.escape(n.id), fact_text):
            return True
    return False


# ======================================================================================= pyx readers
def pyx_extern_decl(text, cname):
    """The `cdef extern` declaration that binds C name `cname`: dict(ret, pyname, params [(type, name)], tail, line)."""
    m = re.search(r'^[ \t]*([\w \t\*\{\}]+?)[ \t]+(\w+)[ \t]+"%s"[ \t]*\(' % re.escape(cname), text, re.M)
    if not m:
        return None
    lp = m.end() - 1
    rp = match_paren(text, lp)
    if rp < 0:
        raise AnalysisError('unbalanced extern declaration of %s' % cname)
    params = []
    for p in split_args(' '.join(text[lp + 1:rp].split())):
        mm = re.match(r'^(.*?)(\w+)$', p.strip(), re.S)
        if not mm or not mm.group(1).strip():
            params.append((p.strip(), None))
        else:
            params.append((' '.join(mm.group(1).replace('*', ' * ').split()), mm.group(2)))
    eol = text.find('\n', rp)
    tail = text[rp + 1:eol if eol >= 0 else len(text)].strip()
    return dict(ret=' '.join(m.group(1).split()), pyname=m.group(2), params=params, tail=tail, line=text.count('\n', 0, m.start()) + 1)


def pyx_calls(text, pyname):
    """[(args, line, indent, offset)] for call statements `pyname(...)` in pyx text (not the declaration itself)."""
    out = []
    for m in re.finditer(r'^([ \t]*)(?:\w+\s*=\s*)?%s\s*\(' % re.escape(pyname), text, re.M):
        lp = m.end() - 1
        rp = match_paren(text, lp)
        if rp < 0:
            continue
        raw = re.sub(r'#[^\n]*', '', text[lp + 1:rp])
        out.append((split_args(' '.join(raw.split())), text.count('\n', 0, m.start()) + 1, len(m.group(1).expandtabs(8)), m.start()))
    return out


def pyx_governing_headers(text, offset, indent):
    """The if/elif/else chain that governs the statement at `offset`: ([header lines of the chain up to the governing one], governing header)."""
    lines = text[:offset].split('\n')[:-1]
    chain = []
    gov = None
    level = None
    for ln in reversed(lines):
        if not ln.strip() or ln.strip().startswith('#'):
            continue
        ind = len(ln) - len(ln.lstrip())
        ind = len(ln[:ind].expandtabs(8))
        if gov is None:
            if ind < indent and re.match(r'\s*(if|elif|else)\b', ln):
                gov = ln.strip()
                level = ind
                chain.append(gov)
                if gov.startswith('if'):
                    break
            elif ind < indent:
                return [], None        # governed by something else (for/with/def)
        else:
            if ind == level and re.match(r'\s*(if|elif)\b', ln):
                chain.append(ln.strip())
                if ln.strip().startswith('if'):
                    break
            elif ind < level:
                break
    return list(reversed(chain)), gov


def pyx_function_text(text, offset):
    """Text of the def/cdef function containing offset (from its header to the next top-level statement)."""
    start = None
    for m in re.finditer(r'^(?:@[^\n]*\n)*(?:cdef|def|cpdef)\s[^\n]*:\s*$', text, re.M):
        if m.start() <= offset:
            start = m.start()
        else:
            break
    if start is None:
        return ''
    m2 = re.search(r'^\S', text[offset:], re.M)
    end = offset + m2.start() if m2 else len(text)
    return text[start:end]
