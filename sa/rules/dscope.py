"""DSCOPE: arithmetic nodes that a tree transform builds and type-analyses itself see the directives of the enclosing *block*.

DivNode/ModNode/NumBinopNode/PowNode.analyse_operation read cdivision, cdivision_warnings, overflowcheck, overflowcheck.fold and cpow
from env.directives.  During the ordinary analysis phase CompilerDirectivesNode swaps env.directives for the duration of a
`with cython.<directive>(...)` block; a later transform only tracks them in self.current_directives (Visitor.CythonTransform).  A transform
that calls analyse_operation()/analyse_types() on a freshly built arithmetic node must therefore install self.current_directives in env
around the call — otherwise `with cython.cdivision(False): a //= b` inside a cdivision(True) function divides unchecked (SIGFPE on 0)."""
import ast

from ..core import Rule, AnalysisError
from ..engine.pyindex import walk_no_nested

ARITH = {'binop_node', 'DivNode', 'ModNode', 'MulNode', 'AddNode', 'SubNode', 'PowNode', 'NumBinopNode', 'IntBinopNode'}
ANALYSE = ('analyse_operation', 'analyse_types', 'analyse_c_operation')


def _callee(n):
    f = n.func
    return f.attr if isinstance(f, ast.Attribute) else f.id if isinstance(f, ast.Name) else None


def check_function(fn):
    """-> [(var, ctor, lineno of analyse call, env name, ok)]"""
    made = {}
    for n in walk_no_nested(fn):
        if isinstance(n, ast.Assign) and isinstance(n.value, ast.Call) and _callee(n.value) in ARITH:
            if any(k.arg == 'type' for k in n.value.keywords):
                continue          # pre-typed node, not analysed through analyse_operation
            for t in n.targets:
                if isinstance(t, ast.Name):
                    made[t.id] = _callee(n.value)
    out = []
    if not made:
        return out
    # places where env.directives is switched to the block's directives
    installs = []
    for n in walk_no_nested(fn):
        if isinstance(n, ast.Assign):
            for t in n.targets:
                if isinstance(t, ast.Attribute) and t.attr == 'directives' and isinstance(t.value, ast.Name) and \
                        any(isinstance(x, (ast.Attribute, ast.Constant)) and (getattr(x, 'attr', None) == 'current_directives' or getattr(x, 'value', None) == 'current_directives')
                            for x in ast.walk(n.value)):
                    installs.append((t.value.id, n.lineno))
        if isinstance(n, ast.With):
            for it in n.items:
                c = it.context_expr
                if isinstance(c, ast.Call) and _callee(c) == 'apply_directives' and c.args and isinstance(c.args[0], ast.Name):
                    installs.append((c.args[0].id, n.lineno))
    for n in walk_no_nested(fn):
        if isinstance(n, ast.Call) and isinstance(n.func, ast.Attribute) and n.func.attr in ANALYSE and isinstance(n.func.value, ast.Name) and n.func.value.id in made:
            envs = [a.id for a in n.args if isinstance(a, ast.Name)]
            env = envs[0] if envs else None
            ok = any(e == env and line < n.lineno for e, line in installs)
            out.append((n.func.value.id, made[n.func.value.id], n.lineno, env, ok))
    return out


def rule_dscope(ctx, floor=1):
    ix = ctx.index
    r = Rule('DSCOPE', 'a transform that type-analyses an arithmetic node it built installs the block-level directives (self.current_directives) in env first', floor)
    base = ix.cls('Visitor', 'CythonTransform')
    if base is None:
        raise AnalysisError('Visitor.CythonTransform not found')
    if 'visit_CompilerDirectivesMixin' not in base.methods and 'visit_CompilerDirectivesNode' not in base.methods:
        raise AnalysisError('CythonTransform no longer tracks current_directives')
    for c in [base] + ix.subclasses(base):
        for name, fn in c.methods.items():
            for var, ctor, line, env, ok in check_function(fn):
                key = '%s.%s:%s' % (c.qual, name, var)
                r.inst(key, sample='%s = %s(...) analysed with %s at line %d, block directives installed: %s' % (var, ctor, env, line, ok))
                if not ok:
                    r.violate(key, c.module.rel, line, '%s.%s analyses the %s it built with the scope-level directives of `%s`: inside a `with cython.cdivision/overflowcheck/cpow(...)` '
                              'block the operation is compiled under the directive value of the enclosing function instead' % (c.name, name, ctor, env))
    bad = ast.parse("def visit_X(self, node):\n    env = self.current_env()\n    b = ExprNodes.binop_node(node.pos, operator='/', operand1=a, operand2=c)\n    b.analyse_operation(env)\n").body[0]
    good = ast.parse("def visit_X(self, node):\n    env = self.current_env()\n    old = env.directives\n    env.directives = self.current_directives\n    b = ExprNodes.binop_node(node.pos, operator='/', operand1=a, operand2=c)\n    b.analyse_operation(env)\n    env.directives = old\n").body[0]
    r.positive_control([x[-1] for x in check_function(bad)] == [False] and [x[-1] for x in check_function(good)] == [True], 'analysis without / with installed block directives')
    return r
