"""C02-ZDIV: `constant / x`, `constant // x`, `constant % x` raise ZeroDivisionError for x == 0 — flag writer / flag reader agreement.

The fast paths PyLongBinop / PyFloatBinop divide in C.  When the Python object is the divisor (order CObj) the template raises
ZeroDivisionError itself, but only under a run-time flag that Optimize.optimise_numeric_binop passes as one of the extra arguments.
Decided here, for every reachable (operator, int/float constant, return kind) point with order CObj whose Python operator raises
ZeroDivisionError for a zero right operand (reference: the running interpreter):

 (Z2) the expanded template contains a `PyExc_ZeroDivisionError` raise reachable from the entry function; the parameters its
      guards mention are traced (through the forwarding calls) to a parameter index of the entry function;
 (Z1) the extra argument that optimise_numeric_binop passes at that index is TRUE for the operator's own node class in its default
      attribute state.  The default state is the class-level attribute table of the node class (ExprNodes.binop_node_classes),
      corrected by a writer analysis: writers that only run for C result types (guarded by `not self.type.is_pyobject`) cannot have
      run for an object operation, an unguarded writer in the class overrides the default, every other writer is conditional on a
      program feature (cdiv(), C++ operands) and leaves the default reachable.

The flag expression is evaluated by the checker's whitelisted evaluator on that finite state, never by running repository code.
"""
import ast, operator as _operator, re

from ..core import Rule, AnalysisError
from ..engine import tables
from ..engine.cutil import Catalogue, strip_c_comments, match_paren, split_args
from ..engine.cguard import guards, _match_brace
from ..engine.pyindex import walk_no_nested
from . import pC02 as P

REL_OPT = 'Cython/Compiler/Optimize.py'
REL_C = 'Cython/Utility/Optimize.c'
_PY_OPS = {'/': _operator.truediv, '//': _operator.floordiv, '%': _operator.mod, '+': _operator.add, '-': _operator.sub, '*': _operator.mul,
           '**': _operator.pow, '<<': _operator.lshift, '>>': _operator.rshift, '&': _operator.and_, '|': _operator.or_, '^': _operator.xor}


def zero_division_symbols():
    """binary operator symbols for which Python raises ZeroDivisionError when the RIGHT operand is zero (int and float)"""
    out = set()
    for sym, f in _PY_OPS.items():
        for a, b in ((1, 0), (1.5, 0.0)):
            try:
                f(a, b)
            except ZeroDivisionError:
                out.add(sym)
            except Exception:
                pass
    return out


# ---------------------------------------------------------------------------------------------------------------- C side
_KW = {'if', 'while', 'for', 'switch', 'return', 'sizeof', 'else', 'do'}
_FUNC_HEAD = re.compile(r'^(?![ \t]*(?:#|return\b|if\b|else\b|while\b|for\b|switch\b|case\b|goto\b|typedef\b|do\b))'
                        r'([A-Za-z_][^\n;=(){}#]*?[\s\*])([A-Za-z_]\w*)\s*\(', re.M)


def c_functions(text):
    """function definitions of (comment-free) C text -> {name: (params, offset of '{', offset of '}')}"""
    out = {}
    for m in _FUNC_HEAD.finditer(text):
        name = m.group(2)
        if name in _KW:
            continue
        lp = m.end() - 1
        rp = match_paren(text, lp)
        if rp < 0:
            continue
        t = re.match(r'\s*\{', text[rp + 1:rp + 40])
        if not t:
            continue
        b0 = rp + 1 + t.end() - 1
        b1 = _match_brace(text, b0)
        out[name] = (split_args(' '.join(text[lp + 1:rp].split())), b0, b1)
    return out


def _pname(p):
    m = re.search(r'([A-Za-z_]\w*)\s*$', p)
    return m.group(1) if m else None


def _flag_conjuncts(cond, branch=True):
    """identifiers whose truth value is implied when `cond` evaluates to `branch` (bare-identifier conjuncts of a true &&-chain, disjuncts of a
    false ||-chain) -> [(name, implied truth)]; None: unparsable"""
    from ..engine import cexpr
    t = re.sub(r'\b(\d+)\.\d*(?:[eE][-+]?\d+)?[fFlL]?\b', r'\1', cond)
    t = re.sub(r'(?<![\w.])\.(\d+)', r'\1', t)
    try:
        e = cexpr.parse(t)
    except cexpr.ParseError:
        return None
    out = []

    def strip(x):
        while True:
            if x[0] == 'call' and x[1] in ('likely', 'unlikely') and len(x[2]) == 1:
                x = x[2][0]
            elif x[0] == 'cast':
                x = x[2]
            else:
                return x

    def rec(x, positive):
        x = strip(x)
        if x[0] == 'bin' and x[1] == '&&' and positive:
            rec(x[2], positive)
            rec(x[3], positive)
        elif x[0] == 'bin' and x[1] == '||' and not positive:
            rec(x[2], positive)
            rec(x[3], positive)
        elif x[0] == 'un' and x[1] == '!':
            rec(x[2], not positive)
        elif x[0] == 'id':
            out.append((x[1], positive))
    rec(e, bool(branch))
    return out


def raise_sites(text, entry, exc='PyExc_ZeroDivisionError'):
    """-> (sites, problems); sites = [(function name, guard text, entry parameter indices the guard depends on)]"""
    funcs = c_functions(text)
    if entry not in funcs:
        return None, ['entry function %s is not defined by the expanded template' % entry]
    # forwarding map: callee -> [(caller, [argument texts])]
    calls = {}
    for caller, (params, b0, b1) in funcs.items():
        body = text[b0:b1 + 1]
        for callee in funcs:
            if callee == caller:
                continue
            for m in re.finditer(r'\b%s\s*\(' % re.escape(callee), body):
                q = match_paren(body, m.end() - 1)
                calls.setdefault(callee, []).append((caller, split_args(body[m.end():q])))

    def to_entry(fname, idx, depth=0):
        """parameter idx of fname -> set of entry parameter indices it is fed from (None: not traceable)"""
        if fname == entry:
            return {idx}
        if depth > 4 or fname not in calls:
            return None
        res = set()
        for caller, args in calls[fname]:
            if idx >= len(args):
                return None
            a = args[idx].strip()
            cparams = [_pname(p) for p in funcs[caller][0]]
            if a not in cparams:
                return None
            sub = to_entry(caller, cparams.index(a), depth + 1)
            if sub is None:
                return None
            res |= sub
        return res

    sites, problems = [], []
    for m in re.finditer(r'\b%s\b' % exc, text):
        owner = [(n, f) for n, f in funcs.items() if f[1] < m.start() <= f[2]]
        if not owner:
            problems.append('a %s raise outside any function' % exc)
            continue
        fname, (params, b0, b1) = owner[0]
        if fname != entry and to_entry(fname, 0) is None and fname not in calls:
            continue        # a function the entry never calls
        g = guards(text[b0:b1 + 1], m.start() - b0)
        pnames = [_pname(p) for p in params]
        deps = set()
        gtxt = []
        for cond, pol in g:
            flags = _flag_conjuncts(cond, pol)
            if flags is None:
                problems.append('%s: guard `%s` of a %s raise cannot be parsed' % (fname, cond, exc))
                continue
            hit = [(nm, positive) for nm, positive in flags if nm in pnames and '*' not in params[pnames.index(nm)]]
            if not hit:
                continue
            gtxt.append(('' if pol else '!') + cond)
            for nm, positive in hit:
                if not positive:
                    problems.append('%s raises %s when its parameter %s is FALSE (guard `%s`)' % (fname, exc, nm, cond))
                    continue
                e = to_entry(fname, pnames.index(nm))
                if e is None:
                    problems.append('parameter %s of %s, which guards the raise, is not fed from a parameter of %s' % (nm, fname, entry))
                else:
                    deps |= e
        sites.append((fname, ' && '.join(gtxt), deps))
    return sites, problems


# ---------------------------------------------------------------------------------------------------------------- Python side
def node_default_state(ix, cls):
    """class-level constant attributes of a node class (MRO order) -> {attr: value}"""
    st = {}
    for c in reversed(ix.mro(cls)):
        for a, v in c.attrs.items():
            if isinstance(v, ast.Constant):
                st[a] = v.value
            elif a in st:
                del st[a]
    return st


def _guard_kind(ancestors_tests):
    """'c-only' when some enclosing test implies the node's type is not a Python object, 'object' when it implies it is, else 'feature'
    (None for unguarded)."""
    if not ancestors_tests:
        return None
    kind = 'feature'
    for test, branch in ancestors_tests:
        conj = test.values if isinstance(test, ast.BoolOp) and isinstance(test.op, ast.And) and branch else [test]
        for t in conj:
            neg = not branch
            while isinstance(t, ast.UnaryOp) and isinstance(t.op, ast.Not):
                neg, t = not neg, t.operand
            txt = P._txt(t)
            if re.fullmatch(r'self\.type\.is_pyobject', txt):
                return 'c-only' if neg else 'object'
    return kind


def attribute_writers(ix, cls, attr):
    """assignments `self.attr = e` in the methods of cls, its bases and subclasses -> [(class, method, guard kind, value node)]"""
    out = []
    seen = set()
    family = list(ix.mro(cls)) + list(ix.subclasses(cls))
    for c in family:
        if id(c) in seen:
            continue
        seen.add(id(c))
        for mname, fn in c.methods.items():
            def rec(stmts, tests):
                for s in stmts:
                    if isinstance(s, ast.If):
                        rec(s.body, tests + [(s.test, True)])
                        rec(s.orelse, tests + [(s.test, False)])
                    elif isinstance(s, (ast.For, ast.While, ast.With, ast.Try)):
                        for blk in ('body', 'orelse', 'finalbody'):
                            rec(getattr(s, blk, []) or [], tests + [(ast.Constant(value='loop-or-try'), True)])
                        for h in getattr(s, 'handlers', []):
                            rec(h.body, tests + [(ast.Constant(value='except'), True)])
                    elif isinstance(s, (ast.Assign, ast.AugAssign, ast.AnnAssign)):
                        tg = s.targets if isinstance(s, ast.Assign) else [s.target]
                        for t in tg:
                            for x in ast.walk(t):
                                if isinstance(x, ast.Attribute) and x.attr == attr and isinstance(x.value, ast.Name) and x.value.id == 'self':
                                    out.append((c, mname, _guard_kind(tests), getattr(s, 'value', None)))
            rec(fn.body, [])
    return out


def effective_state(ix, cls, attrs_read, rule=None):
    """default attribute state of an object-typed operation node of class cls, for the attributes the decision reads.
    -> (state, notes); an attribute whose value cannot be decided is left out (reading it makes the evaluation Unknown)."""
    st = node_default_state(ix, cls)
    notes = []
    for a in sorted(attrs_read):
        if a not in st:
            continue            # no class-level default: not part of the modelled state (reading it is Unknown)
        ws = attribute_writers(ix, cls, a)
        for c, mname, kind, val in ws:
            if kind == 'c-only':
                notes.append('%s.%s writes %s only for C result types' % (c.name, mname, a))
            elif kind in (None, 'object') and (mname.startswith('analyse') or mname.startswith('infer') or mname == '__init__'):
                if isinstance(val, ast.Constant):
                    st[a] = val.value
                    notes.append('%s.%s always sets %s = %r' % (c.name, mname, a, val.value))
                else:
                    st.pop(a, None)
                    notes.append('%s.%s sets %s to a computed value (not decided)' % (c.name, mname, a))
            else:
                notes.append('%s.%s sets %s conditionally' % (c.name, mname, a))
    return st, notes


class NodeObj(P.Obj):
    pass


def flag_values(ix, fn, fvar, op, is_float, ret_obj, node_cls, state):
    """paths of the decision function for one domain point and node state -> [(order, [values of the keyword `value` of each
    appended extra argument, in order])] for the paths that select a fast path"""
    ps = [a.arg for a in fn.args.args]
    p_op, p_node, p_ret = ps[0], ps[1], ps[2]
    node = NodeObj(**state)
    mro_names = {c.name for c in ix.mro(node_cls)}

    def isinst(v, t):
        ts = t if isinstance(t, tuple) else (t,)
        if isinstance(v, NodeObj) and all(isinstance(x, P.Sym) for x in ts):
            return any(x.name.split('.')[-1] in mro_names for x in ts)
        raise P.Unknown('isinstance')

    def on_stmt(s, ev, events):
        if isinstance(s, ast.Expr) and isinstance(s.value, ast.Call) and isinstance(s.value.func, ast.Attribute) \
                and s.value.func.attr == 'append' and isinstance(s.value.func.value, ast.Name) and len(s.value.args) == 1:
            a = s.value.args[0]
            val = P.UNKNOWN
            if isinstance(a, ast.Call):
                for k in a.keywords:
                    if k.arg == 'value':
                        try:
                            val = ev.ev(k.value)
                        except P.Unknown:
                            val = P.UNKNOWN
            events.append(('append', s.value.func.value.id, val))
        elif isinstance(s, ast.Assign) and isinstance(s.value, ast.Call):
            for k in s.value.keywords:
                if k.arg == 'context':
                    d = None
                    if isinstance(k.value, ast.Call) and isinstance(k.value.func, ast.Name) and k.value.func.id == 'dict':
                        d = {kk.arg: kk.value for kk in k.value.keywords}
                    elif isinstance(k.value, ast.Dict):
                        d = {tables.literal(kk): vv for kk, vv in zip(k.value.keys, k.value.values)}
                    if d and 'order' in d:
                        try:
                            events.append(('order', ev.ev(d['order'])))
                        except P.Unknown:
                            events.append(('order', None))

    env0 = {p: P.UNKNOWN for p in ps}
    env0[p_op] = op
    env0[p_node] = node
    env0[p_ret] = P.Obj(is_pyobject=ret_obj)
    env0[fvar] = is_float
    env0['__fixed__'] = (fvar,)
    env0['isinstance'] = isinst
    out = []
    for res in P.enumerate_paths(fn, env0, on_stmt):
        r = res.returned
        if r is None or r[0] != 'return' or r[1] is None or (isinstance(r[1], ast.Constant) and r[1].value is None):
            continue
        val = r[1]
        if not (isinstance(val, ast.Tuple) and len(val.elts) == 4 and isinstance(val.elts[2], ast.Name)):
            raise AnalysisError('%s no longer returns (cname, utility_code, extra_args, num_type)' % fn.name)
        lst = val.elts[2].id
        orders = [e[1] for e in res.events if e[0] == 'order']
        if len(orders) != 1 or orders[0] is None:
            raise AnalysisError('%s: the operand order of a fast path is not decided' % fn.name)
        out.append((orders[0], [e[2] for e in res.events if e[0] == 'append' and e[1] == lst]))
    return out


def rule_zdiv(ctx, fn, fvar, points, trees, cop, capi_dunder, floor=20):
    r = Rule('C02-ZDIV', 'constant / x, constant // x, constant % x: the expanded template raises ZeroDivisionError for a zero object divisor, and the '
                         'run-time flag that guards the raise is passed as TRUE by optimise_numeric_binop for the operator\'s node class in its default '
                         '(Python object) attribute state', floor)
    ix = ctx.index
    zsyms = zero_division_symbols()
    if not {'/', '//', '%'} <= zsyms:
        raise AnalysisError('reference: the interpreter does not raise ZeroDivisionError for / // %%: %r' % sorted(zsyms))
    exn = ix.mod('ExprNodes')
    tab = tables.module_assign(exn.tree, 'binop_node_classes')
    if not isinstance(tab, ast.Dict):
        raise AnalysisError('ExprNodes.binop_node_classes is no longer a dict literal')
    sym_class = {}
    for k, v in zip(tab.keys, tab.values):
        if isinstance(k, ast.Constant) and isinstance(v, ast.Name):
            sym_class[k.value] = ix.cls('ExprNodes', v.id)
    ps = [a.arg for a in fn.args.args]
    p_node = ps[1]
    attrs_read = {x.attr for x in walk_no_nested(fn) if isinstance(x, ast.Attribute) and isinstance(x.value, ast.Name) and x.value.id == p_node}
    done = set()
    for p in points:
        if p.order != 'CObj':
            continue
        dunder = capi_dunder(ctx, p.op)
        syms = sorted(s for s in zsyms if P.dunder_of_symbol(s) == dunder)
        if not syms:
            continue
        k0 = (p.section, p.op, p.ret_obj)
        if k0 in done:
            continue
        done.add(k0)
        base = 'zdiv:%s' % p.key()
        # ---- C side
        text = strip_c_comments(P.tpl_expand(trees[(p.section, 'impl')], dict(p.context)))
        sites, problems = raise_sites(text, p.cname)
        r.inst(base + ':raise', sample='%s: %d ZeroDivisionError sites %s' % (base, len(sites or ()), sorted({s[1] for s in sites or ()})[:2]))
        classes = []
        for sym in syms:
            cls = sym_class.get(sym)
            if cls is None:
                raise AnalysisError('binop_node_classes has no class for %r' % sym)
            classes.append((sym, cls))
        flag_idx = set()
        for fname, gtxt, deps in sites or ():
            flag_idx |= deps
        decidable = bool(sites) and bool(flag_idx)
        if not decidable:
            for sym, cls in classes:
                r.inst('%s:flag:%s' % (base, cls.name), nontrivial=False)
        if sites is None:
            r.info('%s: %s (reported by C02-P3)' % (base, problems[0]))
            continue
        for pr in sorted(set(problems)):
            r.violate(base + ':raise', REL_C, 0, '%s: %s' % (p.cname, pr))
        if not sites:
            r.violate(base + ':raise', REL_C, 0,
                      '%s (the Python object is the divisor of `c %s x`) contains no ZeroDivisionError raise: a zero divisor is divided by in C '
                      '(inf / nan / SIGFPE instead of the exception)' % (p.cname, syms[0]))
            continue
        if not flag_idx:
            continue                    # unconditional checks: nothing to pass
        # ---- Python side
        for sym, cls in classes:
            state, notes = effective_state(ix, cls, attrs_read)
            key = '%s:flag:%s' % (base, cls.name)
            paths = [pv for pv in flag_values(ix, fn, fvar, p.op, p.is_float, p.ret_obj, cls, state) if pv[0] == 'CObj']
            r.inst(key, sample='%s: parameter(s) %s of %s guard the raise; %d CObj paths; state %s' % (
                key, sorted(flag_idx), p.cname, len(paths), {a: state.get(a, '?') for a in sorted(attrs_read) if a in state}))
            if not paths:
                raise AnalysisError('%s: no CObj path found again for %s' % (fn.name, p.key()))
            reported = set()
            for order, vals in paths:
                for i in sorted(flag_idx):
                    k = i - 2
                    if k < 0 or k >= len(vals):
                        r.violate(key, REL_OPT, fn.lineno, '%s: the raise is guarded by parameter %d of %s but only %d extra arguments are passed' % (
                            fn.name, i + 1, p.cname, len(vals)))
                        continue
                    v = vals[k]
                    if v is P.UNKNOWN:
                        r.info('%s: the value passed for parameter %d is not decided by the modelled state (%s)' % (key, i + 1, '; '.join(notes)))
                        continue
                    if not v and (i, repr(v)) not in reported:
                        reported.add((i, repr(v)))
                        r.violate(key, REL_OPT, fn.lineno,
                                  '%s passes %r as argument %d of %s for a %s in its default state (%s): the template only raises ZeroDivisionError when '
                                  'that flag is true, so `c %s x` with x == 0 divides in C (inf / nan / garbage instead of ZeroDivisionError)'
                                  % (fn.name, v, i + 1, p.cname, cls.name,
                                     ', '.join('%s=%r' % (a, state[a]) for a in sorted(attrs_read) if a in state) + ('; ' + '; '.join(notes) if notes else ''), sym))
    # positive control: a flag read from an attribute that is only written for C types
    pc_fn = ast.parse(
        "def f(operator, node, ret_type, arg0, arg1):\n"
        "    is_float = isinstance(arg0, X)\n"
        "    extra_args = []\n"
        "    extra_args.append(B(node.pos, value=1))\n"
        "    extra_args.append(B(node.pos, value=bool(node.zerodivision_check if isinstance(node, ExprNodes.DivNode) else False)))\n"
        "    u = load_cached('a', 'b', context=dict(op=operator, order='CObj'))\n"
        "    c = 'n'\n"
        "    t = 1\n"
        "    return c, u, extra_args, t\n").body[0]
    div = ix.cls('ExprNodes', 'DivNode')
    st, _ = effective_state(ix, div, {'zerodivision_check'})
    pv = flag_values(ix, pc_fn, 'is_float', 'TrueDivide', True, True, div, st)
    pc_sites, _ = raise_sites('static int g(int a, int chk) { if (chk && a == 0) { PyErr_SetString(PyExc_ZeroDivisionError, "x"); return 0; } return 1; }\n'
                              'static int f(PyObject *o, int x, int zc) { return g(x, zc); }\n', 'f')
    r.positive_control(bool(pv) and all(v[1][1] is False or v[1][1] is None or not v[1][1] for v in pv) and pc_sites and pc_sites[0][2] == {2},
                       'a flag read from DivNode.zerodivision_check (only computed for C types) is false; a raise in a forwarded helper is traced to parameter 3')
    return r


# ================================================================================================================= C02-FAST
# The expanded fast paths (PyLongBinop / PyFloatBinop / PyLongCompare) are walked by an abstract interpreter of the checker over the
# COMPLETE sign domain of the Python operand X (zero / positive / negative) and of the constant C, every other test forking both ways.
# Abstract values:  C (the constant),  -C,  f*X (the object's value with a factor f in {+1,-1}),  f*|X| (its magnitude, as read from the digits),
# L <op> R (an arithmetic result over these), boxed results, parameters op1/op2, booleans, unknown.  Decided for every return that is reached:
#   OPER   an arithmetic result `L <op> R` returned (or tested, for == / !=) by the fast path has the C operator of the Python operator and its operands
#          are exactly the left and the right operand of the source expression: the constant where the order says the constant is (CObj: left), the
#          object's value - with factor +1 - on the other side.  A magnitude that reaches the operation keeps the object's sign (digits are unsigned).
#   ZERO   a result returned by the "operand is zero" shortcut equals  L <op> R  with X = 0  (reference: the interpreter's own int arithmetic on
#          sample constants: c, 0, -c, ZeroDivisionError or "not a shortcut").
#   OBJ    every predicate / accessor of the object operand is applied to op2 for order CObj and to op1 for ObjC, and the entry function tests that
#          same operand with Py{Long,Float}_CheckExact.
#   CMP    PyLongCompare returns "equal" exactly when sign(X) == sign(C) and (both are zero or the digit comparison found no difference), and for
#          identical objects; the unrolled digit comparison for a constant of k+1 digits tests size == k+1 and digit i against bits [i*SHIFT, (i+1)*SHIFT).
#   PAIR   `inplace ? A : B` selects the PyNumber_InPlace<Op> function for the true branch and PyNumber_<Op> for the false one.
# REF_COP: Python operator name (C-API PyNumber_<Name>) -> C operator on in-range C integers / doubles.  Source: Python language reference 6.7-6.10 and
# C11 6.5 (floor division and modulo differ from C for negative operands: their adjustment is decided by C02-SIB / C03-ADJ).
REF_COP = {'Add': '+', 'Subtract': '-', 'Multiply': '*', 'Remainder': '%', 'TrueDivide': '/', 'FloorDivide': '/', 'Divide': '/',
           'Or': '|', 'Xor': '^', 'And': '&', 'Rshift': '>>', 'Lshift': '<<', 'Eq': '==', 'Ne': '!='}
_PYFUNC = {'Add': _operator.add, 'Subtract': _operator.sub, 'Multiply': _operator.mul, 'Remainder': _operator.mod, 'TrueDivide': _operator.truediv,
           'FloorDivide': _operator.floordiv, 'Or': _operator.or_, 'Xor': _operator.xor, 'And': _operator.and_, 'Rshift': _operator.rshift,
           'Lshift': _operator.lshift}
PRED = {'__Pyx_PyLong_IsZero': lambda s: s == 0, '__Pyx_PyLong_IsPos': lambda s: s > 0, '__Pyx_PyLong_IsNeg': lambda s: s < 0,
        '__Pyx_PyLong_IsNonNeg': lambda s: s >= 0}
OBJ_VALUE_ACCESSORS = {'__Pyx_PyFloat_AS_DOUBLE', 'PyFloat_AS_DOUBLE', '__Pyx_PyLong_CompactValue', 'PyLong_AsDouble', 'PyLong_AsLong', 'PyFloat_AsDouble'}
OBJ_OTHER_ACCESSORS = {'__Pyx_PyLong_Digits', '__Pyx_PyLong_DigitCount', '__Pyx_PyLong_IsCompact', 'PyLong_CheckExact', 'PyFloat_CheckExact'}
BOXERS = {'PyLong_FromLong', 'PyLong_FromLongLong', 'PyFloat_FromDouble', 'PyLong_FromSsize_t'}
MAX_FAST_PATHS = 6000


class _FastGiveUp(Exception):
    pass


def zero_reference(op, order, is_float=False):
    """class of  L <op> R  when the OBJECT operand is 0, from the interpreter's own arithmetic on sample constants:
    'c' | 'zero' | 'negc' | 'zerodiv' | 'other'"""
    f = _PYFUNC.get('TrueDivide' if op == 'Divide' else op)
    if f is None:
        return 'other'
    samples = (1, 3, 17, 40) if op in ('Rshift', 'Lshift') else (1, 3, -5, 1000003, -(2 ** 29))
    if is_float:
        samples = (1.5, -2.25, 1e10)
    kinds = set()
    for c in samples:
        l, r = (c, 0) if order == 'CObj' else (0, c)
        if is_float:
            try:
                f(l, r)
            except ZeroDivisionError:
                kinds.add('zerodiv')
            else:
                kinds.add('other')      # float shortcuts other than the division check are not modelled
            continue
        try:
            v = f(l, r)
        except ZeroDivisionError:
            kinds.add('zerodiv')
            continue
        except ValueError:
            kinds.add('other')
            continue
        if type(v) is not int:
            kinds.add('other')
        elif v == c and c != 0 and v != -c:
            kinds.add('c')
        elif v == 0:
            kinds.add('zero')
        elif v == -c:
            kinds.add('negc')
        else:
            kinds.add('other')
    return kinds.pop() if len(kinds) == 1 else 'other'


class FastWalk:
    """abstract walk of one expanded C function for one scenario"""

    def __init__(self, fname, params, tree, op, order, objsign, csign, objparam=None):
        self.fname, self.tree, self.op, self.order = fname, tree, op, order
        self.objsign, self.csign = objsign, csign           # -1 / 0 / +1 each
        self.pyval = 'op2' if order == 'CObj' else 'op1'
        self.objparam = objparam or self.pyval               # the parameter that holds the object operand in this function
        self.params = params
        self.problems = {}
        self.events = []
        self.paths = 0
        self.is_float = False

    # ---------------------------------------------------------------------------------------------------- abstract values
    def problem(self, key, msg):
        self.problems.setdefault(key, msg)

    def objval(self, f=1):
        return ('x', f)

    def norm(self, v):
        if v[0] == 'm':
            if self.objsign == 0:
                return ('x', 1)
            return ('x', v[1] * self.objsign)
        return v

    def is_const(self, v):
        return v[0] in ('c', 'negc')

    def is_obj(self, v):
        return v[0] in ('x', 'm')

    def check_obj_arg(self, name, arg, st):
        a = self.strip(arg)
        if a[0] == 'id' and a[1] in ('op1', 'op2', 'float_val'):
            if a[1] != self.objparam:
                self.problem('obj:%s(%s)' % (name, a[1]),
                             '%s applies %s to %s, but for order %s the Python object operand is %s (the other parameter holds the constant as an object)'
                             % (self.fname, name, a[1], self.order, self.objparam))

    def strip(self, e):
        from . import pC15 as X
        return X.strip_wrappers(e)

    # ---------------------------------------------------------------------------------------------------- expressions
    def ev(self, e, st):
        """-> abstract value (no forking inside expressions: unknown sub-conditions give 'unk')"""
        from . import pC15 as X
        e = self.strip(e)
        k = e[0]
        if k == 'num':
            return ('int', e[1])
        if k == 'str':
            return ('unk',)
        if k == 'id':
            n = e[1]
            if n in st:
                return st[n]
            if n in ('intval', 'floatval'):
                return ('c',)
            if n in ('op1', 'op2', 'float_val'):
                return ('ref', n)
            if n == 'NULL':
                return ('null',)
            return ('unk',)
        if k == 'un':
            v = self.ev(e[2], st)
            if e[1] == '-':
                if v[0] == 'c':
                    return ('negc',)
                if v[0] == 'negc':
                    return ('c',)
                if v[0] in ('x', 'm'):
                    return (v[0], -v[1])
                if v[0] == 'int' and v[1] is not None:
                    return ('int', -v[1])
                return ('unk',)
            if e[1] == '!':
                if v[0] == 'bool':
                    return ('bool', not v[1])
                if v[0] == 'int' and v[1] is not None:
                    return ('bool', v[1] == 0)
                return ('unk',)
            if e[1] == '&':
                return ('unk',)
            return ('unk',)
        if k == 'idx':
            b = self.ev(e[1], st)
            if b[0] == 'digits':
                return ('m', 1)
            return ('unk',)
        if k == 'mem':
            return ('unk',)
        if k == 'tern':
            c = self.ev(e[1], st)
            a, b = self.ev(e[2], st), self.ev(e[3], st)
            if c[0] == 'bool':
                return a if c[1] else b
            if a == b:
                return a
            return ('unk',)
        if k == 'call':
            fn = e[1]
            name = fn[1] if fn[0] == 'id' else (fn[3] if fn[0] == 'mem' else None)
            args = e[2]
            if name in PRED and len(args) == 1:
                self.check_obj_arg(name, args[0], st)
                return ('bool', PRED[name](self.objsign))
            if name in OBJ_VALUE_ACCESSORS and len(args) == 1:
                self.check_obj_arg(name, args[0], st)
                return ('x', 1)
            if name == '__Pyx_PyLong_Digits' and len(args) == 1:
                self.check_obj_arg(name, args[0], st)
                return ('digits',)
            if name in OBJ_OTHER_ACCESSORS and len(args) >= 1:
                self.check_obj_arg(name, args[0], st)
                return ('unk',)
            if name == '__imported_pylong_join':
                return ('m', 1)
            if name in BOXERS and len(args) == 1:
                return ('box', self.ev(args[0], st))
            if name in ('__Pyx_NewRef', 'Py_NewRef') and len(args) == 1:
                v = self.ev(args[0], st)
                if v[0] == 'ref':
                    return ('box', ('x', 1) if v[1] == self.objparam else ('c',))
                return ('unk',)
            if name == 'fmod' and len(args) == 2:
                return self.arith('%', self.ev(args[0], st), self.ev(args[1], st))
            if name in ('labs', 'fabs', 'llabs', 'copysign', 'sizeof'):
                return ('unk',)
            if name is not None and (name.startswith('nb_') or name.startswith('PyNumber_') or name.startswith('__Pyx_Fallback_') or name in (
                    'PyObject_RichCompare', '__Pyx_PyObject_RichCompareBool', 'PyObject_RichCompareBool', 'tp_richcompare')
                    or name.startswith('__Pyx_PyNumber_')):
                refs = [self.ev(a, st) for a in args[:2]]
                names = [r[1] for r in refs if r[0] == 'ref']
                if names == ['op2', 'op1'] and self.op not in ('Eq', 'Ne'):
                    self.problem('generic:%s' % name, '%s hands the operands to the generic %s in the order (op2, op1): a non-commutative operator is computed the wrong way round' % (self.fname, name))
                return ('generic', name)
            if fn[0] == 'tern':
                # (inplace ? PyNumber_InPlaceX : PyNumber_X)(op1, op2)
                return ('generic', 'ternary')
            if name in ('__Pyx_PyObject_IsTrueAndDecref',):
                return ('generic', name)
            if name is not None and name.startswith('__Pyx_Unpacked_') or (name is not None and name.startswith('__Pyx_Float_')):
                return ('forward', name)
            return ('unk',)
        if k == 'bin':
            op = e[1]
            a, b = self.ev(e[2], st), self.ev(e[3], st)
            if op in ('&&', '||'):
                if a[0] == 'bool' and b[0] == 'bool':
                    return ('bool', (a[1] and b[1]) if op == '&&' else (a[1] or b[1]))
                if op == '&&' and (a == ('bool', False) or b == ('bool', False)):
                    return ('bool', False)
                if op == '||' and (a == ('bool', True) or b == ('bool', True)):
                    return ('bool', True)
                return ('unk',)
            if op in ('==', '!=', '<', '<=', '>', '>='):
                r = self.compare(op, a, b, e)
                return r
            return self.arith(op, a, b)
        if k == 'assign':
            return self.assign(e, st)
        if k == 'post':
            return ('unk',)
        if k == 'comma':
            self.ev(e[1], st)
            return self.ev(e[2], st)
        if k == 'sizeof':
            return ('unk',)
        return ('unk',)

    def arith(self, op, a, b):
        if op in ('+', '-', '*', '/', '%', '|', '^', '&', '<<', '>>'):
            ca, cb = self.is_const(a), self.is_const(b)
            oa, ob = self.is_obj(a), self.is_obj(b)
            if (ca and ob) or (oa and cb):
                return ('op', op, self.norm(a), self.norm(b))
            if op == '*' and ((a == ('int', -1) and (oa or ob)) or (b == ('int', -1) and oa)):
                v = a if oa else b
                return (v[0], -v[1])
            if a[0] == 'int' and b[0] == 'int' and a[1] is not None and b[1] is not None and op in ('+', '-', '*'):
                return ('int', {'+': a[1] + b[1], '-': a[1] - b[1], '*': a[1] * b[1]}[op])
            if a[0] in ('op', 'opadj'):
                return ('opadj',) + a[1:]
        return ('unk',)

    def compare(self, op, a, b, e):
        sign_of = {'c': self.csign}
        if a[0] == 'c' and b[0] == 'int' and b[1] == 0 and self.csign is not None:
            s = self.csign
            return ('bool', {'==': s == 0, '!=': s != 0, '<': s < 0, '<=': s <= 0, '>': s > 0, '>=': s >= 0}[op])
        if b[0] == 'c' and a[0] == 'int' and a[1] == 0 and self.csign is not None:
            s = -self.csign
            return ('bool', {'==': s == 0, '!=': s != 0, '<': s < 0, '<=': s <= 0, '>': s > 0, '>=': s >= 0}[op])
        if a[0] == 'int' and b[0] == 'int' and a[1] is not None and b[1] is not None:
            return ('bool', {'==': a[1] == b[1], '!=': a[1] != b[1], '<': a[1] < b[1], '<=': a[1] <= b[1], '>': a[1] > b[1], '>=': a[1] >= b[1]}[op])
        if a[0] == 'bool' and b[0] == 'int' and b[1] in (0, 1) and op in ('==', '!='):
            r = a[1] == bool(b[1])
            return ('bool', r if op == '==' else not r)
        if b[0] == 'int' and b[1] == 0 and a[0] == 'x' and self.objsign is not None and op in ('<', '<=', '>', '>='):
            sg = self.objsign * a[1]
            return ('bool', {'<': sg < 0, '<=': sg <= 0, '>': sg > 0, '>=': sg >= 0}[op])
        if a[0] == 'ref' and b[0] == 'ref' and op in ('==', '!='):
            return ('atom', 'identical', op == '==')
        if op in ('==', '!=') and b[0] == 'int' and b[1] in (0, None) and self.is_obj(a):
            return ('atom', 'obj-is-zero', op == '==')
        if op in ('==', '!=') and b[0] == 'int' and b[1] in (0, None) and a[0] == 'c' and self.csign is None:
            return ('atom', 'const-is-zero', op == '==')
        if op in ('==', '!=') and ((self.is_const(a) and self.is_obj(b)) or (self.is_obj(a) and self.is_const(b))):
            return ('op', op, self.norm(a), self.norm(b))
        if a[0] == 'atomval' and b[0] == 'int' and b[1] in (0, 1) and op in ('==', '!='):
            # `unequal == 0`
            return ('atom', a[1], (op == '==') == bool(b[1]))
        return ('unk',)

    def assign(self, e, st):
        op, l, r = e[1], self.strip(e[2]), e[3]
        v = self.ev(r, st)
        if l[0] != 'id':
            return ('unk',)
        name = l[1]
        cur = st.get(name, ('unk',))
        if op == '=':
            st[name] = self.named(name, v, r)
        elif op == '*=' and v == ('int', -1) and cur[0] in ('x', 'm'):
            st[name] = (cur[0], -cur[1])
        elif op in ('+=', '-=', '*=', '/=', '%=', '|=', '&=', '^=', '<<=', '>>=') and cur[0] in ('op', 'opadj'):
            if op in ('+=', '-=') and cur[0] == 'op' and cur[1] == '%':
                self.check_mod_adjust(name, r if op == '+=' else ('un', '-', r), st)
            st[name] = ('opadj',) + cur[1:]
        else:
            st[name] = ('unk',)
        return st[name]

    def check_mod_adjust(self, xname, rhs, st):
        """x = L % R (C remainder, sign of L);  x += <rhs>  must add R exactly when x != 0 and sign(x) != sign(R)  (Python's modulo has the sign of the divisor)."""
        from . import pC15 as X
        roles = {}
        for n in X.c_ids(rhs):
            v = st.get(n)
            if n == xname:
                roles[n] = 'x'
            elif v is not None and self.is_const(v):
                roles[n] = 'C'
            elif v is not None and self.is_obj(v):
                roles[n] = 'O'
            elif n in ('likely', 'unlikely'):
                continue
            else:
                return          # mentions something else: not a sign predicate of the operands
        right = 'O' if self.order == 'CObj' else 'C'
        self.events.append(('mod-adjust', 1))

        def role_of(n):
            v = st.get(n)
            if n == xname:
                return 'x'
            if v is not None and self.is_const(v):
                return 'C'
            if v is not None and self.is_obj(v):
                return 'O'
            return None
        # Path conditions under which this `+=` is reached (`if (x) { if ((x < 0) ^ (b < 0)) x += b; }`): only tests over the remainder and the two operands take
        # part; a test over anything else leaves the environment unconstrained.
        import ast as _ast
        guards = []
        for k, truth in getattr(self, 'cur_atoms', {}).items():
            if not (isinstance(k, str) and k.startswith('?')):
                continue
            try:
                g = _ast.literal_eval(k[1:])
            except (ValueError, SyntaxError):
                continue
            ids = [n for n in X.c_ids(g) if n not in ('likely', 'unlikely')]
            if ids and all(role_of(n) for n in ids):
                for n in ids:
                    roles.setdefault(n, role_of(n))
                guards.append((g, bool(truth)))

        def evaluate(e, env):
            e = self.strip(e)
            k = e[0]
            if k == 'num':
                return e[1]
            if k == 'id':
                return env[e[1]]
            if k == 'call' and e[1][0] == 'id' and e[1][1] in ('likely', 'unlikely') and len(e[2]) == 1:
                return evaluate(e[2][0], env)
            if k == 'un':
                v = evaluate(e[2], env)
                return {'!': int(not v), '-': -v, '~': ~v, '+': v}[e[1]]
            if k == 'bin':
                a, b = evaluate(e[2], env), evaluate(e[3], env)
                f = {'+': lambda: a + b, '-': lambda: a - b, '*': lambda: a * b, '<': lambda: int(a < b), '>': lambda: int(a > b), '<=': lambda: int(a <= b),
                     '>=': lambda: int(a >= b), '==': lambda: int(a == b), '!=': lambda: int(a != b), '&': lambda: a & b, '|': lambda: a | b, '^': lambda: a ^ b,
                     '&&': lambda: int(bool(a) and bool(b)), '||': lambda: int(bool(a) or bool(b))}.get(e[1])
                if f is None:
                    raise KeyError(e[1])
                return f()
            raise KeyError(k)
        cov = self.__dict__.setdefault('mod_cov', set())
        self.mod_sites = getattr(self, 'mod_sites', 0) + 1
        # a floating-point divisor may be infinite: fmod(a, inf) = a, and a predicate MULTIPLIED with the divisor then gives 0 * inf = NaN
        mags = (5, float('inf')) if self.is_float else (5,)
        for sx in (-1, 0, 1):
            for sr, mag in [(q, m_) for q in (-1, 1) for m_ in mags]:
                for sl in (-1, 0, 1):
                    vals = {'x': 2 * sx, 'C': None, 'O': None}
                    rv, lv = mag * sr, 3 * sl
                    vals[right] = rv
                    vals['C' if right == 'O' else 'O'] = lv
                    env = {n: vals[role] for n, role in roles.items()}
                    try:
                        if any(bool(evaluate(g, env)) != truth for g, truth in guards):
                            continue            # this environment does not reach the statement
                        got = evaluate(rhs, env)
                    except (KeyError, TypeError):
                        return
                    cov.add((sx, sr, sl))
                    want = rv if (sx != 0 and (sx < 0) != (sr < 0)) else 0
                    if got != got:
                        self.problem('modadj', '%s: after `x = left %% right` the floor adjustment `x += %s` adds NaN when the divisor is %sinfinite and the remainder is %s '
                                     '(a 0/1 flag multiplied with an infinite divisor: 0 * inf); Python\'s %% requires %s there' % (
                                         self.fname, X.c_text(self.strip(rhs))[:70], '-' if sr < 0 else '+', {-1: 'negative', 0: 'zero', 1: 'positive'}[sx], want))
                        return
                    if got != want:
                        self.problem('modadj', '%s: after `x = left %% right` the floor adjustment `x += %s` adds %s when the remainder is %s and the divisor (right operand) is %s '
                                     '(left operand %s); Python\'s %% requires %s: the result has the sign of the wrong operand' % (
                                         self.fname, X.c_text(self.strip(rhs))[:70], got, {-1: 'negative', 0: 'zero', 1: 'positive'}[sx],
                                         {-1: 'negative', 1: 'positive'}[sr], {-1: 'negative', 0: 'zero', 1: 'positive'}[sl], want))
                        return

    def check_mod_coverage(self):
        """A conditional adjustment (`if (pred) x += b;`) is only reached by some sign combinations: every combination that NEEDS the divisor added must reach one."""
        if not getattr(self, 'mod_sites', 0):
            return
        for sx in (-1, 1):
            for sr in (-1, 1):
                if (sx < 0) != (sr < 0) and not any((sx, sr, sl) in self.mod_cov for sl in (-1, 0, 1)):
                    self.problem('modadj', '%s: after `x = left %% right` no floor adjustment is reached when the remainder is %s and the divisor is %s: '
                                 'Python\'s %% requires the divisor to be added there' % (self.fname, 'negative' if sx < 0 else 'positive', 'negative' if sr < 0 else 'positive'))
                    return

    def named(self, name, v, rhs):
        from . import pC15 as X
        if name == 'unequal' or (v[0] == 'unk' and re.search(r'\bdigits\b', X.c_text(rhs)) and re.search(r'!=', X.c_text(rhs))):
            return ('atomval', 'digits-differ')
        return v

    # ---------------------------------------------------------------------------------------------------- statements
    def run(self):
        body = self.tree
        self.top = body[1]
        self.labels = {s[1]: i for i, s in enumerate(self.top) if s[0] == 'label'}
        self.results = []
        self._exec_from(0, {}, {})
        self.check_mod_coverage()
        return self.results

    def _exec_from(self, idx, st, atoms):
        todo = [(idx, st, atoms)]
        while todo:
            i, s, a = todo.pop()
            outs = self.exec_list(self.top[i:], s, a)
            for kind, payload, s2, a2 in outs:
                if kind == 'goto':
                    if payload not in self.labels:
                        raise _FastGiveUp('goto %s: label not at function level' % payload)
                    todo.append((self.labels[payload], s2, a2))
                elif kind == 'fall':
                    self.finish(('fall',), s2, a2)

    def finish(self, ret, st, atoms):
        self.paths += 1
        if self.paths > MAX_FAST_PATHS:
            raise _FastGiveUp('more than %d paths' % MAX_FAST_PATHS)
        self.results.append((ret, dict(atoms), st.get('__zero__', False), st.get('__raised__')))

    def exec_list(self, stmts, st, atoms):
        """-> [(kind 'fall'|'goto', payload, state, atoms)]; returns are recorded through finish()"""
        cur = [(st, atoms)]
        escapes = []
        for s in stmts:
            nxt = []
            for st1, at1 in cur:
                for kind, payload, st2, at2 in self.exec_stmt(s, st1, at1):
                    if kind == 'fall':
                        nxt.append((st2, at2))
                    else:
                        escapes.append((kind, payload, st2, at2))
            cur = nxt
            if not cur:
                break
        return [('fall', None, s1, a1) for s1, a1 in cur] + escapes

    def exec_stmt(self, s, st, atoms):
        from . import pC15 as X
        k = s[0]
        self.cur_atoms = atoms
        if k == 'block':
            return self.exec_list(s[1], st, atoms)
        if k == 'label':
            return [('fall', None, st, atoms)]
        if k == 'goto':
            return [('goto', s[1], st, atoms)]
        if k == 'decl':
            st = dict(st)
            for name, init, typ in s[1]:
                if init is None:
                    st[name] = ('unk',)
                else:
                    st[name] = self.named(name, self.ev(init, st), init)
            return [('fall', None, st, atoms)]
        if k == 'expr':
            st = dict(st)
            e = self.strip(s[1])
            if e[0] == 'id' and e[1] in ('Py_RETURN_TRUE', 'Py_RETURN_FALSE'):
                self.finish(('bool', e[1] == 'Py_RETURN_TRUE'), st, atoms)
                return []
            if e[0] == 'call' and e[1][0] == 'id' and e[1][1] in ('PyErr_SetString', 'PyErr_Format', 'PyErr_SetObject'):
                exc = X.c_text(e[2][0]) if e[2] else '?'
                st['__raised__'] = exc
                if 'ZeroDivision' in exc and not st.get('__zero__'):
                    self.events.append(('zerodiv-raise', 1))
                    # the operand tested for zero must be the divisor = the right operand of the source expression
                    div_is_obj = self.order == 'CObj'
                    ok = atoms.get('obj-is-zero') is True if div_is_obj else atoms.get('const-is-zero') is True
                    if self.objsign == 0 and div_is_obj:
                        ok = ok or True
                    if not ok:
                        self.problem('zerodiv:operand', '%s raises ZeroDivisionError on a path where the DIVISOR (the %s, for order %s) was not tested for zero (tested: %s): '
                                     '`c / 0.0` divides in C and a zero constant would raise instead' % (
                                         self.fname, 'object operand' if div_is_obj else 'constant', self.order,
                                         ', '.join(k for k in ('obj-is-zero', 'const-is-zero') if atoms.get(k)) or 'nothing'))
                return [('fall', None, st, atoms)]
            self.ev(s[1], st)
            return [('fall', None, st, atoms)]
        if k == 'return':
            st = dict(st)
            v = self.ev(s[1], st) if s[1] is not None else ('void',)
            if v[0] in ('op',) and v[1] in ('==', '!='):
                # return (a == b);
                self.check_operation(v, st)
                for truth in (True, False):
                    a2 = dict(atoms)
                    a2['equal-values'] = truth if v[1] == '==' else not truth
                    self.finish(('bool', truth), st, a2)
                return []
            if v[0] == 'atom':
                for truth in (True, False):
                    if atoms.get(v[1], truth) != truth and v[1] in atoms:
                        continue
                    a2 = dict(atoms)
                    a2[v[1]] = truth
                    self.finish(('bool', truth == v[2]), st, a2)
                return []
            self.check_return(v, st)
            self.finish(v, st, atoms)
            return []
        if k == 'if':
            out = []
            for truth, st2, at2 in self.branch(s[1], st, atoms):
                st3 = dict(st2)
                zero_test = self.is_zero_test(s[1])
                if zero_test and truth:
                    st3['__zero__'] = True
                if truth:
                    out += self.exec_stmt(s[2], st3, at2)
                elif s[3] is not None:
                    out += self.exec_stmt(s[3], st3, at2)
                else:
                    out.append(('fall', None, st3, at2))
            # leaving the if statement ends the zero block
            res = []
            for kind, payload, s4, a4 in out:
                if s4.get('__zero__') and not st.get('__zero__'):
                    s4 = dict(s4)
                    s4['__zero__'] = False
                res.append((kind, payload, s4, a4))
            return res
        raise _FastGiveUp('statement kind %s' % k)

    def is_zero_test(self, cond):
        c = self.strip(cond)
        return c[0] == 'call' and c[1][0] == 'id' and c[1][1] == '__Pyx_PyLong_IsZero'

    def branch(self, cond, st, atoms):
        from . import pC15 as X
        st = dict(st)
        c0 = self.strip(cond)
        if c0[0] == 'bin' and c0[1] in ('&&', '||'):
            out = []
            for ta, sa, aa in self.branch(c0[2], st, atoms):
                if ta == (c0[1] == '&&'):
                    out += self.branch(c0[3], sa, aa)
                else:
                    out.append((ta, sa, aa))
            return out
        if c0[0] == 'un' and c0[1] == '!':
            return [(not t, s_, a_) for t, s_, a_ in self.branch(c0[2], st, atoms)]
        v = self.ev(cond, st)
        if v[0] == 'bool':
            return [(v[1], st, atoms)]
        if v[0] == 'int' and v[1] is not None:
            return [(v[1] != 0, st, atoms)]
        if v[0] == 'op' and v[1] in ('==', '!='):
            self.check_operation(v, st)
            out = []
            for truth in (True, False):
                eq = truth if v[1] == '==' else not truth
                if atoms.get('equal-values', eq) != eq:
                    continue
                a2 = dict(atoms)
                a2['equal-values'] = eq
                out.append((truth, dict(st), a2))
            return out
        if v[0] == 'atom':
            out = []
            for truth in (True, False):
                val = truth if v[2] else not truth
                if v[1] in atoms and atoms[v[1]] != val:
                    continue
                a2 = dict(atoms)
                a2[v[1]] = val
                out.append((truth, dict(st), a2))
            return out
        key = '?' + repr(self.strip(cond))          # the AST itself: c_text() abbreviates sizeof(...) and would merge distinct tests
        if key in atoms:
            return [(atoms[key], st, atoms)]
        out = []
        for truth in (True, False):
            a2 = dict(atoms)
            a2[key] = truth
            out.append((truth, dict(st), a2))
        return out

    # ---------------------------------------------------------------------------------------------------- obligations
    def left_right(self):
        return (('c',), ('x', 1)) if self.order == 'CObj' else (('x', 1), ('c',))

    def check_operation(self, v, st):
        _, cop, l, r = v[:4]
        want = REF_COP.get(self.op)
        self.events.append(('operation', cop))
        if want is not None and cop != want and not (cop in ('==', '!=') and self.op in ('Eq', 'Ne')):
            self.problem('oper:operator', '%s computes `left %s right` for the Python operator %s (C operator %s expected): the fast path returns the result of a different operation'
                         % (self.fname, cop, self.op, want))
        wl, wr = self.left_right()

        def show(x):
            return {'c': 'the constant', 'negc': 'minus the constant', 'x': 'the object\'s value' if x[0] == 'x' and x[1] == 1 else 'MINUS the object\'s value'}.get(x[0], repr(x))
        if self.objsign == 0:
            l = ('x', 1) if l[0] == 'x' else l
            r = ('x', 1) if r[0] == 'x' else r
        if (l, r) != (wl, wr) and cop in ('+', '*', '&', '|', '^', '==', '!=') and (r, l) == (wl, wr):
            return          # commutative on C integers / doubles: the operand order is immaterial
        if (l, r) != (wl, wr):
            if l[0] == wr[0] and r[0] == wl[0]:
                self.problem('oper:operands', '%s computes `%s %s %s` for order %s: the operands of `%s` are exchanged (the constant is the %s operand of the source expression)'
                             % (self.fname, show(l), cop, show(r), self.order, cop, 'left' if self.order == 'CObj' else 'right'))
            else:
                self.problem('oper:sign', '%s computes `%s %s %s` when the object is %s: the value unpacked from the digits has the wrong sign (digits hold the magnitude; the sign '
                             'has to be applied exactly when the object is negative)' % (self.fname, show(l), cop, show(r), {1: 'positive', -1: 'negative', 0: 'zero'}[self.objsign]))

    def check_return(self, v, st):
        if v[0] == 'box' and self.op == 'Rshift' and v[1][0] == 'int' and v[1][1] is not None and not st.get('__zero__'):
            # a literal result of `left >> right`: only the saturated shift (count >= width) has one - Python: -1 for a negative left operand, else 0
            left = self.csign if self.order == 'CObj' else self.objsign
            if left is not None:
                self.events.append(('shift-saturation', 1))
                want = -1 if left < 0 else 0
                if v[1][1] != want:
                    self.problem('rshift:saturated', '%s returns the constant %d for a shift by at least the width of the C type when the left operand is %s; Python\'s >> '
                                 'floors: the result is %d' % (self.fname, v[1][1], {-1: 'negative', 0: 'zero', 1: 'positive'}[left], want))
        if v[0] == 'box':
            inner = v[1]
            if inner[0] in ('op', 'opadj'):
                self.check_operation(inner, st)
            if st.get('__zero__'):
                self.check_zero(inner, st)
        elif v[0] == 'null' and st.get('__zero__'):
            self.check_zero(('raised', st.get('__raised__')), st)
        elif v[0] in ('op', 'opadj'):
            self.check_operation(v, st)

    def check_zero(self, inner, st):
        want = zero_reference(self.op, self.order, self.is_float)
        if inner[0] == 'raised':
            got = 'zerodiv' if inner[1] and 'ZeroDivision' in inner[1] else 'other'
        elif inner[0] == 'c':
            got = 'c'
        elif inner[0] == 'negc':
            got = 'negc'
        elif inner[0] == 'x' or inner == ('int', 0):
            got = 'zero'
        else:
            got = 'other'
        self.events.append(('zero-shortcut', got))
        if got != want:
            names = {'c': 'the constant', 'negc': 'minus the constant', 'zero': 'zero (the object operand)', 'zerodiv': 'ZeroDivisionError', 'other': 'no shortcut (a different value)'}
            l, r = ('c', '0') if self.order == 'CObj' else ('0', 'c')
            self.problem('zero:%s' % got, '%s: for a zero object operand the shortcut yields %s, but `%s %s %s` is %s' % (
                self.fname, names.get(got, got), l, {'Add': '+', 'Subtract': '-', 'Multiply': '*', 'Remainder': '%', 'TrueDivide': '/', 'FloorDivide': '//', 'Or': '|',
                                                    'Xor': '^', 'And': '&', 'Rshift': '>>', 'Lshift': '<<'}.get(self.op, self.op), r, names[want]))


_PP_LINE = re.compile(r'^[ \t]*#[ \t]*(if|ifdef|ifndef|elif|else|endif)\b(.*)$')


def _pp_texts(body):
    """[(configuration text, body without preprocessor lines)]: every #if / #elif condition TEXT is one boolean atom (conditions with arithmetic such as
    `PyLong_SHIFT * 4 < SIZEOF_LONG*8` are not evaluated); all assignments are enumerated, equal results merged.  Over-approximates the real configurations."""
    import itertools
    body = re.sub(r'\\[ \t]*\n', ' ', body)            # continuation lines of preprocessor conditions
    lines = body.split('\n')
    atoms = []
    for ln in lines:
        m = _PP_LINE.match(ln)
        if m and m.group(1) in ('if', 'ifdef', 'ifndef', 'elif'):
            c = ' '.join(m.group(2).split())
            if m.group(1) in ('ifdef', 'ifndef'):
                c = 'defined(%s)' % c
            if c not in atoms:
                atoms.append(c)
    if len(atoms) > 8:
        raise _FastGiveUp('%d preprocessor conditions in one function' % len(atoms))
    seen, out = set(), []
    for bits in itertools.product((True, False), repeat=len(atoms)):
        val = dict(zip(atoms, bits))
        keep, stack = [], []            # stack entries: [some branch taken already, this branch active]
        for ln in lines:
            m = _PP_LINE.match(ln)
            if not m:
                keep.append(ln if all(x[1] for x in stack) else '')
                continue
            keep.append('')
            d = m.group(1)
            c = ' '.join(m.group(2).split())
            if d in ('if', 'ifdef', 'ifndef'):
                if d != 'if':
                    c = 'defined(%s)' % c
                t = val[c] if d != 'ifndef' else not val[c]
                stack.append([t, t])
            elif d == 'elif':
                if not stack:
                    raise _FastGiveUp('#elif without #if')
                if stack[-1][0]:
                    stack[-1][1] = False
                else:
                    stack[-1] = [val[c], val[c]]
            elif d == 'else':
                if not stack:
                    raise _FastGiveUp('#else without #if')
                stack[-1] = [True, not stack[-1][0]]
            else:
                if not stack:
                    raise _FastGiveUp('#endif without #if')
                stack.pop()
        t = '\n'.join(keep)
        k = re.sub(r'\s+', ' ', t)
        if k not in seen:
            seen.add(k)
            out.append((' '.join('%s=%d' % (a[:30], val[a]) for a in atoms), t))
    return out


def fast_functions(text):
    """functions of an expanded template section -> {name: (param names, body text incl. braces)}"""
    t = strip_c_comments(text)
    out = {}
    for name, (params, b0, b1) in c_functions(t).items():
        out[name] = ([_pname(p) for p in params], t[b0:b1 + 1])
    return out


def walk_function(fname, params, body, op, order, scenarios, objparam=None, is_float=False):
    """-> (problems {key: msg}, events set, number of paths, results [(scenario, ret, atoms, in zero block, raised)])"""
    from . import pC15 as X
    problems, events, paths, results = {}, set(), 0, []
    for cfg, text in _pp_texts(body):
        # integer widths play no role in the sign domain: the long long twin of a variable is just another C integer
        text = re.sub(r'(?<!sizeof\()(?<!sizeof \()\bPY_LONG_LONG\b', 'long', text)
        try:
            tree = X.parse_c_function_body(text)
        except AnalysisError as e:
            raise _FastGiveUp('%s [%s]: %s' % (fname, cfg, e))
        for objsign, csign in scenarios:
            w = FastWalk(fname, params, tree, op, order, objsign, csign, objparam)
            w.is_float = is_float
            for ret, atoms, zero, raised in w.run():
                results.append(((objsign, csign), ret, atoms, zero, raised))
            for k, m in w.problems.items():
                problems.setdefault(k, m + (' [%s]' % cfg if cfg else ''))
            events |= set(w.events)
            paths += w.paths
    return problems, events, paths, results


def compare_problems(fname, results, op):
    """PyLongCompare decision table: -> {key: message}"""
    probs = {}
    for (objsign, csign), ret, atoms, zero, raised in results:
        if ret[0] != 'bool':
            continue            # generic rich comparison fallback
        if any(k.startswith('?') and 'CheckExact' in k and not v for k, v in atoms.items()):
            pass
        identical = atoms.get('identical')
        differ = atoms.get('digits-differ')
        eqv = atoms.get('equal-values')
        if identical:
            equal = True
        elif eqv is not None:
            equal = eqv
        elif csign is None:
            continue
        elif objsign != csign:
            if differ is False and 0 in (objsign, csign):
                continue        # infeasible: zero has no digits, a non-zero constant has at least one - the digit counts differ
            equal = False
        elif objsign == 0:
            equal = True
        elif differ is None:
            continue            # decided before the magnitudes were compared although the signs agree: only possible on generic paths
        else:
            equal = not differ
        want = equal if op == 'Eq' else not equal
        if ret[1] != want:
            what = 'identical objects' if identical else 'object %s, constant %s%s' % (
                {0: 'zero', 1: 'positive', -1: 'negative'}[objsign], {0: 'zero', 1: 'positive', -1: 'negative', None: '?'}[csign],
                '' if differ is None else (', digits differ' if differ else ', digits equal'))
            probs.setdefault('cmp:%s' % what.replace(' ', '-'), '%s returns %s for %s, where `x %s c` is %s' % (fname, ret[1], what, '==' if op == 'Eq' else '!=', want))
    return probs


def digit_compare_problems(fname, body):
    """the unrolled `unequal = (size != N) || digits[0] != (uintval & MASK) | digits[i] != ((uintval >> (i * SHIFT)) & MASK)` blocks -> (instances, {key: msg})"""
    from . import pC15 as X
    inst, probs = [], {}
    t = re.sub(r'^[ \t]*#.*$', '', body, flags=re.M)
    for m in re.finditer(r'\bunequal\s*=(?!=)\s*([^;]+);', t):
        try:
            e = X.CParser(m.group(1) + ' ;').expr()
        except AnalysisError:
            probs.setdefault('digits:unparsable', '%s: the digit comparison `%s` cannot be parsed' % (fname, ' '.join(m.group(1).split())[:80]))
            continue
        sizes, digs = [], []

        def rec(x):
            x = X.strip_wrappers(x)
            if x[0] == 'bin' and x[1] in ('||', '|'):
                rec(x[2])
                rec(x[3])
                return
            if x[0] == 'bin' and x[1] == '!=':
                l, r = X.strip_wrappers(x[2]), X.strip_wrappers(x[3])
                if l == ('id', 'size') and r[0] == 'num':
                    sizes.append(r[1])
                    return
                if l[0] == 'idx' and X.strip_wrappers(l[1]) == ('id', 'digits') and X.strip_wrappers(l[2])[0] == 'num':
                    i = X.strip_wrappers(l[2])[1]
                    # right side: (uintval & MASK)  or  ((uintval >> (k * PyLong_SHIFT)) & MASK)
                    shift = None
                    r2 = r
                    if r2[0] == 'bin' and r2[1] == '&':
                        inner = X.strip_wrappers(r2[2])
                        if inner == ('id', 'uintval'):
                            shift = 0
                        elif inner[0] == 'bin' and inner[1] == '>>' and X.strip_wrappers(inner[2]) == ('id', 'uintval'):
                            sh = X.strip_wrappers(inner[3])
                            if sh[0] == 'bin' and sh[1] == '*':
                                a, b = X.strip_wrappers(sh[2]), X.strip_wrappers(sh[3])
                                n = a[1] if a[0] == 'num' else (b[1] if b[0] == 'num' else None)
                                o = b if a[0] == 'num' else a
                                if n is not None and o == ('id', 'PyLong_SHIFT'):
                                    shift = n
                            elif sh == ('id', 'PyLong_SHIFT'):
                                shift = 1
                    digs.append((i, shift))
                    return
            probs.setdefault('digits:shape', '%s: unexpected term `%s` in the digit comparison' % (fname, X.c_text(x)[:60]))
        rec(e)
        key = 'digits:%s' % (sizes[0] if len(sizes) == 1 else '?')
        inst.append(key)
        if len(sizes) != 1:
            probs.setdefault(key, '%s: the digit comparison does not test the digit count exactly once' % fname)
            continue
        n = sizes[0]
        if sorted(i for i, _ in digs) != list(range(n)):
            probs.setdefault(key, '%s: a constant compared digit by digit has %d digit comparison(s) (%s) but the PyLong must have size %d to be equal: '
                             'the number of digits tested and the required digit count disagree' % (fname, len(digs), sorted(i for i, _ in digs), n))
        for i, sh in digs:
            if sh != i:
                probs.setdefault(key + ':shift%d' % i, '%s: digit %d is compared with bits starting at %s*PyLong_SHIFT of the constant' % (fname, i, sh))
    return inst, probs


def inplace_pair_problems(text):
    """`inplace ? A : B` -> (instances, {key: msg})"""
    inst, probs = [], {}
    t = strip_c_comments(text)
    for m in re.finditer(r'\binplace\s*\?\s*([A-Za-z_]\w*)\s*(?:\([^()]*\))?\s*:\s*([A-Za-z_]\w*)', t):
        a, b = m.group(1), m.group(2)
        key = 'pair:%s/%s' % (a, b)
        inst.append(key)
        if 'InPlace' not in a or a.replace('InPlace', '') != b:
            probs[key] = ('`inplace ? %s : %s`: the in-place variant must be selected when the flag is true and the plain one otherwise (x += c on a mutable object must call '
                          '__iadd__, x + c must not)' % (a, b))
    return inst, probs


def rule_fast(ctx, points, trees, floor=275):
    r = Rule('C02-FAST', 'expanded PyLongBinop / PyFloatBinop / PyLongCompare fast paths, abstract walk over the sign domain of the object operand and the constant: the operation '
             'returned is `left <C operator of the Python operator> right` with the constant and the object on the sides the order says, magnitudes get the object\'s sign, the '
             'zero shortcuts equal the arithmetic identity, predicates test the object operand, PyLongCompare decides equality like the integers, in-place pairs are not swapped', floor)
    done = set()
    reported = {}

    def violate(key, msg, line=0):
        # one finding per (section, function kind, kind of deviation): the construct key names the first operator/order it was seen for
        parts = key.split(':')
        gen = re.sub(r'\(op=\w+,order=\w+,ret=\w+\)', '', key)
        gen = re.sub(r'InPlace\w+/PyNumber_\w+|PyNumber_\w+/PyNumber_InPlace\w+', 'pair', gen)
        if gen not in reported:
            reported[gen] = 1
            r.violate(key, REL_C, line, msg)
        else:
            reported[gen] += 1
    for p in points:
        k0 = (p.section, p.op, p.order, p.ret_obj)
        if k0 in done:
            continue
        done.add(k0)
        text = P.tpl_expand(trees[(p.section, 'impl')], dict(p.context))
        funcs = fast_functions(text)
        base = '%s(op=%s,order=%s,ret=%s)' % (p.section, p.op, p.order, 'object' if p.ret_obj else 'bint')
        pyval = 'op2' if p.order == 'CObj' else 'op1'
        # ---- PAIR
        inst, probs = inplace_pair_problems(text)
        for k in inst:
            r.inst('%s:%s' % (base, k), sample='%s: %s' % (base, k))
        for k, m in probs.items():
            violate('%s:%s' % (base, k), '%s: %s' % (base, m))
        if p.cname not in funcs:
            r.info('%s: entry %s not found in the expansion (reported by C02-P3)' % (base, p.cname))
            continue
        # ---- OBJ: the entry function type-tests the object operand
        entry_params, entry_body = funcs[p.cname]
        tests = re.findall(r'\bPy(?:Long|Float)_CheckExact\(\s*(\w+)\s*\)', entry_body)
        r.inst(base + ':objtest', sample='%s: %s type-tests %s' % (base, p.cname, sorted(set(tests))))
        for t in sorted(set(tests)):
            if t != pyval:
                violate(base + ':objtest', '%s: the entry function %s applies Py*_CheckExact to %s, but with order %s the Python object operand is %s: the constant is unpacked as '
                        'if it were the variable operand' % (base, p.cname, t, p.order, pyval))
        sign3 = [(s, None) for s in (0, 1, -1)]
        sign9 = [(s, c) for s in (0, 1, -1) for c in (0, 1, -1)]
        for fname, (params, body) in sorted(funcs.items()):
            is_cmp = p.section == 'PyLongCompare'
            if fname.startswith('__Pyx_Fallback_'):
                continue
            objparam = 'float_val' if 'float_val' in params else pyval
            scen = sign9 if (is_cmp or p.op == 'Rshift') else sign3
            try:
                problems, events, paths, results = walk_function(fname, params, body, p.op, p.order, scen, objparam, p.section == 'PyFloatBinop')
            except _FastGiveUp as e:
                raise AnalysisError('C02-FAST: %s of %s is outside the modelled C subset: %s' % (fname, base, e))
            ops = sorted({e[1] for e in events if e[0] == 'operation'})
            zs = sorted({e[1] for e in events if e[0] == 'zero-shortcut'})
            r.inst('%s:%s' % (base, fname), sample='%s: %s, %d paths, operations %s, zero shortcuts %s' % (base, fname, paths, ops, zs),
                   nontrivial=bool(ops or zs or is_cmp))
            for k, m in sorted(problems.items()):
                violate('%s:%s:%s' % (base, fname.replace(p.cname, '$'), k), '%s: %s' % (base, m))
            if is_cmp and fname == p.cname:
                for k, m in sorted(compare_problems(fname, results, p.op).items()):
                    violate('%s:%s' % (base, k), '%s: %s' % (base, m))
                inst, dp = digit_compare_problems(fname, body)
                for k in inst:
                    r.inst('%s:%s' % (base, k), sample='%s: %s' % (base, k))
                for k, m in sorted(dp.items()):
                    violate('%s:%s' % (base, k), '%s: %s' % (base, m))
    more = {k: n for k, n in reported.items() if n > 1}
    if more:
        r.info('deviations also found for further operator/order instantiations: %s' % ', '.join('%s (%d)' % kv for kv in sorted(more.items())))
    # positive control: a subtraction with the operands bound the other way round
    from . import pC15 as X
    pc = '{ const long a = intval; long b; const digit* digits = __Pyx_PyLong_Digits(op1); b = (long) digits[0]; if (!__Pyx_PyLong_IsPos(op1)) b *= -1; { long x; x = a - b; return PyLong_FromLong(x); } }'
    w = FastWalk('pc', ['op1', 'op2', 'intval'], X.parse_c_function_body(pc), 'Subtract', 'ObjC', 1, None)
    w.run()
    pc2 = '{ long a; const long b = intval; const digit* digits = __Pyx_PyLong_Digits(op1); a = (long) digits[0]; if (__Pyx_PyLong_IsPos(op1)) a *= -1; { long x; x = a - b; return PyLong_FromLong(x); } }'
    w2 = FastWalk('pc2', ['op1', 'op2', 'intval'], X.parse_c_function_body(pc2), 'Subtract', 'ObjC', 1, None)
    w2.run()
    r.positive_control('oper:operands' in w.problems and 'oper:sign' in w2.problems, 'exchanged operands of a subtraction and a sign applied to positive objects are reported')
    return r


# ================================================================================================================= C02-ORDER
# Python side <-> template: optimise_numeric_binop reports `order` ('CObj' / 'ObjC') and the consumers pass (arg0, arg1) as (op1, op2).  The template of
# that order unpacks ONE of op1 / op2 as the variable operand (the argument of Py{Long,Float}_CheckExact in the entry function).  On every path of the
# decision function the constant is arg0 or arg1; the operand the template unpacks must be the OTHER one.
class _Role(P.Obj):
    pass


def decider_order_paths(fn, fvar, op, is_float, ret_obj):
    """-> [(index of the parameter (0: arg0, 1: arg1) that is the constant, order string)] for the paths that select a fast path"""
    ps = [a.arg for a in fn.args.args]
    p_op, p_ret = ps[0], ps[2]
    # the local that holds the constant: its .value feeds the first extra argument
    const_name = None
    for s in walk_no_nested(fn):
        if isinstance(s, ast.Call) and isinstance(s.func, ast.Attribute) and s.func.attr == 'append' and s.args and isinstance(s.args[0], ast.Call):
            for k in s.args[0].keywords:
                if k.arg == 'value' and isinstance(k.value, ast.Attribute) and isinstance(k.value.value, ast.Name):
                    const_name = const_name or k.value.value.id
    if const_name is None:
        raise AnalysisError('%s: the local holding the constant operand (value=<x>.value of the first extra argument) was not found' % fn.name)

    def on_stmt(s, ev, events):
        if isinstance(s, ast.Assign) and isinstance(s.value, ast.Call):
            for k in s.value.keywords:
                if k.arg == 'context':
                    d = None
                    if isinstance(k.value, ast.Call) and isinstance(k.value.func, ast.Name) and k.value.func.id == 'dict':
                        d = {kk.arg: kk.value for kk in k.value.keywords}
                    elif isinstance(k.value, ast.Dict):
                        d = {tables.literal(kk): vv for kk, vv in zip(k.value.keys, k.value.values)}
                    if d and 'order' in d:
                        try:
                            events.append(('order', ev.ev(d['order'])))
                        except P.Unknown:
                            events.append(('order', None))
    env0 = {p: P.UNKNOWN for p in ps}
    env0[p_op] = op
    env0[p_ret] = P.Obj(is_pyobject=ret_obj)
    env0[ps[3]] = _Role(_index=0)
    env0[ps[4]] = _Role(_index=1)
    env0[fvar] = is_float
    env0['__fixed__'] = (fvar,)
    out = []
    for res in P.enumerate_paths(fn, env0, on_stmt):
        r = res.returned
        if r is None or r[0] != 'return' or r[1] is None or (isinstance(r[1], ast.Constant) and r[1].value is None):
            continue
        orders = [e[1] for e in res.events if e[0] == 'order']
        c = res.env.get(const_name)
        if len(orders) != 1 or orders[0] is None or not isinstance(c, _Role):
            raise AnalysisError('%s: operand order / constant operand of a fast path is not decided on some path' % fn.name)
        out.append((c._index, orders[0]))
    return out


def rule_order(ctx, fn, fvar, points, trees, floor=68):
    r = Rule('C02-ORDER', 'operand order: on every path of optimise_numeric_binop the constant is arg0 or arg1; the template instantiated for the reported order '
             'unpacks (type-tests) the OTHER operand as the variable one', floor)
    done = set()
    reported = set()       # one finding per (section, constant position, order): the same decision is taken for every operator
    for p in points:
        k0 = (p.section, p.op, p.is_float, p.ret_obj)
        if k0 in done:
            continue
        done.add(k0)
        paths = decider_order_paths(fn, fvar, p.op, p.is_float, p.ret_obj)
        for cidx, order in sorted(set(paths)):
            key = '%s(op=%s,ret=%s):const=arg%d:order=%s' % (p.section, p.op, 'object' if p.ret_obj else 'bint', cidx, order)
            ctxd = dict(p.context)
            ctxd['order'] = order
            try:
                text = strip_c_comments(P.tpl_expand(trees[(p.section, 'impl')], ctxd))
            except (P.Unknown, AnalysisError) as e:
                raise AnalysisError('C02-ORDER: template %s cannot be expanded for order %r: %s' % (p.section, order, e))
            funcs = c_functions(text)
            tested = set()
            for name, (params, b0, b1) in funcs.items():
                if name.startswith('__Pyx_Py') and not name.startswith('__Pyx_Fallback'):
                    tested |= set(re.findall(r'\bPy(?:Long|Float)_CheckExact\(\s*(op[12])\s*\)', text[b0:b1 + 1]))
            r.inst(key, sample='%s: the template unpacks %s' % (key, sorted(tested)))
            want = 'op2' if cidx == 0 else 'op1'
            if not tested:
                r.info('%s: no Py*_CheckExact(opN) in the expansion' % key)
                continue
            gen = (p.section, cidx, order)
            if tested != {want} and gen not in reported:
                reported.add(gen)
                r.violate(key, REL_OPT, fn.lineno,
                          '%s: when the constant is the %s operand (arg%d) %s selects order %r, whose template unpacks %s as the variable operand - that is the constant: '
                          '`x - c` is computed as `c - x` (or the constant object is unpacked instead of x)' % (
                              p.section, 'first' if cidx == 0 else 'second', cidx, fn.name, order, ' / '.join(sorted(tested))))
    pc_fn = ast.parse(
        "def f(operator, node, ret_type, arg0, arg1):\n"
        "    is_float = isinstance(arg0, ExprNodes.FloatNode)\n"
        "    if isinstance(arg1, X):\n"
        "        numval = arg1\n        arg_order = 'CObj'\n"
        "    else:\n        numval = arg0\n        arg_order = 'ObjC'\n"
        "    extra_args = []\n"
        "    extra_args.append(B(numval.pos, value=numval.value))\n"
        "    u = load_cached('a', 'b', context=dict(op=operator, order=arg_order))\n"
        "    c = 'n'\n    t = 1\n"
        "    return c, u, extra_args, t\n").body[0]
    got = set(decider_order_paths(pc_fn, 'is_float', 'Add', False, True))
    r.positive_control(got == {(1, 'CObj'), (0, 'ObjC')}, 'a decision function that reports CObj for a constant second operand is seen as such')
    return r


# ================================================================================================================= C02-JOIN
# Cython/Utility/__init__.py pylong_join(count, digits_ptr, join_type) builds the C expression that assembles a C integer from PyLong digits.  The
# function is a pure string builder: it is folded with the checker's evaluator for count = 1..4 (table extraction by constant folding) and the
# resulting C expression is decided structurally: digit i is shifted left by exactly i * PyLong_SHIFT, every digit 0..count-1 occurs once, the
# parts are combined with | only.
def rule_join(ctx, floor=4):
    from ..engine import cexpr
    r = Rule('C02-JOIN', 'pylong_join(count, ...) (folded for count 1..4): in the generated C expression digit i is shifted left by i * PyLong_SHIFT, each digit of 0..count-1 '
             'occurs exactly once, parts are joined with |', floor)
    rel = 'Cython/Utility/__init__.py'
    tree = ctx.parse(rel)
    fn = tables.find_function(tree, 'pylong_join')
    if fn is None:
        raise AnalysisError('%s: pylong_join not found' % rel)

    def fold(count):
        params = [a.arg for a in fn.args.args]
        env = {}
        for p_, d in zip(params[len(params) - len(fn.args.defaults):], fn.args.defaults):
            env[p_] = P.Ev({}).ev(d)
        env[params[0]] = count
        ev = P.Ev(env)
        for s in fn.body:
            if isinstance(s, ast.Expr) and isinstance(s.value, ast.Constant):
                continue
            if isinstance(s, ast.Return):
                return ev.ev(s.value)
            if isinstance(s, ast.Assign) and len(s.targets) == 1 and isinstance(s.targets[0], ast.Name):
                env[s.targets[0].id] = ev.ev(s.value)
                continue
            raise AnalysisError('pylong_join: statement kind %s is outside the folded subset' % type(s).__name__)
        raise AnalysisError('pylong_join has no return')

    def shifts(text, count):
        """-> {digit index: shift count in units of PyLong_SHIFT} or a problem string"""
        t = re.sub(r'\(\s*(?:unsigned\s+)?(?:long|PY_LONG_LONG|unsigned)(?:\s+long)?\s*\)', '', text)      # casts
        t = t.replace('PyLong_SHIFT', 'SHIFTUNIT')
        try:
            e = cexpr.parse(t)
        except cexpr.ParseError as ex:
            return 'the generated expression `%s` cannot be parsed (%s)' % (text[:80], ex)
        found = {}

        def rec(x, sh):
            k = x[0]
            if k == 'bin' and x[1] == '|':
                return rec(x[2], sh) or rec(x[3], sh)
            if k == 'bin' and x[1] == '<<':
                r_ = x[3]
                if r_ == ('id', 'SHIFTUNIT'):
                    n = 1
                elif r_[0] == 'bin' and r_[1] == '*' and ('id', 'SHIFTUNIT') in (r_[2], r_[3]):
                    o = r_[3] if r_[2] == ('id', 'SHIFTUNIT') else r_[2]
                    if o[0] != 'num':
                        return 'shift by a non-constant multiple of PyLong_SHIFT'
                    n = o[1]
                elif r_[0] == 'tern':
                    # `<< (n * PyLong_SHIFT < 8 * sizeof(T) ? n * PyLong_SHIFT : 0)`: the guarded form, same shift where it matters
                    return rec(('bin', '<<', x[2], r_[2]), sh)
                else:
                    return 'shift by something other than a multiple of PyLong_SHIFT'
                return rec(x[2], sh + n)
            if k == 'cast':
                return rec(x[2], sh)
            if k == 'idx' or (k == 'call'):
                return 'unexpected call/index form'
            if k == 'id':
                m = re.fullmatch(r'DIGIT(\d+)', x[1])
                if not m:
                    return 'unexpected operand %s' % x[1]
                i = int(m.group(1))
                if i in found:
                    return 'digit %d occurs twice' % i
                found[i] = sh
                return None
            return 'unexpected operator %s' % (x[1] if len(x) > 1 else k)
        t2 = re.sub(r'\b\w+\s*\[\s*(\d+)\s*\]', lambda m: 'DIGIT' + m.group(1), t)
        try:
            e = cexpr.parse(t2)
        except cexpr.ParseError as ex:
            return 'the generated expression `%s` cannot be parsed (%s)' % (text[:80], ex)
        pr = rec(e, 0)
        if pr:
            return pr
        return found
    bad_seen = False
    for count in (1, 2, 3, 4):
        key = 'pylong_join(%d)' % count
        try:
            text = fold(count)
        except P.Unknown as e:
            raise AnalysisError('pylong_join(%d) cannot be folded: %s' % (count, e))
        if not isinstance(text, str):
            raise AnalysisError('pylong_join(%d) does not fold to a string' % count)
        r.inst(key, sample='%s = %s' % (key, text[:100]))
        res = shifts(text, count)
        if isinstance(res, str):
            r.violate(key, rel, fn.lineno, '%s: %s' % (key, res))
        elif res != {i: i for i in range(count)}:
            r.violate(key, rel, fn.lineno, '%s generates `%s`: digit -> shift (in units of PyLong_SHIFT) is %s, required %s - the integer is assembled from its digits in the '
                      'wrong positions' % (key, text[:120], res, {i: i for i in range(count)}))
    pc = shifts('(((((unsigned long)digits[0]) << PyLong_SHIFT) | (unsigned long)digits[1]))', 2)
    r.positive_control(pc == {0: 1, 1: 0}, 'a join with the digits in ascending shift order is seen as digit 0 shifted by 1')
    return r


# ================================================================================================================= C02-MANT
# Integers are converted to double / divided as doubles in the fast paths only where that is exact: |x| <= 2**53 (DBL_MANT_DIG = 53, IEEE 754 binary64;
# reference: sys.float_info.mant_dig of the interpreter).  Every power-of-two bound `1 << K` (and every `N * PyLong_SHIFT < K` digit bound) that guards such
# a conversion in the TrueDivide / float templates must not exceed the mantissa width.
def rule_mant(ctx, points, trees, floor=110):
    import sys
    mant = sys.float_info.mant_dig
    r = Rule('C02-MANT', 'exactness guards of the int -> double fast paths (PyLongBinop TrueDivide, PyFloatBinop): every `1 << K` / `N * PyLong_SHIFT < K` bound has K <= %d '
             '(the mantissa width of a double)' % mant, floor)
    done = set()
    _viol = r.violate
    seen_gen = set()

    def violate(key, *a, **k):
        gen = re.sub(r'\(op=\w+,order=\w+\)', '', key)
        if gen not in seen_gen:
            seen_gen.add(gen)
            _viol(key, *a, **k)
    r.violate = violate
    for p in points:
        if not (p.section == 'PyFloatBinop' or p.op == 'TrueDivide'):
            continue
        k0 = (p.section, p.op, p.order)
        if k0 in done:
            continue
        done.add(k0)
        text = strip_c_comments(P.tpl_expand(trees[(p.section, 'impl')], dict(p.context)))
        base = '%s(op=%s,order=%s)' % (p.section, p.op, p.order)
        for m in re.finditer(r'\(\s*(?:PY_LONG_LONG|long long|long|unsigned long)\s*\)\s*1\s*<<\s*(\d+)', text):
            k = int(m.group(1))
            key = '%s:1<<%d' % (base, k)
            r.inst(key, sample=key)
            if k > mant:
                r.violate(key, REL_C, 0, '%s converts integers up to 2**%d to double in the fast path; a double holds %d bits exactly: the result is rounded differently from '
                          'CPython\'s exact int/float arithmetic' % (base, k, mant))
        for m in re.finditer(r'PyLong_SHIFT\s*(<|<=)\s*(\d+)', text):
            k = int(m.group(2)) + (1 if m.group(1) == '<=' else 0)
            key = '%s:SHIFT<%d' % (base, k)
            r.inst(key, sample=key)
            if k > mant:
                r.violate(key, REL_C, 0, '%s admits digit counts with more than %d bits for the double fast path (bound %d)' % (base, mant, k))
        for m in re.finditer(r'(<=?)\s*(\d+)\s*/\s*PyLong_SHIFT', text):
            k = int(m.group(2)) + 1
            key = '%s:digits<=%d/SHIFT' % (base, k - 1)
            r.inst(key, sample=key)
            if k > mant:
                r.violate(key, REL_C, 0, '%s admits more than %d bits of digits for the double fast path (`%s %s / PyLong_SHIFT`)' % (base, mant, m.group(1), m.group(2)))
    r.positive_control(mant == 53, 'the reference mantissa width is 53')
    return r


# ================================================================================================================= C02-INPL
def rule_inplace_flag(ctx, fn, fvar, points, floor=30):
    """the `inplace` extra argument: true exactly when the operation node is an in-place operation"""
    r = Rule('C02-INPL', 'the in-place flag passed to the fast path equals the `inplace` attribute of the operation node (false for a plain binary operation, true for an '
             'augmented assignment; false for comparison nodes)', floor)
    ix = ctx.index
    exn = ix.mod('ExprNodes')
    tab = tables.module_assign(exn.tree, 'binop_node_classes')
    classes = {}
    for k, v in zip(tab.keys, tab.values):
        if isinstance(k, ast.Constant) and isinstance(v, ast.Name):
            classes[v.id] = ix.cls('ExprNodes', v.id)
    cmp_cls = ix.cls('ExprNodes', 'PrimaryCmpNode')
    sym_class = {}
    for k, v in zip(tab.keys, tab.values):
        if isinstance(k, ast.Constant) and isinstance(v, ast.Name):
            sym_class[k.value] = (v.id, classes[v.id])
    op_symbol = {'Add': '+', 'Subtract': '-', 'Multiply': '*', 'Remainder': '%', 'TrueDivide': '/', 'FloorDivide': '//', 'Divide': '/', 'Or': '|', 'Xor': '^',
                 'And': '&', 'Rshift': '>>', 'Lshift': '<<'}
    done = set()
    reported = set()
    for p in points:
        k0 = (p.op, p.is_float, p.ret_obj)
        if k0 in done:
            continue
        done.add(k0)
        if p.op in ('Eq', 'Ne'):
            cands = [('PrimaryCmpNode', cmp_cls)]
        elif op_symbol.get(p.op) in sym_class:
            cands = [sym_class[op_symbol[p.op]]]
        else:
            r.info('operator %s has no node class in binop_node_classes' % p.op)
            continue
        for cname, cls in cands:
            is_cmp = cls is cmp_cls
            for want in ((False, True) if not is_cmp else (False,)):
                st = node_default_state(ix, cls)
                if 'inplace' not in st and not is_cmp:
                    continue
                if not is_cmp:
                    st['inplace'] = want
                try:
                    paths = flag_values(ix, fn, fvar, p.op, p.is_float, p.ret_obj, cls, st)
                except AnalysisError:
                    raise
                key = 'inplace:%s:%s:%s' % (p.op, 'float' if p.is_float else 'int', cname) + (':aug' if want else '')
                if key in done:
                    continue
                done.add(key)
                vals = {repr(v[1][1]) if len(v[1]) > 1 else 'missing' for v in paths}
                r.inst(key, sample='%s -> in-place argument %s' % (key, sorted(vals)), nontrivial=bool(paths))
                for order, extra in paths:
                    if len(extra) < 2 or extra[1] is P.UNKNOWN:
                        continue
                    if bool(extra[1]) != bool(want) and (p.is_float, want, is_cmp) not in reported:
                        reported.add((p.is_float, want, is_cmp))
                        r.violate(key, REL_OPT, fn.lineno, '%s passes inplace=%r for a %s whose inplace attribute is %r: %s' % (
                            fn.name, extra[1], cname, want,
                            'a plain `x %s c` calls the in-place slot of an arbitrary object (nb_inplace_*), mutating x' % p.op if not want
                            else 'an augmented assignment on a mutable object does not use its __i*__ method'))
                        break
    return r
