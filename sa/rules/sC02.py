"""C02-ZDIV: `constant / x`, `constant // x`, `constant % x` raise ZeroDivisionError for x == 0 — flag writer / flag reader agreement.

The fast paths PyLongBinop / PyFloatBinop divide in C.  When the Python object is the divisor (order CObj) the template raises
ZeroDivisionError itself, but only under a run-time flag that Optimize.optimise_numeric_binop passes as one of the extra arguments.
Decided here, for every reachable (operator, int/float constant, return kind) point with order CObj whose Python operator raises
ZeroDivisionError for a zero right operand (reference: the running interpreter):

 (Z2) the expanded template contains a `PyExc_ZeroDivisionError` raise reachable from the entry function; the parameters its
      guards mention are traced (through the forwarding calls) to a parameter index of the entry function;
 (Z1) the extra argument that optimise_numeric_binop passes at that index is TRUE for the operator's own node class in its default
      attribute state.  The default state is the class-level attribute table of the node class (ExprNodes.binop_node_classes),
      corrected by a writer analysis: writers that only run for C result types (guarded by `not self.type.is_pyobject`) cannot have
      run for an object operation, an unguarded writer in the class overrides the default, every other writer is conditional on a
      program feature (cdiv(), C++ operands) and leaves the default reachable.

The flag expression is evaluated by the checker's whitelisted evaluator on that finite state, never by running repository code.
"""
import ast, operator as _operator, re

from ..core import Rule, AnalysisError
from ..engine import tables
from ..engine.cutil import Catalogue, strip_c_comments, match_paren, split_args
from ..engine.cguard import guards, _match_brace
from ..engine.pyindex import walk_no_nested
from . import pC02 as P

REL_OPT = 'Cython/Compiler/Optimize.py'
REL_C = 'Cython/Utility/Optimize.c'
_PY_OPS = {'/': _operator.truediv, '//': _operator.floordiv, '%': _operator.mod, '+': _operator.add, '-': _operator.sub, '*': _operator.mul,
           '**': _operator.pow, '<<': _operator.lshift, '>>': _operator.rshift, '&': _operator.and_, '|': _operator.or_, '^': _operator.xor}


def zero_division_symbols():
    """binary operator symbols for which Python raises ZeroDivisionError when the RIGHT operand is zero (int and float)"""
    out = set()
    for sym, f in _PY_OPS.items():
        for a, b in ((1, 0), (1.5, 0.0)):
            try:
                f(a, b)
            except ZeroDivisionError:
                out.add(sym)
            except Exception:
                pass
    return out


# ---------------------------------------------------------------------------------------------------------------- C side
_KW = {'if', 'while', 'for', 'switch', 'return', 'sizeof', 'else', 'do'}
_FUNC_HEAD = re.compile(r'^(?![ \t]*(?:#|return\b|if\b|else\b|while\b|for\b|switch\b|case\b|goto\b|typedef\b|do\b))'
                        r'([A-Za-z_][^\n;=(){}#]*?[\s\*])([A-Za-z_]\w*)\s*\(', re.M)


def c_functions(text):
    """function definitions of (comment-free) C text -> {name: (params, offset of '{', offset of '}')}"""
    out = {}
    for m in _FUNC_HEAD.finditer(text):
        name = m.group(2)
        if name in _KW:
            continue
        lp = m.end() - 1
        rp = match_paren(text, lp)
        if rp < 0:
            continue
        t = re.match(r'\s*\{', text[rp + 1:rp + 40])
        if not t:
            continue
        b0 = rp + 1 + t.end() - 1
        b1 = _match_brace(text, b0)
        out[name] = (split_args(' '.join(text[lp + 1:rp].split())), b0, b1)
    return out


def _pname(p):
    m = re.search(r'([A-Za-z_]\w*)\s*$', p)
    return m.group(1) if m else None


def _flag_conjuncts(cond, branch=True):
    """identifiers whose truth value is implied when `cond` evaluates to `branch` (bare-identifier conjuncts of a true &&-chain, disjuncts of a
    false ||-chain) -> [(name, implied truth)]; None: unparsable"""
    from ..engine import cexpr
    t = re.sub(r'\b(\d+)\.\d*(?:[eE][-+]?\d+)?[fFlL]?\b', r'\1', cond)
    t = re.sub(r'(?<![\w.])\.(\d+)', r'\1', t)
    try:
        e = cexpr.parse(t)
    except cexpr.ParseError:
        return None
    out = []

    def strip(x):
        while True:
            if x[0] == 'call' and x[1] in ('likely', 'unlikely') and len(x[2]) == 1:
                x = x[2][0]
            elif x[0] == 'cast':
                x = x[2]
            else:
                return x

    def rec(x, positive):
        x = strip(x)
        if x[0] == 'bin' and x[1] == '&&' and positive:
            rec(x[2], positive)
            rec(x[3], positive)
        elif x[0] == 'bin' and x[1] == '||' and not positive:
            rec(x[2], positive)
            rec(x[3], positive)
        elif x[0] == 'un' and x[1] == '!':
            rec(x[2], not positive)
        elif x[0] == 'id':
            out.append((x[1], positive))
    rec(e, bool(branch))
    return out


def raise_sites(text, entry, exc='PyExc_ZeroDivisionError'):
    """-> (sites, problems); sites = [(function name, guard text, entry parameter indices the guard depends on)]"""
    funcs = c_functions(text)
    if entry not in funcs:
        return None, ['entry function %s is not defined by the expanded template' % entry]
    # forwarding map: callee -> [(caller, [argument texts])]
    calls = {}
    for caller, (params, b0, b1) in funcs.items():
        body = text[b0:b1 + 1]
        for callee in funcs:
            if callee == caller:
                continue
            for m in re.finditer(r'\b%s\s*\(' % re.escape(callee), body):
                q = match_paren(body, m.end() - 1)
                calls.setdefault(callee, []).append((caller, split_args(body[m.end():q])))

    def to_entry(fname, idx, depth=0):
        """parameter idx of fname -> set of entry parameter indices it is fed from (None: not traceable)"""
        if fname == entry:
            return {idx}
        if depth > 4 or fname not in calls:
            return None
        res = set()
        for caller, args in calls[fname]:
            if idx >= len(args):
                return None
            a = args[idx].strip()
            cparams = [_pname(p) for p in funcs[caller][0]]
            if a not in cparams:
                return None
            sub = to_entry(caller, cparams.index(a), depth + 1)
            if sub is None:
                return None
            res |= sub
        return res

    sites, problems = [], []
    for m in re.finditer(r'\b%s\b' % exc, text):
        owner = [(n, f) for n, f in funcs.items() if f[1] < m.start() <= f[2]]
        if not owner:
            problems.append('a %s raise outside any function' % exc)
            continue
        fname, (params, b0, b1) = owner[0]
        if fname != entry and to_entry(fname, 0) is None and fname not in calls:
            continue        # a function the entry never calls
        g = guards(text[b0:b1 + 1], m.start() - b0)
        pnames = [_pname(p) for p in params]
        deps = set()
        gtxt = []
        for cond, pol in g:
            flags = _flag_conjuncts(cond, pol)
            if flags is None:
                problems.append('%s: guard `%s` of a %s raise cannot be parsed' % (fname, cond, exc))
                continue
            hit = [(nm, positive) for nm, positive in flags if nm in pnames and '*' not in params[pnames.index(nm)]]
            if not hit:
                continue
            gtxt.append(('' if pol else '!') + cond)
            for nm, positive in hit:
                if not positive:
                    problems.append('%s raises %s when its parameter %s is FALSE (guard `%s`)' % (fname, exc, nm, cond))
                    continue
                e = to_entry(fname, pnames.index(nm))
                if e is None:
                    problems.append('parameter %s of %s, which guards the raise, is not fed from a parameter of %s' % (nm, fname, entry))
                else:
                    deps |= e
        sites.append((fname, ' && '.join(gtxt), deps))
    return sites, problems


# ---------------------------------------------------------------------------------------------------------------- Python side
def node_default_state(ix, cls):
    """class-level constant attributes of a node class (MRO order) -> {attr: value}"""
    st = {}
    for c in reversed(ix.mro(cls)):
        for a, v in c.attrs.items():
            if isinstance(v, ast.Constant):
                st[a] = v.value
            elif a in st:
                del st[a]
    return st


def _guard_kind(ancestors_tests):
    """'c-only' when some enclosing test implies the node's type is not a Python object, 'object' when it implies it is, else 'feature'
    (None for unguarded)."""
    if not ancestors_tests:
        return None
    kind = 'feature'
    for test, branch in ancestors_tests:
        conj = test.values if isinstance(test, ast.BoolOp) and isinstance(test.op, ast.And) and branch else [test]
        for t in conj:
            neg = not branch
            while isinstance(t, ast.UnaryOp) and isinstance(t.op, ast.Not):
                neg, t = not neg, t.operand
            txt = P._txt(t)
            if re.fullmatch(r'self\.type\.is_pyobject', txt):
                return 'c-only' if neg else 'object'
    return kind


def attribute_writers(ix, cls, attr):
    """assignments `self.attr = e` in the methods of cls, its bases and subclasses -> [(class, method, guard kind, value node)]"""
    out = []
    seen = set()
    family = list(ix.mro(cls)) + list(ix.subclasses(cls))
    for c in family:
        if id(c) in seen:
            continue
        seen.add(id(c))
        for mname, fn in c.methods.items():
            def rec(stmts, tests):
                for s in stmts:
                    if isinstance(s, ast.If):
                        rec(s.body, tests + [(s.test, True)])
                        rec(s.orelse, tests + [(s.test, False)])
                    elif isinstance(s, (ast.For, ast.While, ast.With, ast.Try)):
                        for blk in ('body', 'orelse', 'finalbody'):
                            rec(getattr(s, blk, []) or [], tests + [(ast.Constant(value='loop-or-try'), True)])
                        for h in getattr(s, 'handlers', []):
                            rec(h.body, tests + [(ast.Constant(value='except'), True)])
                    elif isinstance(s, (ast.Assign, ast.AugAssign, ast.AnnAssign)):
                        tg = s.targets if isinstance(s, ast.Assign) else [s.target]
                        for t in tg:
                            for x in ast.walk(t):
                                if isinstance(x, ast.Attribute) and x.attr == attr and isinstance(x.value, ast.Name) and x.value.id == 'self':
                                    out.append((c, mname, _guard_kind(tests), getattr(s, 'value', None)))
            rec(fn.body, [])
    return out


def effective_state(ix, cls, attrs_read, rule=None):
    """default attribute state of an object-typed operation node of class cls, for the attributes the decision reads.
    -> (state, notes); an attribute whose value cannot be decided is left out (reading it makes the evaluation Unknown)."""
    st = node_default_state(ix, cls)
    notes = []
    for a in sorted(attrs_read):
        if a not in st:
            continue            # no class-level default: not part of the modelled state (reading it is Unknown)
        ws = attribute_writers(ix, cls, a)
        for c, mname, kind, val in ws:
            if kind == 'c-only':
                notes.append('%s.%s writes %s only for C result types' % (c.name, mname, a))
            elif kind in (None, 'object') and (mname.startswith('analyse') or mname.startswith('infer') or mname == '__init__'):
                if isinstance(val, ast.Constant):
                    st[a] = val.value
                    notes.append('%s.%s always sets %s = %r' % (c.name, mname, a, val.value))
                else:
                    st.pop(a, None)
                    notes.append('%s.%s sets %s to a computed value (not decided)' % (c.name, mname, a))
            else:
                notes.append('%s.%s sets %s conditionally' % (c.name, mname, a))
    return st, notes


class NodeObj(P.Obj):
    pass


def flag_values(ix, fn, fvar, op, is_float, ret_obj, node_cls, state):
    """paths of the decision function for one domain point and node state -> [(order, [values of the keyword `value` of each
    appended extra argument, in order])] for the paths that select a fast path"""
    ps = [a.arg for a in fn.args.args]
    p_op, p_node, p_ret = ps[0], ps[1], ps[2]
    node = NodeObj(**state)
    mro_names = {c.name for c in ix.mro(node_cls)}

    def isinst(v, t):
        ts = t if isinstance(t, tuple) else (t,)
        if isinstance(v, NodeObj) and all(isinstance(x, P.Sym) for x in ts):
            return any(x.name.split('.')[-1] in mro_names for x in ts)
        raise P.Unknown('isinstance')

    def on_stmt(s, ev, events):
        if isinstance(s, ast.Expr) and isinstance(s.value, ast.Call) and isinstance(s.value.func, ast.Attribute) \
                and s.value.func.attr == 'append' and isinstance(s.value.func.value, ast.Name) and len(s.value.args) == 1:
            a = s.value.args[0]
            val = P.UNKNOWN
            if isinstance(a, ast.Call):
                for k in a.keywords:
                    if k.arg == 'value':
                        try:
                            val = ev.ev(k.value)
                        except P.Unknown:
                            val = P.UNKNOWN
            events.append(('append', s.value.func.value.id, val))
        elif isinstance(s, ast.Assign) and isinstance(s.value, ast.Call):
            for k in s.value.keywords:
                if k.arg == 'context':
                    d = None
                    if isinstance(k.value, ast.Call) and isinstance(k.value.func, ast.Name) and k.value.func.id == 'dict':
                        d = {kk.arg: kk.value for kk in k.value.keywords}
                    elif isinstance(k.value, ast.Dict):
                        d = {tables.literal(kk): vv for kk, vv in zip(k.value.keys, k.value.values)}
                    if d and 'order' in d:
                        try:
                            events.append(('order', ev.ev(d['order'])))
                        except P.Unknown:
                            events.append(('order', None))

    env0 = {p: P.UNKNOWN for p in ps}
    env0[p_op] = op
    env0[p_node] = node
    env0[p_ret] = P.Obj(is_pyobject=ret_obj)
    env0[fvar] = is_float
    env0['__fixed__'] = (fvar,)
    env0['isinstance'] = isinst
    out = []
    for res in P.enumerate_paths(fn, env0, on_stmt):
        r = res.returned
        if r is None or r[0] != 'return' or r[1] is None or (isinstance(r[1], ast.Constant) and r[1].value is None):
            continue
        val = r[1]
        if not (isinstance(val, ast.Tuple) and len(val.elts) == 4 and isinstance(val.elts[2], ast.Name)):
            raise AnalysisError('%s no longer returns (cname, utility_code, extra_args, num_type)' % fn.name)
        lst = val.elts[2].id
        orders = [e[1] for e in res.events if e[0] == 'order']
        if len(orders) != 1 or orders[0] is None:
            raise AnalysisError('%s: the operand order of a fast path is not decided' % fn.name)
        out.append((orders[0], [e[2] for e in res.events if e[0] == 'append' and e[1] == lst]))
    return out


def rule_zdiv(ctx, fn, fvar, points, trees, cop, capi_dunder, floor=20):
    r = Rule('C02-ZDIV', 'constant / x, constant // x, constant % x: the expanded template raises ZeroDivisionError for a zero object divisor, and the '
                         'run-time flag that guards the raise is passed as TRUE by optimise_numeric_binop for the operator\'s node class in its default '
                         '(Python object) attribute state', floor)
    ix = ctx.index
    zsyms = zero_division_symbols()
    if not {'/', '//', '%'} <= zsyms:
        raise AnalysisError('reference: the interpreter does not raise ZeroDivisionError for / // %%: %r' % sorted(zsyms))
    exn = ix.mod('ExprNodes')
    tab = tables.module_assign(exn.tree, 'binop_node_classes')
    if not isinstance(tab, ast.Dict):
        raise AnalysisError('ExprNodes.binop_node_classes is no longer a dict literal')
    sym_class = {}
    for k, v in zip(tab.keys, tab.values):
        if isinstance(k, ast.Constant) and isinstance(v, ast.Name):
            sym_class[k.value] = ix.cls('ExprNodes', v.id)
    ps = [a.arg for a in fn.args.args]
    p_node = ps[1]
    attrs_read = {x.attr for x in walk_no_nested(fn) if isinstance(x, ast.Attribute) and isinstance(x.value, ast.Name) and x.value.id == p_node}
    done = set()
    for p in points:
        if p.order != 'CObj':
            continue
        dunder = capi_dunder(ctx, p.op)
        syms = sorted(s for s in zsyms if P.dunder_of_symbol(s) == dunder)
        if not syms:
            continue
        k0 = (p.section, p.op, p.ret_obj)
        if k0 in done:
            continue
        done.add(k0)
        base = 'zdiv:%s' % p.key()
        # ---- C side
        text = strip_c_comments(P.tpl_expand(trees[(p.section, 'impl')], dict(p.context)))
        sites, problems = raise_sites(text, p.cname)
        r.inst(base + ':raise', sample='%s: %d ZeroDivisionError sites %s' % (base, len(sites or ()), sorted({s[1] for s in sites or ()})[:2]))
        classes = []
        for sym in syms:
            cls = sym_class.get(sym)
            if cls is None:
                raise AnalysisError('binop_node_classes has no class for %r' % sym)
            classes.append((sym, cls))
        flag_idx = set()
        for fname, gtxt, deps in sites or ():
            flag_idx |= deps
        decidable = bool(sites) and bool(flag_idx)
        if not decidable:
            for sym, cls in classes:
                r.inst('%s:flag:%s' % (base, cls.name), nontrivial=False)
        if sites is None:
            r.info('%s: %s (reported by C02-P3)' % (base, problems[0]))
            continue
        for pr in sorted(set(problems)):
            r.violate(base + ':raise', REL_C, 0, '%s: %s' % (p.cname, pr))
        if not sites:
            r.violate(base + ':raise', REL_C, 0,
                      '%s (the Python object is the divisor of `c %s x`) contains no ZeroDivisionError raise: a zero divisor is divided by in C '
                      '(inf / nan / SIGFPE instead of the exception)' % (p.cname, syms[0]))
            continue
        if not flag_idx:
            continue                    # unconditional checks: nothing to pass
        # ---- Python side
        for sym, cls in classes:
            state, notes = effective_state(ix, cls, attrs_read)
            key = '%s:flag:%s' % (base, cls.name)
            paths = [pv for pv in flag_values(ix, fn, fvar, p.op, p.is_float, p.ret_obj, cls, state) if pv[0] == 'CObj']
            r.inst(key, sample='%s: parameter(s) %s of %s guard the raise; %d CObj paths; state %s' % (
                key, sorted(flag_idx), p.cname, len(paths), {a: state.get(a, '?') for a in sorted(attrs_read) if a in state}))
            if not paths:
                raise AnalysisError('%s: no CObj path found again for %s' % (fn.name, p.key()))
            reported = set()
            for order, vals in paths:
                for i in sorted(flag_idx):
                    k = i - 2
                    if k < 0 or k >= len(vals):
                        r.violate(key, REL_OPT, fn.lineno, '%s: the raise is guarded by parameter %d of %s but only %d extra arguments are passed' % (
                            fn.name, i + 1, p.cname, len(vals)))
                        continue
                    v = vals[k]
                    if v is P.UNKNOWN:
                        r.info('%s: the value passed for parameter %d is not decided by the modelled state (%s)' % (key, i + 1, '; '.join(notes)))
                        continue
                    if not v and (i, repr(v)) not in reported:
                        reported.add((i, repr(v)))
                        r.violate(key, REL_OPT, fn.lineno,
                                  '%s passes %r as argument %d of %s for a %s in its default state (%s): the template only raises ZeroDivisionError when '
                                  'that flag is true, so `c %s x` with x == 0 divides in C (inf / nan / garbage instead of ZeroDivisionError)'
                                  % (fn.name, v, i + 1, p.cname, cls.name,
                                     ', '.join('%s=%r' % (a, state[a]) for a in sorted(attrs_read) if a in state) + ('; ' + '; '.join(notes) if notes else ''), sym))
    # positive control: a flag read from an attribute that is only written for C types
    pc_fn = ast.parse(
        "def f(operator, node, ret_type, arg0, arg1):\n"
        "    is_float = isinstance(arg0, X)\n"
        "    extra_args = []\n"
        "    extra_args.append(B(node.pos, value=1))\n"
        "    extra_args.append(B(node.pos, value=bool(node.zerodivision_check if isinstance(node, ExprNodes.DivNode) else False)))\n"
        "    u = load_cached('a', 'b', context=dict(op=operator, order='CObj'))\n"
        "    c = 'n'\n"
        "    t = 1\n"
        "    return c, u, extra_args, t\n").body[0]
    div = ix.cls('ExprNodes', 'DivNode')
    st, _ = effective_state(ix, div, {'zerodivision_check'})
    pv = flag_values(ix, pc_fn, 'is_float', 'TrueDivide', True, True, div, st)
    pc_sites, _ = raise_sites('static int g(int a, int chk) { if (chk && a == 0) { PyErr_SetString(PyExc_ZeroDivisionError, "x"); return 0; } return 1; }\n'
                              'static int f(PyObject *o, int x, int zc) { return g(x, zc); }\n', 'f')
    r.positive_control(bool(pv) and all(v[1][1] is False or v[1][1] is None or not v[1][1] for v in pv) and pc_sites and pc_sites[0][2] == {2},
                       'a flag read from DivNode.zerodivision_check (only computed for C types) is false; a raise in a forwarded helper is traced to parameter 3')
    return r
