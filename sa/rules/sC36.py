"""C36-OVF — signed-overflow freedom of the arithmetic in the unpacked-PyLong fast path of Optimize.c::PyLongBinop.

The template unpacks a PyLong of `size` digits into a C `long` / `PY_LONG_LONG` when a head-room test admits it and then
applies the C operator to that value and the compile-time constant.  C leaves signed overflow of + - * undefined (C11
6.5p5), so for every operator whose result can exceed its operands the rule computes, by interval (magnitude) analysis of
the *expanded template* on every path, an upper bound for each signed + - * (and unary -) the path executes and requires
it to fit the C type the expression is evaluated in:

    |digit|            <= 2**PyLong_SHIFT - 1
    |join of N digits| <= 2**(N*PyLong_SHIFT) - 1          (pylong_join(N, digits))
    |constant|         <= the largest constant Optimize.optimise_numeric_binop admits for the operator (cross-file)

The finite model space is enumerated completely: sizeof(long) in {4, 8}, sizeof(long long) = 8, PyLong_SHIFT in the
values of CPython's longintrepr.h, digit count `size` in 1 .. (largest size tested) + 1; guards over these quantities are
evaluated (cexpr), every other condition forks.  Nothing is compiled or run; statements outside the modelled subset raise
ANALYSIS-ERROR.
"""
import ast, re

from ..core import Rule, AnalysisError
from ..engine import cexpr
from ..engine.cutil import strip_c_comments, match_paren
from . import pC02 as P
from . import pC17

UFILE, SECTION = 'Optimize.c', 'PyLongBinop'
REL_C = 'Cython/Utility/Optimize.c'
GROWING = ('+', '-', '*')          # operators whose result can exceed both operands

DECL = re.compile(r'^(?:static\s+)?(?:const\s+)?(?P<t>unsigned\s+PY_LONG_LONG|unsigned\s+long\s+long|unsigned\s+long|PY_LONG_LONG|long\s+long|long|int|'
                  r'Py_ssize_t|double|digit\s*\*|const\s+digit\s*\*|digit)\s+(?P<n>[A-Za-z_]\w*)\s*(?:=\s*(?P<init>.+))?$', re.S)
ASSIGN = re.compile(r'^(?P<n>[A-Za-z_]\w*)\s*(?P<op>\+|-|\*|/|%|&|\||\^|<<|>>)?=(?!=)\s*(?P<e>.+)$', re.S)


class Model:
    def __init__(self, wlong, shift, cmax):
        self.wlong, self.shift, self.cmax = wlong, shift, cmax

    def width(self, ctype):
        t = ' '.join(ctype.split())
        if t in ('long',):
            return 8 * self.wlong, True
        if t in ('PY_LONG_LONG', 'long long'):
            return 64, True
        if t == 'int':
            return 32, True
        if t == 'Py_ssize_t':
            return 64, True
        if t in ('unsigned long',):
            return 8 * self.wlong, False
        if t in ('unsigned PY_LONG_LONG', 'unsigned long long'):
            return 64, False
        return None

    def __repr__(self):
        return 'sizeof(long)=%d, PyLong_SHIFT=%d' % (self.wlong, self.shift)


class Overflow:
    def __init__(self, expr, bound, width, model, size):
        self.expr, self.bound, self.width, self.model, self.size = expr, bound, width, model, size


def unparse(e):
    k = e[0]
    if k in ('num', 'char'):
        return str(e[1])
    if k == 'id':
        return e[1]
    if k == 'un':
        return e[1] + unparse(e[2])
    if k == 'cast':
        return '(%s)%s' % (e[1], unparse(e[2]))
    if k == 'bin':
        if e[1] == '[]':
            return '%s[%s]' % (unparse(e[2]), unparse(e[3]))
        return '%s %s %s' % (unparse(e[2]), e[1], unparse(e[3]))
    if k == 'tern':
        return '%s ? %s : %s' % (unparse(e[1]), unparse(e[2]), unparse(e[3]))
    if k == 'call':
        return '%s(%s)' % (e[1], ', '.join(unparse(a) for a in e[2]))
    return k


class Interp:
    """Magnitude analysis of one expanded function body for one model point and one digit count."""
    MAX_PATHS = 4000

    def __init__(self, model, size, params):
        self.m, self.size = model, size
        self.params = params             # {name: (ctype, bound or None)}
        self.findings = []               # Overflow
        self.checked = {}                # expression text -> largest (bound, width)
        self.paths = 0

    # -------------------------------------------------------------- expressions: -> (bound | None, (width, signed) | None)
    def ev(self, e, env, types):
        k = e[0]
        if k in ('num', 'char'):
            return abs(e[1]), (32, True) if abs(e[1]) < 2 ** 31 else (64, True)
        if k == 'id':
            n = e[1]
            if n in env:
                return env[n], types.get(n)
            return None, types.get(n)
        if k == 'cast':
            b, _ = self.ev(e[2], env, types)
            return b, self.m.width(e[1])
        if k == 'sizeof':
            return 16, (64, False)
        if k == 'call':
            name, args = e[1], e[2]
            for a in args:
                self.ev(a, env, types)
            if name == '__imported_pylong_join' and args and args[0][0] == 'num':
                return 2 ** (args[0][1] * self.m.shift) - 1, None
            if name in ('likely', 'unlikely') and len(args) == 1:
                return self.ev(args[0], env, types)
            return None, None
        if k == 'tern':
            self.ev(e[1], env, types)
            a, ta = self.ev(e[2], env, types)
            b, tb = self.ev(e[3], env, types)
            return (max(a, b) if a is not None and b is not None else None), (ta or tb)
        if k == 'un':
            b, t = self.ev(e[2], env, types)
            if e[1] == '-':
                t = self._promote(t)
                if e[2][0] != 'num':         # a negated literal is a constant, not an operation on a run-time value
                    self._check(e, b, t)
                return b, t
            if e[1] == '!':
                return 1, (32, True)
            if e[1] in ('*', '&'):
                return None, None
            return (None if e[1] == '~' else b), self._promote(t)
        if k == 'bin':
            op = e[1]
            if op == '[]':
                self.ev(e[3], env, types)
                if e[2] == ('id', 'digits'):
                    return 2 ** self.m.shift - 1, (32, False)
                return None, None
            a, ta = self.ev(e[2], env, types)
            b, tb = self.ev(e[3], env, types)
            if op in ('&&', '||', '==', '!=', '<', '>', '<=', '>='):
                return 1, (32, True)
            t = self._common(ta, tb)
            if op in ('+', '-'):
                r = a + b if a is not None and b is not None else None
                self._check(e, r, t)
                return r, t
            if op == '*':
                r = a * b if a is not None and b is not None else None
                self._check(e, r, t)
                return r, t
            if op == '/':
                return a, t
            if op == '%':
                return (b if b is not None else a), t
            if op in ('&', '|', '^'):
                if a is not None and b is not None:
                    return 2 ** max(a.bit_length(), b.bit_length()) - 1, t
                return None, t
            if op == '>>':
                return a, self._promote(ta)
            return None, self._promote(ta)      # <<
        raise AnalysisError('C36-OVF: expression node %s not modelled' % k)

    @staticmethod
    def _promote(t):
        if t is None:
            return None
        return t if t[0] >= 32 else (32, True)

    def _common(self, ta, tb):
        ta, tb = self._promote(ta), self._promote(tb)
        if ta is None or tb is None:
            return None
        if ta[0] == tb[0]:
            return (ta[0], ta[1] and tb[1])
        return ta if ta[0] > tb[0] else tb

    def _check(self, e, bound, t):
        if bound is None or t is None or not t[1]:
            return                           # unknown operand, or unsigned arithmetic (wraps, defined)
        txt = unparse(e)
        old = self.checked.get(txt)
        if old is None or bound > old[0]:
            self.checked[txt] = (bound, t[0])
        if bound > 2 ** (t[0] - 1) - 1:
            self.findings.append(Overflow(txt, bound, t[0], self.m, self.size))

    # -------------------------------------------------------------- statements
    def cond_value(self, text):
        """1 / 0 when the condition is decided by the model quantities, None otherwise."""
        try:
            e = cexpr.parse(text)
        except cexpr.ParseError:
            return None, None
        env = {'size': self.size, 'PyLong_SHIFT': self.m.shift}
        try:
            return e, int(bool(self._ceval(e, env)))
        except cexpr.EvalError:
            return e, None

    def _ceval(self, e, env):
        if e[0] == 'sizeof':
            w = self.m.width(e[1])
            if w is None:
                raise cexpr.EvalError('sizeof ' + e[1])
            return w[0] // 8
        if e[0] in ('num', 'char', 'id'):
            return cexpr.evaluate(e, env)
        if e[0] == 'call' and e[1] in ('likely', 'unlikely') and len(e[2]) == 1:
            return self._ceval(e[2][0], env)
        if e[0] == 'cast':
            return self._ceval(e[2], env)
        if e[0] == 'un':
            v = self._ceval(e[2], env)
            if e[1] == '-':
                return -v
            if e[1] == '!':
                return int(not v)
            raise cexpr.EvalError('unary')
        if e[0] == 'bin':
            if e[1] == '&&':
                # a decided false conjunct decides the conjunction
                vals = []
                for x in (e[2], e[3]):
                    try:
                        vals.append(self._ceval(x, env))
                    except cexpr.EvalError:
                        vals.append(None)
                if any(v is not None and not v for v in vals):
                    return 0
                if any(v is None for v in vals):
                    raise cexpr.EvalError('undecided')
                return 1
            if e[1] == '||':
                vals = []
                for x in (e[2], e[3]):
                    try:
                        vals.append(self._ceval(x, env))
                    except cexpr.EvalError:
                        vals.append(None)
                if any(v for v in vals if v is not None):
                    return 1
                if any(v is None for v in vals):
                    raise cexpr.EvalError('undecided')
                return 0
            a, b = self._ceval(e[2], env), self._ceval(e[3], env)
            return cexpr.evaluate(('bin', e[1], ('num', a), ('num', b)), {})
        raise cexpr.EvalError('node ' + e[0])

    def run(self, top):
        labels = {st.text: i for i, st in enumerate(top) if st.kind == 'label'}
        env = {n: b for n, (t, b) in self.params.items() if b is not None}
        types = {n: self.m.width(t) for n, (t, b) in self.params.items()}
        work = [(0, env, types)]
        while work:
            i, env, types = work.pop()
            self.paths += 1
            if self.paths > self.MAX_PATHS:
                raise AnalysisError('C36-OVF: more than %d paths' % self.MAX_PATHS)
            for out in self.seq(top[i:], env, types):
                kind = out[0]
                if kind == 'goto':
                    if out[1] not in labels:
                        raise AnalysisError('C36-OVF: goto to unknown label %s' % out[1])
                    work.append((labels[out[1]] + 1, out[2], out[3]))

    def seq(self, stmts, env, types):
        """-> list of ('fall', env, types) | ('goto', label, env, types) | ('return',)"""
        states = [(dict(env), dict(types))]
        outs = []
        for st in stmts:
            nxt = []
            for env, types in states:
                for o in self.stmt(st, env, types):
                    if o[0] == 'fall':
                        nxt.append((o[1], o[2]))
                    else:
                        outs.append(o)
            states = nxt
            if not states:
                break
            if len(states) > self.MAX_PATHS:
                raise AnalysisError('C36-OVF: state explosion')
        outs.extend(('fall', e, t) for e, t in states)
        return outs

    def stmt(self, st, env, types):
        k = st.kind
        if k == 'label':
            return [('fall', env, types)]
        if k == 'block':
            # declarations are block scoped, values assigned to outer variables persist
            return self.seq(st.body, env, types)
        if k == 'if':
            e, v = self.cond_value(st.text)
            if e is not None:
                self.ev(e, env, types)
            outs = []
            if v is None or v:
                outs.extend(self.seq(pC17.as_list(st.body), env, types))
            if v is None or not v:
                if st.orelse is not None:
                    outs.extend(self.seq(pC17.as_list(st.orelse), env, types))
                else:
                    outs.append(('fall', dict(env), dict(types)))
            return outs
        if k == 'simple':
            return self.simple(st.text.strip().rstrip(';').strip(), env, types)
        if k == 'pp':
            raise AnalysisError('C36-OVF: preprocessor line inside the unpacked fast path is not modelled: %s' % st.text[:60])
        raise AnalysisError('C36-OVF: statement kind %s is not modelled in the unpacked fast path' % k)

    def simple(self, t, env, types):
        if not t:
            return [('fall', env, types)]
        m = re.match(r'^goto\s+(\w+)$', t)
        if m:
            return [('goto', m.group(1), env, types)]
        if t == 'return' or t.startswith('return ') or t.startswith('return('):
            rest = t[6:].strip()
            if rest:
                self.ev(self.parse(rest), env, types)
            return [('return',)]
        if t in ('Py_RETURN_TRUE', 'Py_RETURN_FALSE', 'Py_RETURN_NONE'):
            return [('return',)]
        m = DECL.match(t)
        if m:
            n, ct = m.group('n'), m.group('t')
            types[n] = self.m.width(ct)
            env.pop(n, None)
            if m.group('init'):
                b, _ = self.ev(self.parse(m.group('init')), env, types)
                if b is not None:
                    env[n] = b
            return [('fall', env, types)]
        m = ASSIGN.match(t)
        if m:
            n, op = m.group('n'), m.group('op')
            rhs = self.parse(m.group('e'))
            if op:
                b, _ = self.ev(('bin', op, ('id', n), rhs), env, types)
            else:
                b, _ = self.ev(rhs, env, types)
            if b is None:
                env.pop(n, None)
            else:
                env[n] = b
            return [('fall', env, types)]
        self.ev(self.parse(t), env, types)
        return [('fall', env, types)]

    @staticmethod
    def parse(text):
        try:
            return cexpr.parse(text)
        except cexpr.ParseError as e:
            raise AnalysisError('C36-OVF: cannot parse C expression %r of the unpacked fast path: %s' % (text[:60], e))


def function_body(text, prefix):
    """(name, parameter text, body text) of the first function definition whose name starts with prefix."""
    for m in re.finditer(r'\b(%s\w*)\s*\(' % re.escape(prefix), text):
        q = match_paren(text, m.end() - 1)
        j = q + 1
        while j < len(text) and text[j].isspace():
            j += 1
        if j < len(text) and text[j] == '{':
            depth, k = 0, j
            while k < len(text):
                if text[k] == '{':
                    depth += 1
                elif text[k] == '}':
                    depth -= 1
                    if depth == 0:
                        return m.group(1), text[m.end():q], text[j:k + 1]
                k += 1
            raise AnalysisError('unbalanced braces in %s' % m.group(1))
    return None


def analyse(text, prefix, cmax, shifts, const_param='intval'):
    """-> (instances {key: sample}, findings [(key, Overflow)]) for one expanded template."""
    fb = function_body(strip_c_comments(text), prefix)
    if fb is None:
        raise AnalysisError('C36-OVF: function %s* not found in the expanded template' % prefix)
    name, params, body = fb
    if re.search(r'^\s*#', body, re.M):
        raise AnalysisError('C36-OVF: %s contains preprocessor lines, which the magnitude analysis does not model' % name)
    ptypes = {}
    for p in params.split(','):
        mm = re.match(r'^\s*(.*?)(\w+)\s*$', p, re.S)
        if mm:
            ptypes[mm.group(2)] = ' '.join(mm.group(1).replace('*', ' * ').split())
    if const_param not in ptypes:
        raise AnalysisError('C36-OVF: %s has no parameter %s (the compile-time constant)' % (name, const_param))
    top = pC17.parse_body(body)
    sizes = sorted({int(x) for x in re.findall(r'\bsize\s*==\s*(\d+)', body)})
    if not sizes:
        raise AnalysisError('C36-OVF: %s tests no digit count (`size == N`)' % name)
    inst, finds = {}, []
    for wlong in (4, 8):
        for sh in shifts:
            model = Model(wlong, sh, cmax)
            for size in sizes + [max(sizes) + 1]:
                it = Interp(model, size, {n: (t, cmax if n == const_param else None) for n, t in ptypes.items()})
                it.run(top)
                for txt, (b, w) in it.checked.items():
                    key = 'size%d:%s' % (size, txt)
                    if key not in inst or b.bit_length() > inst[key][0]:
                        inst[key] = (b.bit_length(), '%s needs %d bits of %d (%r)' % (txt, b.bit_length() + 1, w, model))
                for f in it.findings:
                    finds.append(('size%d:%s' % (size, f.expr), f))
    return name, inst, finds


def rule_ovf(ctx):
    from ..props import C02
    r = Rule('C36-OVF', 'signed + - * in the unpacked-PyLong fast path of PyLongBinop cannot overflow for any digit count the head-room tests admit '
                        '(sizeof(long) 4/8, PyLong_SHIFT 15/30, constants up to the cut-off of optimise_numeric_binop)', floor=60)
    sec = ctx.cat.files.get(UFILE, {}).get(SECTION)
    if not sec or 'impl' not in sec:
        raise AnalysisError('Optimize.c::PyLongBinop missing')
    tree = P.tpl_tree(sec['impl'].raw)
    dct, key = P.tpl_assigned_dict(tree, 'c_op')
    if not dct or key != 'op':
        raise AnalysisError('PyLongBinop: the c_op dispatch table `c_op = {...}[op]` was not found')
    ops = sorted(op for op, c in dct.items() if c in GROWING)
    if len(ops) < 3:
        raise AnalysisError('PyLongBinop: fewer than three operators with c_op in + - * (%s)' % ops)
    opt = ctx.index.mod('Optimize')
    fn = opt.functions.get(C02.DECIDER)
    if fn is None:
        raise AnalysisError('Optimize.%s vanished' % C02.DECIDER)
    bools = [s.targets[0].id for s in fn.body if isinstance(s, ast.Assign) and len(s.targets) == 1 and isinstance(s.targets[0], ast.Name)
             and isinstance(s.value, ast.Call) and isinstance(s.value.func, ast.Name) and s.value.func.id == 'isinstance']
    if len(bools) != 1:
        raise AnalysisError('%s: expected one isinstance()-defined decision variable' % C02.DECIDER)
    target = lambda n: isinstance(n, ast.Call) and C02._call_name(n) in ('load_cached', 'load')
    shifts = C02.pylong_shifts()
    line = sec['impl'].line
    for op in ops:
        cmax, var, top = C02.admitted_maximum(fn, bools[0], target, op, [2 ** 31, 2 ** 63])
        if cmax >= top:
            cmax = 2 ** 66          # not capped at all
        for order in ('ObjC', 'CObj'):
            text = P.tpl_expand(tree, dict(op=op, order=order, ret_type=P.Obj(is_pyobject=True)))
            name, inst, finds = analyse(text, '__Pyx_Unpacked_', cmax, shifts)
            for k, (_, sample) in sorted(inst.items()):
                r.inst('ovf:%s%s:%s' % (op, order, k), sample='%s%s %s' % (op, order, sample))
            seen = set()
            for k, f in finds:
                ck = 'ovf:%s%s:%s' % (op, order, k)
                if ck in seen:
                    continue
                seen.add(ck)
                r.violate(ck, REL_C, line,
                          'PyLongBinop(op=%s, order=%s): a PyLong of %d digit(s) reaches `%s` (%s); with a constant of magnitude up to 2**%d admitted by %s the result '
                          'can reach 2**%d, which does not fit the signed %d-bit type the expression is evaluated in: signed overflow (undefined behaviour, wrong '
                          'product/sum instead of the arbitrary-precision result)'
                          % (op, order, f.size, f.expr, f.model, cmax.bit_length() - 1, C02.DECIDER, f.bound.bit_length() - (1 if f.bound & (f.bound - 1) == 0 else 0), f.width))
    # positive control: head-room forgotten in a two-digit long long multiplication
    pc_text = ('static PyObject* __Pyx_Unpacked_pc(PyObject *op1, PyObject *op2, long intval, int inplace) {\n const PY_LONG_LONG llb = intval; PY_LONG_LONG lla;\n'
               ' const digit* digits = __Pyx_PyLong_Digits(op1); const Py_ssize_t size = __Pyx_PyLong_DigitCount(op1);\n'
               ' if (size == 2 && 8 * sizeof(PY_LONG_LONG) - 1 > 2 * PyLong_SHIFT) { lla = (PY_LONG_LONG) __imported_pylong_join(2, digits); goto calc; }\n'
               ' return NULL;\n calc:\n { PY_LONG_LONG llx; llx = lla * llb; return PyLong_FromLongLong(llx); }\n}\n')
    _, _, pf = analyse(pc_text, '__Pyx_Unpacked_', 2 ** 30, [15, 30])
    pc_ok = '{ PY_LONG_LONG llx; llx = lla + llb; return PyLong_FromLongLong(llx); }'
    _, _, pf2 = analyse(pc_text.replace('{ PY_LONG_LONG llx; llx = lla * llb; return PyLong_FromLongLong(llx); }', pc_ok), '__Pyx_Unpacked_', 2 ** 30, [15, 30])
    r.positive_control(bool(pf) and not pf2, 'two-digit long long multiplication without head-room is reported, the same addition is not')
    return r
