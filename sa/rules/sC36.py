"""C36-OVF — signed-overflow freedom of the arithmetic in the unpacked-PyLong fast path of Optimize.c::PyLongBinop.

The template unpacks a PyLong of `size` digits into a C `long` / `PY_LONG_LONG` when a head-room test admits it and then
applies the C operator to that value and the compile-time constant.  C leaves signed overflow of + - * undefined (C11
6.5p5), so for every operator whose result can exceed its operands the rule computes, by interval (magnitude) analysis of
the *expanded template* on every path, an upper bound for each signed + - * (and unary -) the path executes and requires
it to fit the C type the expression is evaluated in:

    |digit|            <= 2**PyLong_SHIFT - 1
    |join of N digits| <= 2**(N*PyLong_SHIFT) - 1          (pylong_join(N, digits))
    |constant|         <= the largest constant Optimize.optimise_numeric_binop admits for the operator (cross-file)

The finite model space is enumerated completely: sizeof(long) in {4, 8}, sizeof(long long) = 8, PyLong_SHIFT in the
values of CPython's longintrepr.h, digit count `size` in 1 .. (largest size tested) + 1; guards over these quantities are
evaluated (cexpr), every other condition forks.  Nothing is compiled or run; statements outside the modelled subset raise
ANALYSIS-ERROR.
"""
import ast, re

from ..core import Rule, AnalysisError
from ..engine import cexpr
from ..engine.cutil import strip_c_comments, match_paren
from . import pC02 as P
from . import pC17

UFILE, SECTION = 'Optimize.c', 'PyLongBinop'
REL_C = 'Cython/Utility/Optimize.c'
GROWING = ('+', '-', '*')          # operators whose result can exceed both operands

DECL = re.compile(r'^(?:static\s+)?(?:const\s+)?(?P<t>unsigned\s+PY_LONG_LONG|unsigned\s+long\s+long|unsigned\s+long|PY_LONG_LONG|long\s+long|long|int|'
                  r'Py_ssize_t|double|digit\s*\*|const\s+digit\s*\*|digit)\s+(?P<n>[A-Za-z_]\w*)\s*(?:=\s*(?P<init>.+))?$', re.S)
ASSIGN = re.compile(r'^(?P<n>[A-Za-z_]\w*)\s*(?P<op>\+|-|\*|/|%|&|\||\^|<<|>>)?=(?!=)\s*(?P<e>.+)$', re.S)


class Model:
    def __init__(self, wlong, shift, cmax):
        self.wlong, self.shift, self.cmax = wlong, shift, cmax

    def width(self, ctype):
        t = ' '.join(ctype.split())
        if t in ('long',):
            return 8 * self.wlong, True
        if t in ('PY_LONG_LONG', 'long long'):
            return 64, True
        if t == 'int':
            return 32, True
        if t == 'Py_ssize_t':
            return 64, True
        if t in ('unsigned long',):
            return 8 * self.wlong, False
        if t in ('unsigned PY_LONG_LONG', 'unsigned long long'):
            return 64, False
        return None

    def __repr__(self):
        return 'sizeof(long)=%d, PyLong_SHIFT=%d' % (self.wlong, self.shift)


class Overflow:
    def __init__(self, expr, bound, width, model, size):
        self.expr, self.bound, self.width, self.model, self.size = expr, bound, width, model, size


def unparse(e):
    k = e[0]
    if k in ('num', 'char'):
        return str(e[1])
    if k == 'id':
        return e[1]
    if k == 'un':
        return e[1] + unparse(e[2])
    if k == 'cast':
        return '(%s)%s' % (e[1], unparse(e[2]))
    if k == 'bin':
        if e[1] == '[]':
            return '%s[%s]' % (unparse(e[2]), unparse(e[3]))
        return '%s %s %s' % (unparse(e[2]), e[1], unparse(e[3]))
    if k == 'tern':
        return '%s ? %s : %s' % (unparse(e[1]), unparse(e[2]), unparse(e[3]))
    if k == 'call':
        return '%s(%s)' % (e[1], ', '.join(unparse(a) for a in e[2]))
    return k


class Interp:
    """Magnitude analysis of one expanded function body for one model point and one digit count."""
    MAX_PATHS = 4000

    def __init__(self, model, size, params):
        self.m, self.size = model, size
        self.params = params             # {name: (ctype, bound or None)}
        self.findings = []               # Overflow
        self.checked = {}                # expression text -> largest (bound, width)
        self.paths = 0

    # -------------------------------------------------------------- expressions: -> (bound | None, (width, signed) | None)
    def ev(self, e, env, types):
        k = e[0]
        if k in ('num', 'char'):
            return abs(e[1]), (32, True) if abs(e[1]) < 2 ** 31 else (64, True)
        if k == 'id':
            n = e[1]
            if n in env:
                return env[n], types.get(n)
            return None, types.get(n)
        if k == 'cast':
            b, _ = self.ev(e[2], env, types)
            return b, self.m.width(e[1])
        if k == 'sizeof':
            return 16, (64, False)
        if k == 'call':
            name, args = e[1], e[2]
            for a in args:
                self.ev(a, env, types)
            if name == '__imported_pylong_join' and args and args[0][0] == 'num':
                return 2 ** (args[0][1] * self.m.shift) - 1, None
            if name in ('likely', 'unlikely') and len(args) == 1:
                return self.ev(args[0], env, types)
            return None, None
        if k == 'tern':
            self.ev(e[1], env, types)
            a, ta = self.ev(e[2], env, types)
            b, tb = self.ev(e[3], env, types)
            return (max(a, b) if a is not None and b is not None else None), (ta or tb)
        if k == 'un':
            b, t = self.ev(e[2], env, types)
            if e[1] == '-':
                t = self._promote(t)
                if e[2][0] != 'num':         # a negated literal is a constant, not an operation on a run-time value
                    self._check(e, b, t)
                return b, t
            if e[1] == '!':
                return 1, (32, True)
            if e[1] in ('*', '&'):
                return None, None
            return (None if e[1] == '~' else b), self._promote(t)
        if k == 'bin':
            op = e[1]
            if op == '[]':
                self.ev(e[3], env, types)
                if e[2] == ('id', 'digits'):
                    return 2 ** self.m.shift - 1, (32, False)
                return None, None
            a, ta = self.ev(e[2], env, types)
            b, tb = self.ev(e[3], env, types)
            if op in ('&&', '||', '==', '!=', '<', '>', '<=', '>='):
                return 1, (32, True)
            t = self._common(ta, tb)
            if op in ('+', '-'):
                r = a + b if a is not None and b is not None else None
                self._check(e, r, t)
                return r, t
            if op == '*':
                r = a * b if a is not None and b is not None else None
                self._check(e, r, t)
                return r, t
            if op == '/':
                return a, t
            if op == '%':
                return (b if b is not None else a), t
            if op in ('&', '|', '^'):
                if a is not None and b is not None:
                    return 2 ** max(a.bit_length(), b.bit_length()) - 1, t
                return None, t
            if op == '>>':
                return a, self._promote(ta)
            return None, self._promote(ta)      # <<
        raise AnalysisError('C36-OVF: expression node %s not modelled' % k)

    @staticmethod
    def _promote(t):
        if t is None:
            return None
        return t if t[0] >= 32 else (32, True)

    def _common(self, ta, tb):
        ta, tb = self._promote(ta), self._promote(tb)
        if ta is None or tb is None:
            return None
        if ta[0] == tb[0]:
            return (ta[0], ta[1] and tb[1])
        return ta if ta[0] > tb[0] else tb

    def _check(self, e, bound, t):
        if bound is None or t is None or not t[1]:
            return                           # unknown operand, or unsigned arithmetic (wraps, defined)
        txt = unparse(e)
        old = self.checked.get(txt)
        if old is None or bound > old[0]:
            self.checked[txt] = (bound, t[0])
        if bound > 2 ** (t[0] - 1) - 1:
            self.findings.append(Overflow(txt, bound, t[0], self.m, self.size))

    # -------------------------------------------------------------- statements
    def cond_value(self, text):
        """1 / 0 when the condition is decided by the model quantities, None otherwise."""
        try:
            e = cexpr.parse(text)
        except cexpr.ParseError:
            return None, None
        env = {'size': self.size, 'PyLong_SHIFT': self.m.shift}
        try:
            return e, int(bool(self._ceval(e, env)))
        except cexpr.EvalError:
            return e, None

    def _ceval(self, e, env):
        if e[0] == 'sizeof':
            w = self.m.width(e[1])
            if w is None:
                raise cexpr.EvalError('sizeof ' + e[1])
            return w[0] // 8
        if e[0] in ('num', 'char', 'id'):
            return cexpr.evaluate(e, env)
        if e[0] == 'call' and e[1] in ('likely', 'unlikely') and len(e[2]) == 1:
            return self._ceval(e[2][0], env)
        if e[0] == 'cast':
            return self._ceval(e[2], env)
        if e[0] == 'un':
            v = self._ceval(e[2], env)
            if e[1] == '-':
                return -v
            if e[1] == '!':
                return int(not v)
            raise cexpr.EvalError('unary')
        if e[0] == 'bin':
            if e[1] == '&&':
                # a decided false conjunct decides the conjunction
                vals = []
                for x in (e[2], e[3]):
                    try:
                        vals.append(self._ceval(x, env))
                    except cexpr.EvalError:
                        vals.append(None)
                if any(v is not None and not v for v in vals):
                    return 0
                if any(v is None for v in vals):
                    raise cexpr.EvalError('undecided')
                return 1
            if e[1] == '||':
                vals = []
                for x in (e[2], e[3]):
                    try:
                        vals.append(self._ceval(x, env))
                    except cexpr.EvalError:
                        vals.append(None)
                if any(v for v in vals if v is not None):
                    return 1
                if any(v is None for v in vals):
                    raise cexpr.EvalError('undecided')
                return 0
            a, b = self._ceval(e[2], env), self._ceval(e[3], env)
            return cexpr.evaluate(('bin', e[1], ('num', a), ('num', b)), {})
        raise cexpr.EvalError('node ' + e[0])

    def run(self, top):
        labels = {st.text: i for i, st in enumerate(top) if st.kind == 'label'}
        env = {n: b for n, (t, b) in self.params.items() if b is not None}
        types = {n: self.m.width(t) for n, (t, b) in self.params.items()}
        work = [(0, env, types)]
        while work:
            i, env, types = work.pop()
            self.paths += 1
            if self.paths > self.MAX_PATHS:
                raise AnalysisError('C36-OVF: more than %d paths' % self.MAX_PATHS)
            for out in self.seq(top[i:], env, types):
                kind = out[0]
                if kind == 'goto':
                    if out[1] not in labels:
                        raise AnalysisError('C36-OVF: goto to unknown label %s' % out[1])
                    work.append((labels[out[1]] + 1, out[2], out[3]))

    def seq(self, stmts, env, types):
        """-> list of ('fall', env, types) | ('goto', label, env, types) | ('return',)"""
        states = [(dict(env), dict(types))]
        outs = []
        for st in stmts:
            nxt = []
            for env, types in states:
                for o in self.stmt(st, env, types):
                    if o[0] == 'fall':
                        nxt.append((o[1], o[2]))
                    else:
                        outs.append(o)
            states = nxt
            if not states:
                break
            if len(states) > self.MAX_PATHS:
                raise AnalysisError('C36-OVF: state explosion')
        outs.extend(('fall', e, t) for e, t in states)
        return outs

    def stmt(self, st, env, types):
        k = st.kind
        if k == 'label':
            return [('fall', env, types)]
        if k == 'block':
            # declarations are block scoped, values assigned to outer variables persist
            return self.seq(st.body, env, types)
        if k == 'if':
            e, v = self.cond_value(st.text)
            if e is not None:
                self.ev(e, env, types)
            outs = []
            if v is None or v:
                outs.extend(self.seq(pC17.as_list(st.body), env, types))
            if v is None or not v:
                if st.orelse is not None:
                    outs.extend(self.seq(pC17.as_list(st.orelse), env, types))
                else:
                    outs.append(('fall', dict(env), dict(types)))
            return outs
        if k == 'simple':
            return self.simple(st.text.strip().rstrip(';').strip(), env, types)
        if k == 'pp':
            raise AnalysisError('C36-OVF: preprocessor line inside the unpacked fast path is not modelled: %s' % st.text[:60])
        raise AnalysisError('C36-OVF: statement kind %s is not modelled in the unpacked fast path' % k)

    def simple(self, t, env, types):
        if not t:
            return [('fall', env, types)]
        m = re.match(r'^goto\s+(\w+)$', t)
        if m:
            return [('goto', m.group(1), env, types)]
        if t == 'return' or t.startswith('return ') or t.startswith('return('):
            rest = t[6:].strip()
            if rest:
                self.ev(self.parse(rest), env, types)
            return [('return',)]
        if t in ('Py_RETURN_TRUE', 'Py_RETURN_FALSE', 'Py_RETURN_NONE'):
            return [('return',)]
        m = DECL.match(t)
        if m:
            n, ct = m.group('n'), m.group('t')
            types[n] = self.m.width(ct)
            env.pop(n, None)
            if m.group('init'):
                b, _ = self.ev(self.parse(m.group('init')), env, types)
                if b is not None:
                    env[n] = b
            return [('fall', env, types)]
        m = ASSIGN.match(t)
        if m:
            n, op = m.group('n'), m.group('op')
            rhs = self.parse(m.group('e'))
            if op:
                b, _ = self.ev(('bin', op, ('id', n), rhs), env, types)
            else:
                b, _ = self.ev(rhs, env, types)
            if b is None:
                env.pop(n, None)
            else:
                env[n] = b
            return [('fall', env, types)]
        self.ev(self.parse(t), env, types)
        return [('fall', env, types)]

    @staticmethod
    def parse(text):
        try:
            return cexpr.parse(text)
        except cexpr.ParseError as e:
            raise AnalysisError('C36-OVF: cannot parse C expression %r of the unpacked fast path: %s' % (text[:60], e))


def function_body(text, prefix):
    """(name, parameter text, body text) of the first function definition whose name starts with prefix."""
    for m in re.finditer(r'\b(%s\w*)\s*\(' % re.escape(prefix), text):
        q = match_paren(text, m.end() - 1)
        j = q + 1
        while j < len(text) and text[j].isspace():
            j += 1
        if j < len(text) and text[j] == '{':
            depth, k = 0, j
            while k < len(text):
                if text[k] == '{':
                    depth += 1
                elif text[k] == '}':
                    depth -= 1
                    if depth == 0:
                        return m.group(1), text[m.end():q], text[j:k + 1]
                k += 1
            raise AnalysisError('unbalanced braces in %s' % m.group(1))
    return None


def analyse(text, prefix, cmax, shifts, const_param='intval'):
    """-> (instances {key: sample}, findings [(key, Overflow)]) for one expanded template."""
    fb = function_body(strip_c_comments(text), prefix)
    if fb is None:
        raise AnalysisError('C36-OVF: function %s* not found in the expanded template' % prefix)
    name, params, body = fb
    if re.search(r'^\s*#', body, re.M):
        raise AnalysisError('C36-OVF: %s contains preprocessor lines, which the magnitude analysis does not model' % name)
    ptypes = {}
    for p in params.split(','):
        mm = re.match(r'^\s*(.*?)(\w+)\s*$', p, re.S)
        if mm:
            ptypes[mm.group(2)] = ' '.join(mm.group(1).replace('*', ' * ').split())
    if const_param not in ptypes:
        raise AnalysisError('C36-OVF: %s has no parameter %s (the compile-time constant)' % (name, const_param))
    top = pC17.parse_body(body)
    sizes = sorted({int(x) for x in re.findall(r'\bsize\s*==\s*(\d+)', body)})
    if not sizes:
        raise AnalysisError('C36-OVF: %s tests no digit count (`size == N`)' % name)
    inst, finds = {}, []
    for wlong in (4, 8):
        for sh in shifts:
            model = Model(wlong, sh, cmax)
            for size in sizes + [max(sizes) + 1]:
                it = Interp(model, size, {n: (t, cmax if n == const_param else None) for n, t in ptypes.items()})
                it.run(top)
                for txt, (b, w) in it.checked.items():
                    key = 'size%d:%s' % (size, txt)
                    if key not in inst or b.bit_length() > inst[key][0]:
                        inst[key] = (b.bit_length(), '%s needs %d bits of %d (%r)' % (txt, b.bit_length() + 1, w, model))
                for f in it.findings:
                    finds.append(('size%d:%s' % (size, f.expr), f))
    return name, inst, finds


def rule_ovf(ctx):
    from ..props import C02
    r = Rule('C36-OVF', 'signed + - * in the unpacked-PyLong fast path of PyLongBinop cannot overflow for any digit count the head-room tests admit '
                        '(sizeof(long) 4/8, PyLong_SHIFT 15/30, constants up to the cut-off of optimise_numeric_binop)', floor=60)
    sec = ctx.cat.files.get(UFILE, {}).get(SECTION)
    if not sec or 'impl' not in sec:
        raise AnalysisError('Optimize.c::PyLongBinop missing')
    tree = P.tpl_tree(sec['impl'].raw)
    dct, key = P.tpl_assigned_dict(tree, 'c_op')
    if not dct or key != 'op':
        raise AnalysisError('PyLongBinop: the c_op dispatch table `c_op = {...}[op]` was not found')
    ops = sorted(op for op, c in dct.items() if c in GROWING)
    if len(ops) < 3:
        raise AnalysisError('PyLongBinop: fewer than three operators with c_op in + - * (%s)' % ops)
    opt = ctx.index.mod('Optimize')
    fn = opt.functions.get(C02.DECIDER)
    if fn is None:
        raise AnalysisError('Optimize.%s vanished' % C02.DECIDER)
    bools = [s.targets[0].id for s in fn.body if isinstance(s, ast.Assign) and len(s.targets) == 1 and isinstance(s.targets[0], ast.Name)
             and isinstance(s.value, ast.Call) and isinstance(s.value.func, ast.Name) and s.value.func.id == 'isinstance']
    if len(bools) != 1:
        raise AnalysisError('%s: expected one isinstance()-defined decision variable' % C02.DECIDER)
    target = lambda n: isinstance(n, ast.Call) and C02._call_name(n) in ('load_cached', 'load')
    shifts = C02.pylong_shifts()
    line = sec['impl'].line
    for op in ops:
        cmax, var, top = C02.admitted_maximum(fn, bools[0], target, op, [2 ** 31, 2 ** 63])
        if cmax >= top:
            cmax = 2 ** 66          # not capped at all
        for order in ('ObjC', 'CObj'):
            text = P.tpl_expand(tree, dict(op=op, order=order, ret_type=P.Obj(is_pyobject=True)))
            name, inst, finds = analyse(text, '__Pyx_Unpacked_', cmax, shifts)
            for k, (_, sample) in sorted(inst.items()):
                r.inst('ovf:%s%s:%s' % (op, order, k), sample='%s%s %s' % (op, order, sample))
            seen = set()
            for k, f in finds:
                ck = 'ovf:%s%s:%s' % (op, order, k)
                if ck in seen:
                    continue
                seen.add(ck)
                r.violate(ck, REL_C, line,
                          'PyLongBinop(op=%s, order=%s): a PyLong of %d digit(s) reaches `%s` (%s); with a constant of magnitude up to 2**%d admitted by %s the result '
                          'can reach 2**%d, which does not fit the signed %d-bit type the expression is evaluated in: signed overflow (undefined behaviour, wrong '
                          'product/sum instead of the arbitrary-precision result)'
                          % (op, order, f.size, f.expr, f.model, cmax.bit_length() - 1, C02.DECIDER, f.bound.bit_length() - (1 if f.bound & (f.bound - 1) == 0 else 0), f.width))
    # positive control: head-room forgotten in a two-digit long long multiplication
    pc_text = ('static PyObject* __Pyx_Unpacked_pc(PyObject *op1, PyObject *op2, long intval, int inplace) {\n const PY_LONG_LONG llb = intval; PY_LONG_LONG lla;\n'
               ' const digit* digits = __Pyx_PyLong_Digits(op1); const Py_ssize_t size = __Pyx_PyLong_DigitCount(op1);\n'
               ' if (size == 2 && 8 * sizeof(PY_LONG_LONG) - 1 > 2 * PyLong_SHIFT) { lla = (PY_LONG_LONG) __imported_pylong_join(2, digits); goto calc; }\n'
               ' return NULL;\n calc:\n { PY_LONG_LONG llx; llx = lla * llb; return PyLong_FromLongLong(llx); }\n}\n')
    _, _, pf = analyse(pc_text, '__Pyx_Unpacked_', 2 ** 30, [15, 30])
    pc_ok = '{ PY_LONG_LONG llx; llx = lla + llb; return PyLong_FromLongLong(llx); }'
    _, _, pf2 = analyse(pc_text.replace('{ PY_LONG_LONG llx; llx = lla * llb; return PyLong_FromLongLong(llx); }', pc_ok), '__Pyx_Unpacked_', 2 ** 30, [15, 30])
    r.positive_control(bool(pf) and not pf2, 'two-digit long long multiplication without head-room is reported, the same addition is not')
    return r


# ====================================================================================== fourth round
"""C36-BOUNDS  Buffer.put_buffer_lookup_code (the one emitter of the index checks for buffer and memoryview element access) is
              partially evaluated on a model code writer for every flag combination (boundscheck x wraparound x negative_indices x
              signed / unsigned index); the emitted C is executed on the complete partition of an index relative to the extent
              (extent 1 and 3, index in [-extent-2, extent+2], C conversion rules): with boundscheck the error exit is taken exactly
              for indices outside [0, extent) (after wrap-around where enabled) and the access uses the wrapped index; without
              boundscheck a negative index is wrapped exactly when wraparound is on.
C36-VALIDX  __Pyx_is_valid_index(i, limit) is true exactly for 0 <= i < limit (Py_ssize_t operands, C conversion rules).
C36-INIT    NameNode.generate_result_code emits the unbound / uninitialised check for a local exactly when the variable may be
              NULL and NULL is not allowed and it is an object or (memoryview and initializedcheck); put_error_if_unbound and the
              memoryview-attribute check of AttributeNode test `!<value>`, raise, and leave through the error label.
C36-SHIFTW  every << / >> of the PyLongBinop unpacked fast path (Lshift / Rshift, constant on the right) has a shift count below
              the width of the shifted type for every count the Optimize.py handlers admit, unless the statement is guarded by a
              width test (host data model: finding; other data models: information)."""
from .sC32 import Mini, Opaque, TypedEval, C_NAMED

BUFFER_PY = 'Cython/Compiler/Buffer.py'


class _ModelCode:
    def __init__(self):
        self.lines, self.cur, self.temps = [], '', 0
        self.funcstate = self
        self.globalstate = self

    def putln(self, text=''):
        self.lines.append(self.cur + text)
        self.cur = ''

    def put(self, text):
        self.cur += text

    def unlikely(self, c):
        return 'unlikely(%s)' % c

    def likely(self, c):
        return 'likely(%s)' % c

    def allocate_temp(self, *a, **k):
        self.temps += 1
        return 'failed%d' % self.temps

    def release_temp(self, name):
        pass

    def error_goto(self, pos):
        return 'goto error;'

    def use_utility_code(self, *a, **k):
        pass

    def text(self):
        return '\n'.join(self.lines + ([self.cur] if self.cur else []))


class _ModelEntry:
    def __init__(self, n):
        self.n = n

    def get_buf_shapevars(self):
        return ['n%d' % k for k in range(self.n)]

    def generate_buffer_lookup_code(self, code, index_cnames):
        return 'LOOKUP(%s)' % ', '.join(index_cnames)


def emitted_bounds_code(fn, boundscheck, wraparound, negative_indices, signed):
    code, entry = _ModelCode(), _ModelEntry(1)
    params = [a.arg for a in fn.args.args]
    want = ['entry', 'index_signeds', 'index_cnames', 'directives', 'pos', 'code', 'negative_indices', 'in_nogil_context']
    if params != want:
        raise AnalysisError('C36-BOUNDS: put_buffer_lookup_code%r, expected %r' % (tuple(params), tuple(want)))
    mini = Mini((_ModelCode, _ModelEntry), {}, 'put_buffer_lookup_code')
    res = mini.run(fn, {'entry': entry, 'index_signeds': [1 if signed else 0], 'index_cnames': ['i0'], 'directives': {'boundscheck': boundscheck, 'wraparound': wraparound},
                        'pos': ('<model>', 1, 1), 'code': code, 'negative_indices': negative_indices, 'in_nogil_context': False})
    if res != 'LOOKUP(i0)':
        raise AnalysisError('C36-BOUNDS: put_buffer_lookup_code returns %r, not the lookup expression on the (checked) index variables' % (res,))
    return code.text()


class CExec:
    """Executes the few statement forms of the emitted bounds code on typed integer variables (C conversion rules via TypedEval)."""

    def __init__(self, env):
        self.env = dict(env)          # name -> (type, value)
        self.calls, self.left = [], None

    def run(self, text):
        for st in pC17.parse_body('{' + strip_c_comments(text) + '}'):
            if self.stmt(st) == 'stop':
                return

    def cond(self, text):
        t, v = TypedEval(self.env, None).ev(cexpr.parse(text))
        return bool(v)

    def stmt(self, st):
        if self.left:
            return 'stop'
        k = st.kind
        if k == 'block':
            for s in st.body:
                if self.stmt(s) == 'stop':
                    return 'stop'
            return None
        if k == 'if':
            branch = st.body if self.cond(st.text) else st.orelse
            if branch is None:
                return None
            for s in pC17.as_list(branch):
                if self.stmt(s) == 'stop':
                    return 'stop'
            return None
        if k != 'simple':
            raise AnalysisError('C36-BOUNDS: emitted statement kind %s is not modelled' % k)
        t = st.text.strip()
        if not t or t.startswith('/*'):
            return None
        m = re.match(r'^goto\s+(\w+)$', t)
        if m:
            self.left = m.group(1)
            return 'stop'
        m = re.match(r'^([A-Za-z_]\w*)\s*(\+|-)?=(?!=)\s*(.+)$', t)
        if m:
            name, op, rhs = m.group(1), m.group(2), m.group(3)
            if name not in self.env:
                raise AnalysisError('C36-BOUNDS: emitted code assigns unknown variable %s' % name)
            ty = self.env[name][0]
            expr = cexpr.parse('%s %s (%s)' % (name, op, rhs)) if op else cexpr.parse(rhs)
            _, v = TypedEval(self.env, None).ev(expr)
            from .sC32 import conv
            self.env[name] = (ty, conv(v, ty))
            return None
        m = re.match(r'^([A-Za-z_]\w*)\s*\((.*)\)$', t)
        if m:
            self.calls.append(m.group(1))
            return None
        raise AnalysisError('C36-BOUNDS: emitted statement %r is not modelled' % t[:60])


def bounds_problems(fn):
    probs, n = [], 0
    ssize, usize = C_NAMED['Py_ssize_t'], C_NAMED['size_t']
    for boundscheck, wraparound, neg, signed in itertools.product((True, False), (True, False), (True, False), (True, False)):
        text = emitted_bounds_code(fn, boundscheck, wraparound, neg, signed)
        wrap = wraparound and neg and signed
        mode = 'boundscheck=%s, wraparound=%s, negative_indices=%s, %s index' % (boundscheck, wraparound, neg, 'signed' if signed else 'unsigned')
        for extent in (1, 3):
            for i in range(-extent - 2 if signed else 0, extent + 3):
                n += 1
                env = {'i0': (ssize if signed else usize, i), 'n0': (ssize, extent)}
                for k in range(1, 4):
                    env['failed%d' % k] = (C_NAMED['int'], 12345)
                ex = CExec(env)
                try:
                    ex.run(text)
                except cexpr.EvalError as e:
                    raise AnalysisError('C36-BOUNDS: cannot evaluate the emitted code for %s: %s' % (mode, e))
                final = ex.env['i0'][1]
                wrapped = i + extent if (wrap and i < 0) else i
                ok = 0 <= wrapped < extent
                if boundscheck:
                    if ok and ex.left:
                        probs.append(('reject', mode, 'index %d of an axis of extent %d is rejected (IndexError) although it is valid' % (i, extent)))
                    elif not ok and not ex.left:
                        probs.append(('accept', mode, 'index %d of an axis of extent %d passes the bounds check: the element access is %d position(s) outside the buffer' % (
                            i, extent, (final - extent + 1) if final >= extent else -final)))
                    elif ok and final != wrapped:
                        probs.append(('index', mode, 'index %d of an axis of extent %d is accessed as %d instead of %d' % (i, extent, final, wrapped)))
                    elif not ok and ex.left and not any('IndexError' in c for c in ex.calls):
                        probs.append(('raise', mode, 'the error exit is taken without raising IndexError'))
                else:
                    if ex.left or final != wrapped:
                        probs.append(('index', mode, 'index %d of an axis of extent %d is accessed as %s instead of %d' % (i, extent, 'an error' if ex.left else final, wrapped)))
    return n, probs


def rule_bounds(ctx):
    import itertools as _it
    r = Rule('C36-BOUNDS', 'index checks emitted by Buffer.put_buffer_lookup_code (buffer and memoryview element access): error exit exactly for indices outside [0, extent) after the enabled '
                           'wrap-around, access with the wrapped index (all flag combinations, complete index partition around extents 1 and 3)', floor=150)
    fn = ctx.index.mod('Buffer').functions.get('put_buffer_lookup_code')
    if fn is None:
        raise AnalysisError('Buffer.put_buffer_lookup_code vanished')
    n, probs = bounds_problems(fn)
    for k in range(n):
        r.inst('bounds:case%d' % k)
    seen = set()
    for kind, mode, what in probs:
        if kind in seen:
            continue
        seen.add(kind)
        r.violate('Buffer.put_buffer_lookup_code:%s' % kind, BUFFER_PY, fn.lineno, 'put_buffer_lookup_code with %s: %s' % (mode, what))
    pc = ast.parse('''
def put_buffer_lookup_code(entry, index_signeds, index_cnames, directives, pos, code, negative_indices, in_nogil_context):
    if directives['boundscheck']:
        tmp = code.funcstate.allocate_temp(None, manage_ref=False)
        code.putln("%s = -1;" % tmp)
        for dim, (signed, cname, shape) in enumerate(zip(index_signeds, index_cnames, entry.get_buf_shapevars())):
            code.putln("if (%s > %s) %s = %d;" % (cname, shape, tmp, dim))
        code.putln("if (%s != -1) { __Pyx_RaiseBufferIndexError(%s); goto error; }" % (tmp, tmp))
    return entry.generate_buffer_lookup_code(code, index_cnames)
''').body[0]
    r.positive_control(any(k == 'accept' for k, _, _ in bounds_problems(pc)[1]), 'upper bound tested with > and no lower bound')
    return r


import itertools


def rule_validx(ctx):
    r = Rule('C36-VALIDX', '__Pyx_is_valid_index(i, limit) is true exactly for 0 <= i < limit (evaluated with C conversion rules on the complete partition of i relative to limit)', floor=20)
    ds = [d for d in ctx.cat.decls.get('__Pyx_is_valid_index', []) if d.kind == 'func' and d.body]
    if len(ds) != 1:
        raise AnalysisError('C36-VALIDX: %d definitions of __Pyx_is_valid_index' % len(ds))
    d = ds[0]
    names = d.param_names()
    m = re.fullmatch(r'\{\s*return\s+(.+?);\s*\}', ' '.join(d.body.split()))
    if not m or len(names) != 2:
        raise AnalysisError('C36-VALIDX: __Pyx_is_valid_index is no longer a single return expression of two parameters')
    expr = cexpr.parse(m.group(1))
    ptypes = []
    for t in d.param_types():
        if t not in C_NAMED:
            raise AnalysisError('C36-VALIDX: parameter type %s is not modelled' % t)
        ptypes.append(C_NAMED[t])
    bad = None
    for limit in (0, 1, 3, 2 ** 62):
        for i in sorted({-2 ** 63, -limit - 1, -limit, -1, 0, 1, limit - 1, limit, limit + 1, 2 ** 63 - 1}):
            if not (-2 ** 63 <= i <= 2 ** 63 - 1):
                continue
            r.inst('validx:%d:%d' % (limit, i))
            try:
                _, v = TypedEval({names[0]: (ptypes[0], i), names[1]: (ptypes[1], limit)}, None).ev(expr)
            except cexpr.EvalError as e:
                raise AnalysisError('C36-VALIDX: cannot evaluate `%s`: %s' % (m.group(1), e))
            if bool(v) != (0 <= i < limit) and bad is None:
                bad = (i, limit, bool(v))
    _, vpc = TypedEval({'i': (C_NAMED['Py_ssize_t'], -1), 'limit': (C_NAMED['Py_ssize_t'], 3)}, None).ev(cexpr.parse('i < limit'))
    r.positive_control(bool(vpc), 'a signed comparison accepts i = -1')
    if bad:
        r.violate('TypeConversion.c:__Pyx_is_valid_index', 'Cython/Utility/' + d.file, d.line,
                  '__Pyx_is_valid_index(%d, %d) is %s (`%s`): every fast-path index check built on it (list / tuple / bytearray / unicode item access, memoryview integer index) %s'
                  % (bad[0], bad[1], 'true' if bad[2] else 'false', m.group(1), 'lets an index outside [0, limit) reach the array access' if bad[2] else 'rejects a valid index'))
    return r


# ---------------------------------------------------------------------------------------------- C36-INIT
def rule_init(ctx):
    from .pC32 import Evaluator, Obj, Fresh, Call, Str, NOTFOUND
    ix = ctx.index
    r = Rule('C36-INIT', 'unbound / uninitialised checks: NameNode emits put_error_if_unbound for a local exactly when it may be NULL, NULL is not allowed and it is an object or a memoryview under '
                         'initializedcheck; the emitted checks test `!value`, raise and take the error exit', floor=30)
    rel = 'Cython/Compiler/ExprNodes.py'
    cls = ix.cls('ExprNodes', 'NameNode')
    got = ix.find_method(cls, 'generate_result_code')
    if got is None:
        raise AnalysisError('NameNode.generate_result_code vanished')
    fn = got[1]
    # the branch for locals: the `elif` whose test mentions entry.is_local
    branch = None
    for n in ast.walk(fn):
        if isinstance(n, ast.If) and 'is_local' in ast.unparse(n.test) and any(isinstance(c, ast.Call) and getattr(c.func, 'attr', '') == 'put_error_if_unbound' for c in ast.walk(n)):
            branch = n
            break
    if branch is None:
        raise AnalysisError('C36-INIT: the local-variable branch of NameNode.generate_result_code (test on entry.is_local, call of put_error_if_unbound) was not found')

    dom = {'self.cf_maybe_null': (False, True), 'self.cf_is_null': (False, True), 'self.allow_null': (False, True), 'self.initialized_check': (False, True),
           'kind': ('object', 'memoryview', 'other')}
    keys = sorted(dom)
    bad = None
    for combo in itertools.product(*[dom[k] for k in keys]):
        pt = dict(zip(keys, combo))
        point = {'self.cf_maybe_null': pt['self.cf_maybe_null'], 'self.cf_is_null': pt['self.cf_is_null'], 'self.allow_null': pt['self.allow_null'],
                 'self.initialized_check': pt['self.initialized_check'], 'entry.type.is_pyobject': pt['kind'] == 'object', 'entry.type.is_memoryviewslice': pt['kind'] == 'memoryview',
                 'entry.is_cpp_optional': False, 'self.entry.is_cpp_optional': False}

        def call_oracle(f, a, k):
            if f.endswith('check_for_null_code'):
                return Fresh('null check code')
            return NOTFOUND
        ev = Evaluator(lambda p: point.get(p, NOTFOUND), call_oracle, what='NameNode.generate_result_code')
        outs = set()
        for p in ev.run_block(branch.body, {'self': Obj('self', True), 'entry': Obj('entry', True), 'code': Obj('code', True)}):
            outs.add(any(isinstance(e, Call) and e.name == 'put_error_if_unbound' for e in p.events))
        if len(outs) != 1:
            raise AnalysisError('C36-INIT: the unbound check of NameNode is not decided by %s' % pt)
        got_check = outs.pop()
        want = (pt['self.cf_maybe_null'] or pt['self.cf_is_null']) and not pt['self.allow_null'] and (pt['kind'] == 'object' or (pt['kind'] == 'memoryview' and pt['self.initialized_check']))
        r.inst('init:name:%s' % sorted(pt.items()))
        if got_check != want and bad is None:
            bad = (pt, got_check)
    if bad:
        pt, g = bad
        r.violate('ExprNodes.NameNode.generate_result_code:unbound-check', rel, branch.lineno,
                  'NameNode.generate_result_code %s the unbound / uninitialised check for a %s local with cf_maybe_null=%s, cf_is_null=%s, allow_null=%s, initializedcheck=%s: %s'
                  % ('omits' if not g else 'emits', pt['kind'], pt['self.cf_maybe_null'], pt['self.cf_is_null'], pt['self.allow_null'], pt['self.initialized_check'],
                     'a NULL object pointer / memoryview without buffer is used by the following code' if not g else 'valid code raises UnboundLocalError'))
    # ---- the emitted text of the two checks
    writer = ix.cls('Code', 'CCodeWriter')
    pe = ix.find_method(writer, 'put_error_if_unbound')
    if pe is None:
        raise AnalysisError('CCodeWriter.put_error_if_unbound vanished')
    chk = Fresh('CHECK')

    def shape_problem(text, value_marker):
        """text: emitted C with the tested value spelled `value_marker`; must be  if (unlikely(!V)) { <raise>; goto error; }"""
        t = ' '.join(text.split())
        m = re.match(r'^if \((.*?)\) \{(.*)\}$', t)
        if not m:
            return 'is not a single `if (...) { ... }` statement'
        c = _c_strip(m.group(1))
        if not re.fullmatch(r'!\s*\(?%s\)?' % re.escape(value_marker), c):
            return 'tests `%s` instead of `!%s`' % (c, value_marker)
        body = m.group(2)
        if 'GOTO_ERROR' not in body:
            return 'does not take the error exit after raising'
        if not re.search(r'\b(?:__Pyx_Raise\w+|PyErr_\w+)\s*\(', body):
            return 'does not raise'
        return None
    texts = []
    for from_closure in (False, True):
        point = {'entry.from_closure': from_closure, 'entry.type.is_cpp_class': False, 'in_nogil_context': False}

        def call_oracle(f, a, k):
            if f == 'self.error_goto':
                return 'GOTO_ERROR;'
            if f.endswith('as_c_string_literal'):
                return '"name"'
            return NOTFOUND
        ev = Evaluator(lambda p: point.get(p, NOTFOUND), call_oracle, what='put_error_if_unbound')
        for p in ev.run_function(pe[1], {'unbound_check_code': chk}):
            for e in p.events:
                if isinstance(e, Call) and e.name == 'putln' and e.args and isinstance(e.args[0], Str):
                    texts.append(''.join(x if isinstance(x, str) else ('CHECK' if x is chk else 'FUNC') for x in e.args[0].parts))
    if not texts:
        raise AnalysisError('C36-INIT: put_error_if_unbound emits no statement')
    for tx in sorted(set(texts)):
        r.inst('init:put_error_if_unbound', sample=tx)
        pb = shape_problem(tx, 'CHECK')
        if pb:
            r.violate('Code.CCodeWriter.put_error_if_unbound', 'Cython/Compiler/Code.py', pe[1].lineno, 'put_error_if_unbound emits `%s`, which %s: the unbound variable is used as it is' % (tx, pb))
            break
    # AttributeNode: memoryview attribute
    acls = ix.cls('ExprNodes', 'AttributeNode')
    ag = ix.find_method(acls, 'generate_result_code')
    if ag is None:
        raise AnalysisError('AttributeNode.generate_result_code vanished')
    found = False
    for n in ast.walk(ag[1]):
        if isinstance(n, ast.If):
            chain = n
            if 'initialized_check' in ast.unparse(chain.test) and 'is_cpp_optional' not in ast.unparse(chain.test):
                res = Fresh('RESULT')

                def call_oracle(f, a, k):
                    if f == 'code.error_goto':
                        return 'GOTO_ERROR;'
                    if f == 'self.result':
                        return res
                    return NOTFOUND
                ev = Evaluator(lambda p: {'self.initialized_check': True}.get(p, NOTFOUND), call_oracle, what='AttributeNode.generate_result_code')
                for p in ev.run_block(chain.body, {'self': Obj('self', True), 'code': Obj('code', True)}):
                    for e in p.events:
                        if isinstance(e, Call) and e.name == 'putln' and e.args and isinstance(e.args[0], Str):
                            tx = ''.join(x if isinstance(x, str) else ('RESULT' if x is res else 'X') for x in e.args[0].parts)
                            found = True
                            r.inst('init:AttributeNode:memview', sample=tx)
                            pb = shape_problem(tx, 'RESULT.memview')
                            if pb:
                                r.violate('ExprNodes.AttributeNode.generate_result_code:memview-check', rel, chain.lineno,
                                          'the initializedcheck of a memoryview attribute emits `%s`, which %s' % (tx, pb))
    if not found:
        raise AnalysisError('C36-INIT: the initializedcheck branch of AttributeNode.generate_result_code was not found')
    pc = shape_problem('if (unlikely(CHECK)) { __Pyx_RaiseUnboundLocalError("x"); GOTO_ERROR; }', 'CHECK')
    r.positive_control(pc is not None, 'check without the negation')
    return r


def _c_strip(c):
    c = c.strip()
    while True:
        m = re.fullmatch(r'(?:likely|unlikely)\s*\((.*)\)', c)
        if m:
            c = m.group(1).strip()
            continue
        if c.startswith('(') and c.endswith(')'):
            d, ok = 0, True
            for ch in c[1:-1]:
                if ch == '(':
                    d += 1
                elif ch == ')':
                    d -= 1
                    if d < 0:
                        ok = False
                        break
            if ok and d == 0:
                c = c[1:-1].strip()
                continue
        return c


# ---------------------------------------------------------------------------------------------- C36-SHIFTW
class ShiftInterp(Interp):
    """Interp + (a) a width check of every << / >> count, (b) refinement of a variable's magnitude by `v >= K` / `v < K` guards whose K is a model quantity."""

    def __init__(self, model, size, params):
        Interp.__init__(self, model, size, params)
        self.shifts = {}            # expression text -> (count bound | None, width | None)
        self.shift_findings = []

    def ev(self, e, env, types):
        if e[0] == 'bin' and e[1] in ('<<', '>>'):
            a, ta = self.ev(e[2], env, types)
            b, tb = self.ev(e[3], env, types)
            pt = self._promote(ta)
            width = pt[0] if pt else None
            txt = unparse(e)
            old = self.shifts.get(txt)
            if old is None or (b is not None and (old[0] is None or b > old[0])):
                self.shifts[txt] = (b, width)
            if b is not None and width is not None and b >= width:
                self.shift_findings.append((txt, b, width))
            return (a, pt) if e[1] == '>>' else (None, pt)
        if e[0] == 'bin' and e[1] == '&&':
            # short circuit: the right operand is only evaluated when the left one holds
            left = e[2]
            while left[0] == 'call' and left[1] in ('likely', 'unlikely') and len(left[2]) == 1:
                left = left[2][0]
            self.ev(e[2], env, types)
            env2 = env
            if left[0] == 'bin' and left[1] in ('<', '<=') and left[2][0] == 'id' and left[2][1] in env and env[left[2][1]] is not None:
                try:
                    k = self._ceval(left[3], {'size': self.size, 'PyLong_SHIFT': self.m.shift})
                    env2 = dict(env)
                    env2[left[2][1]] = min(env2[left[2][1]], max(k - 1 if left[1] == '<' else k, 0))
                except cexpr.EvalError:
                    pass
            self.ev(e[3], env2, types)
            return 1, (32, True)
        return Interp.ev(self, e, env, types)

    def stmt(self, st, env, types):
        if st.kind == 'if':
            try:
                ce = cexpr.parse(st.text)
            except cexpr.ParseError:
                return Interp.stmt(self, st, env, types)
            core = ce
            while core[0] == 'call' and core[1] in ('likely', 'unlikely') and len(core[2]) == 1:
                core = core[2][0]
            if core[0] == 'bin' and core[1] in ('>=', '>', '<', '<=') and core[2][0] == 'id':
                try:
                    k = self._ceval(core[3], {'size': self.size, 'PyLong_SHIFT': self.m.shift})
                except cexpr.EvalError:
                    k = None
                v = core[2][1]
                if k is not None and v in env and env[v] is not None:
                    self.ev(ce, env, types)
                    op = core[1]
                    # bound of |v| when the test is true / false (v is a non-negative count here: only upper bounds are refined)
                    hi_true = {'<': k - 1, '<=': k}.get(op)
                    hi_false = {'>=': k - 1, '>': k}.get(op)
                    outs = []
                    et = dict(env)
                    if hi_true is not None:
                        et[v] = min(et[v], max(hi_true, 0))
                    ef = dict(env)
                    if hi_false is not None:
                        ef[v] = min(ef[v], max(hi_false, 0))
                    feasible_true = not (op in ('>=', '>') and env[v] < (k if op == '>=' else k + 1))
                    if feasible_true:
                        outs.extend(self.seq(pC17.as_list(st.body), et, dict(types)))
                    if st.orelse is not None:
                        outs.extend(self.seq(pC17.as_list(st.orelse), ef, dict(types)))
                    else:
                        outs.append(('fall', ef, dict(types)))
                    return outs
        return Interp.stmt(self, st, env, types)


def admitted_shift_counts(ix, opname):
    """largest constant shift count the Optimize.py handler of `opname` (__lshift__ / __rshift__) hands to the fast path; None = unbounded"""
    from .pC32 import Evaluator, Obj, Call, NOTFOUND
    cls = ix.cls('Optimize', 'OptimizeBuiltinCalls')
    got = ix.find_method(cls, '_handle_simple_method_object_%s' % opname)
    if got is None:
        raise AnalysisError('Optimize.OptimizeBuiltinCalls._handle_simple_method_object_%s vanished' % opname)
    fn = got[1]
    admitted = []
    cands = list(range(-2, 140)) + [2 ** 30, 2 ** 31, 2 ** 62, 2 ** 64]
    for c in cands:
        point = {'args[1].constant_result': c}

        def call_oracle(f, a, k):
            if f == 'isinstance':
                return True
            if f == 'len':
                return 2
            if f.endswith('has_constant_result'):
                return True
            return NOTFOUND
        ev = Evaluator(lambda p: point.get(p, NOTFOUND), call_oracle, what='Optimize handler of %s' % opname)
        res = set()
        for p in ev.run_function(fn, {}):
            if p.kind == 'return':
                res.add(isinstance(p.ret, Call) and p.ret.name.startswith('_optimise_num'))
        if len(res) != 1:
            raise AnalysisError('C36-SHIFTW: the handler of %s is not decided for the constant %d' % (opname, c))
        if res.pop():
            admitted.append(c)
    if not admitted:
        raise AnalysisError('C36-SHIFTW: the handler of %s admits no constant' % opname)
    if min(admitted) < 0:
        return fn, None, min(admitted)
    return fn, (None if max(admitted) >= 2 ** 30 else max(admitted)), min(admitted)


def unvalidated_lshifts(body_text):
    """-> [(result variable, shifted operand, count, validated on every path to a return that mentions the variable)]"""
    from . import pC35 as _cfg
    cfg = _cfg.CFG(body_text)
    out = []
    for nid, node in enumerate(cfg.nodes):
        if node.kind != 'ev':
            continue
        m = re.match(r'^(?:[\w\s]+\s)?([A-Za-z_]\w*)\s*=\s*([A-Za-z_]\w*)\s*<<\s*([A-Za-z_]\w*)$', node.text.strip())
        if not m:
            continue
        v, l, c = m.groups()
        back = re.compile(r'\b%s\s*>>\s*%s\b' % (re.escape(v), re.escape(c)))
        ok = True
        seen, work = set(), [(s2, False) for s2 in node.succ]
        while work:
            x, val = work.pop()
            if (x, val) in seen:
                continue
            seen.add((x, val))
            nd = cfg.nodes[x]
            if nd.kind == 'br' and back.search(nd.text) and re.search(r'\b%s\b' % re.escape(l), back.sub('', nd.text)) and re.search(r'==|!=', nd.text):
                val = True
            if nd.kind == 'ret':
                if re.search(r'\b%s\b' % re.escape(v), nd.text) and not val:
                    ok = False
                continue
            if nd.kind == 'ev' and re.match(r'^%s\s*=(?!=)' % re.escape(v), nd.text.strip()):
                continue              # the variable is overwritten
            for s2 in nd.succ:
                work.append((s2, val))
        out.append((v, l, c, ok))
    return out


def rule_shiftw(ctx):
    import struct
    from . import pC35 as _cfg
    r = Rule('C36-SHIFTW', 'shift counts of the PyLongBinop unpacked fast path (Lshift / Rshift with a constant count admitted by Optimize.py) stay below the width of the shifted type '
                           'unless the statement sits behind a width test', floor=5)
    sec = ctx.cat.files.get(UFILE, {}).get(SECTION)
    if not sec or 'impl' not in sec:
        raise AnalysisError('Optimize.c::PyLongBinop missing')
    tree = P.tpl_tree(sec['impl'].raw)
    host_long = struct.calcsize('l')
    from ..props import C02
    shifts = C02.pylong_shifts()
    for op, handler in (('Lshift', '__lshift__'), ('Rshift', '__rshift__')):
        fn, cmax, cmin = admitted_shift_counts(ctx.index, handler)
        if cmin < 0:
            r.inst('shiftw:%s:handler' % op)
            r.violate('Optimize.OptimizeBuiltinCalls._handle_simple_method_object_%s:negative' % handler, 'Cython/Compiler/Optimize.py', fn.lineno,
                      'the %s handler admits the negative constant shift count %d into the C fast path: shifting by a negative count is undefined behaviour' % (op, cmin))
            continue
        bound = cmax if cmax is not None else 2 ** 30
        text = P.tpl_expand(tree, dict(op=op, order='ObjC', ret_type=P.Obj(is_pyobject=True)))
        fb = function_body(strip_c_comments(text), '__Pyx_Unpacked_')
        if fb is None:
            raise AnalysisError('C36-SHIFTW: __Pyx_Unpacked_* not found for %s' % op)
        name, params, body = fb
        variants = _cfg.pp_variants(body)
        if variants is None:
            raise AnalysisError('C36-SHIFTW: too many preprocessor variants in %s' % name)
        ptypes = {}
        for p in params.split(','):
            mm = re.match(r'^\s*(.*?)(\w+)\s*$', p, re.S)
            if mm:
                ptypes[mm.group(2)] = ' '.join(mm.group(1).replace('*', ' * ').split())
        sizes = sorted({int(x) for x in re.findall(r'\bsize\s*==\s*(\d+)', body)}) or [1]
        seen = set()
        for label, vtext in variants:
            top = pC17.parse_body(vtext)
            for wlong in (4, 8):
                for sh in shifts:
                    model = Model(wlong, sh, bound)
                    for size in sizes + [max(sizes) + 1]:
                        it = ShiftInterp(model, size, {n: (t, bound if n == 'intval' else None) for n, t in ptypes.items()})
                        it.run(top)
                        for txt, (b, w) in it.shifts.items():
                            if txt not in seen:
                                seen.add(txt)
                                r.inst('shiftw:%s:%s' % (op, txt), sample='%s: `%s` count <= %s, width %s' % (op, txt, b, w))
                        for txt, b, w in it.shift_findings:
                            key = 'shiftw:%s:%s' % (op, txt)
                            msg = ('PyLongBinop(op=%s): `%s` is executed with a shift count of up to %d in a %d-bit type (sizeof(long)=%d; the %s handler of Optimize.py admits constant counts up to %s): '
                                   'a shift by >= the width is undefined behaviour (x86 masks the count: `x << 64` yields x)' % (op, txt, b, w, wlong, handler, cmax if cmax is not None else 'any value'))
                            if wlong == host_long:
                                if key not in {f.construct for f in r.findings}:
                                    r.violate(key, REL_C, sec['impl'].line, msg)
                            else:
                                note = 'other data model (sizeof(long)=%d): %s' % (wlong, msg)
                                if note not in r.infos:
                                    r.info(note)
            # ---- a signed left shift whose result need not fit is validated by a round trip before the value is used as the result
            if op == 'Lshift':
                for label, vtext in variants:
                    for v, l, c, ok in unvalidated_lshifts(vtext):
                        key = 'shiftw:Lshift:validate:%s' % v
                        if key not in seen:
                            seen.add(key)
                            r.inst(key, sample='`%s = %s << %s` validated before return: %s' % (v, l, c, ok))
                        if not ok and key not in {f.construct for f in r.findings}:
                            r.violate(key, REL_C, sec['impl'].line,
                                      'PyLongBinop(op=Lshift): `%s = %s << %s` reaches a `return` of %s without a round-trip test (`%s == %s >> %s`, mismatch -> wider path): the shifted value can have up to %s '
                                      'bits, so the signed shift overflows (undefined behaviour) and the truncated value is returned instead of the arbitrary-precision result' % (v, l, c, v, l, v, c, 'size*PyLong_SHIFT + %s' % (cmax if cmax is not None else 'any')))
    # positive control
    pc = '{ long x; x = a << b; return PyLong_FromLong(x); }'
    it = ShiftInterp(Model(8, 30, 64), 1, {'a': ('long', None), 'b': ('long', 64)})
    it.run(pC17.parse_body(pc))
    it2 = ShiftInterp(Model(8, 30, 64), 1, {'a': ('long', None), 'b': ('long', 64)})
    it2.run(pC17.parse_body('{ long x; if (b >= (long)(sizeof(long)*8)) { x = 0; } else x = a >> b; return PyLong_FromLong(x); }'))
    r.positive_control(bool(it.shift_findings) and not it2.shift_findings, 'unguarded shift by up to 64; the same shift behind a width test')
    return r
