"""C22-CAUSE: the `raise X from C` decision of __Pyx_Raise, decided as a table over the complete partition of the cause operand.

Mechanism.  RaiseStatNode emits `__Pyx_Raise(type, value, tb, cause)`; the 4th argument is NULL when the statement has no `from`
clause and the evaluated cause expression otherwise.  The language reference (7.8 "The raise statement") and ceval.c:do_raise fix,
for each kind of cause object, what must happen before the exception is set:

    cause            effect on the raised exception
    -------------    -----------------------------------------------------------------------------------------------
    (no from)        PyException_SetCause is NOT called (it would set __suppress_context__)
    None             PyException_SetCause(value, NULL): clears __cause__, sets __suppress_context__ = True
    exception class  the class is called, PyException_SetCause(value, <new instance>)
    exception inst.  PyException_SetCause(value, cause)
    anything else    TypeError; the requested exception is not raised

{no from, None, class, instance, other} is a complete partition of what the 4th argument can be.  The rule does not run
__Pyx_Raise: it parses the C body (statement parser of rules/pC17, expression parser of engine/cexpr), and explores every path
through it once per element of the partition with a three-valued evaluator (conditions that do not depend on the cause are
explored both ways, every #if arm is explored), recording the PyException_SetCause / PyErr_SetObject calls met.  The resulting
decision table is compared with the reference table above.  What is compared is the final state of the two fields PyException_SetCause
writes, (->cause, ->suppress_context): a call writes (x, 1), a direct store `((PyBaseExceptionObject*) value)->suppress_context = 1` /
`Py_CLEAR(value->cause)` / `Py_XSETREF(value->cause, x)` writes that one field only (fourth round: seed C22d replaced the call for
`from None` by the store of the flag alone, which leaves an existing __cause__ in place).  Constructs the explorer cannot model (loops
touching the cause, stores to the fields of another object, ->context, calls hidden in conditional sub-expressions) are ANALYSIS-ERRORs.

The module also holds the small generic path explorer (`Explorer`) that rules/sC28.py reuses for the BinopSlot template.
"""
import ast, re

from ..core import Rule, AnalysisError, node_src
from ..engine import cexpr, pyflow
from .pC17 import parse_body, as_list, walk as st_walk


# ======================================================================================= text helpers
def blank_strings(text):
    """Replace C string literals (incl. adjacent concatenation) by the identifier __STR__ so that cexpr can tokenize the text."""
    out, i, n = [], 0, len(text)
    while i < n:
        ch = text[i]
        if ch == '"':
            j = i + 1
            while j < n and text[j] != '"':
                j += 2 if text[j] == '\\' else 1
            out.append(' __STR__ ')
            i = j + 1
        elif ch == "'":
            j = i + 1
            while j < n and text[j] != "'":
                j += 2 if text[j] == '\\' else 1
            out.append(text[i:j + 1])
            i = j + 1
        else:
            out.append(ch)
            i += 1
    s = ''.join(out)
    return re.sub(r'__STR__(\s+__STR__)+', '__STR__', s)


def split_top(s, sep=','):
    out, cur, depth = [], [], 0
    i = 0
    while i < len(s):
        ch = s[i]
        if ch in '([{':
            depth += 1
        elif ch in ')]}':
            depth -= 1
        if ch == sep and depth == 0:
            out.append(''.join(cur))
            cur = []
        else:
            cur.append(ch)
        i += 1
    out.append(''.join(cur))
    return out


PP = re.compile(r'^[ \t]*#[ \t]*(\w+)(.*)$')


def pp_variants(text, limit=64):
    """Resolve the preprocessor conditionals of a function body by enumeration: -> [(label, text without # lines)].
    Every #if group contributes one alternative per arm (plus the empty arm when it has no #else); groups with the same
    sequence of condition texts are decided together (the same macro cannot be true and false in one translation unit).
    Directives other than if/ifdef/ifndef/elif/else/endif inside a body are not modelled."""
    lines = text.split('\n')

    def parse(i, stop_at_group_end):
        """returns (items, next index); items = list of ('line', text) | ('group', [(cond, items)], has_else)"""
        items = []
        while i < len(lines):
            m = PP.match(lines[i])
            if not m:
                items.append(('line', lines[i]))
                i += 1
                continue
            d, rest = m.group(1), ' '.join(m.group(2).split())
            while lines[i].rstrip().endswith('\\'):
                i += 1
                rest += ' ' + ' '.join(lines[i].split())
            if d in ('if', 'ifdef', 'ifndef'):
                arms, has_else = [], False
                cond = (d + ' ' + rest) if d != 'if' else rest
                sub, i = parse(i + 1, True)
                arms.append((cond, sub))
                while True:
                    if i >= len(lines):
                        raise AnalysisError('unterminated #if in C function body')
                    m2 = PP.match(lines[i])
                    d2, rest2 = m2.group(1), ' '.join(m2.group(2).split())
                    if d2 == 'elif':
                        sub, i = parse(i + 1, True)
                        arms.append((rest2, sub))
                    elif d2 == 'else':
                        has_else = True
                        sub, i = parse(i + 1, True)
                        arms.append(('else', sub))
                    elif d2 == 'endif':
                        i += 1
                        break
                    else:
                        raise AnalysisError('unexpected #%s in C function body' % d2)
                items.append(('group', arms, has_else))
            elif d in ('elif', 'else', 'endif'):
                if not stop_at_group_end:
                    raise AnalysisError('unbalanced #%s in C function body' % d)
                return items, i
            else:
                raise AnalysisError('preprocessor directive #%s inside a C function body is not modelled' % d)
        if stop_at_group_end:
            raise AnalysisError('unterminated #if in C function body')
        return items, i

    items, _ = parse(0, False)
    sigs = []

    def collect(items):
        for it in items:
            if it[0] == 'group':
                sig = tuple(c for c, _ in it[1])
                if sig not in sigs:
                    sigs.append(sig)
                for _, sub in it[1]:
                    collect(sub)
    collect(items)
    choices = [[]]
    for sig in sigs:
        n = len(sig) + (0 if sig[-1] == 'else' else 1)
        choices = [c + [k] for c in choices for k in range(n)]
        if len(choices) > limit:
            raise AnalysisError('more than %d preprocessor configurations in one C function body' % limit)

    def render(items, choice):
        out = []
        for it in items:
            if it[0] == 'line':
                out.append(it[1])
            else:
                sig = tuple(c for c, _ in it[1])
                k = choice[sigs.index(sig)]
                if k < len(it[1]):
                    out.append(render(it[1][k][1], choice))
        return '\n'.join(out)

    res = []
    for ch in choices:
        label = ', '.join('%s' % ((sig[k] if sig[k] != 'else' else 'not(' + ' / '.join(sig[:-1]) + ')') if k < len(sig) else 'not(' + ' / '.join(sig) + ')')
                          for sig, k in zip(sigs, ch)) or 'no #if'
        res.append((label, render(items, dict(zip(range(len(sigs)), ch)))))
    return res


# ======================================================================================= generic path explorer
DECL = re.compile(r'^(?:(?:const|unsigned|signed|struct|static|register|volatile)\s+)*[A-Za-z_]\w*(?:\s*\*+\s*(?:const\s+)?|\s+)(?:const\s+)?([A-Za-z_]\w*)\s*(=|,|$|\[)')
KEYWORDS = ('return', 'goto', 'break', 'continue', 'else', 'case', 'sizeof')


class Client:
    """What a rule plugs into the explorer.  Abstract values must be hashable."""
    events = ()                     # names of the calls that are recorded

    def initial(self):
        return [{}]

    def values(self, node, env):
        """possible abstract values of an expression (list: the explorer forks)"""
        return ['UNK']

    def atom(self, node, env):
        """truth of a condition leaf: True / False / None (unknown: both branches are explored)"""
        return None

    def assume(self, node, truth, env):
        """refine env by a leaf condition taken as `truth`; None = infeasible"""
        return env

    def event(self, name, args, env):
        return (name,)

    def values_text(self, text, env):
        """possible values of an expression the expression parser cannot read; None = not modelled"""
        return None

    def assigned(self, name, value):
        """event recorded when `name` receives `value` (None = nothing)"""
        return None

    def returned(self, text, env):
        """event recorded at `return text;` (None = nothing)"""
        return None

    def relevant(self, text):
        """does a piece of text the explorer cannot model touch tracked state?"""
        return any(re.search(r'\b%s\b' % re.escape(e), text) for e in self.events)

    def special(self, text, env):
        """a simple statement the client models itself: -> list of events, or None (not special)"""
        return None


class Explorer:
    """All paths through a C function body (parsed by pC17.parse_body) as (env, trace) states, path-sensitive in the
    conditions the client can decide.  Forward gotos to top-level labels are followed; loops and switches are skipped when
    they do not touch tracked state (their gotos/returns are kept as possible exits) and are an AnalysisError otherwise."""

    MAX = 4000

    def __init__(self, client, what):
        self.c, self.what = client, what

    # -------------------------------------------------------------------------------- expressions
    def parse(self, text):
        try:
            return cexpr.parse(blank_strings(text))
        except (cexpr.ParseError, ValueError):
            return None

    def tri(self, e, env):
        k = e[0]
        if k == 'num':
            return e[1] != 0
        if k == 'call' and e[1] in ('likely', 'unlikely', '__builtin_expect') and e[2]:
            return self.tri(e[2][0], env)
        if k == 'cast':
            return self.tri(e[2], env)
        if k == 'un' and e[1] == '!':
            v = self.tri(e[2], env)
            return None if v is None else (not v)
        if k == 'bin' and e[1] in ('&&', '||'):
            a, b = self.tri(e[2], env), self.tri(e[3], env)
            if e[1] == '&&':
                if a is False or b is False:
                    return False
                return True if (a and b) else None
            if a is True or b is True:
                return True
            return False if (a is False and b is False) else None
        return self.c.atom(e, env)

    def assume(self, e, truth, env):
        k = e[0]
        if k == 'call' and e[1] in ('likely', 'unlikely', '__builtin_expect') and e[2]:
            return self.assume(e[2][0], truth, env)
        if k == 'cast':
            return self.assume(e[2], truth, env)
        if k == 'un' and e[1] == '!':
            return self.assume(e[2], not truth, env)
        if k == 'bin' and ((e[1] == '&&' and truth) or (e[1] == '||' and not truth)):
            env = self.assume(e[2], truth, env)
            return None if env is None else self.assume(e[3], truth, env)
        if k == 'bin' and e[1] in ('&&', '||'):
            # `a || b` taken as true (`a && b` as false): when one operand is decided the other way, the other operand carries the outcome
            a, b = self.tri(e[2], env), self.tri(e[3], env)
            if a is not None and a != truth and (b is None or b == truth):
                return self.assume(e[3], truth, env)
            if b is not None and b != truth and (a is None or a == truth):
                return self.assume(e[2], truth, env)
            return env
        return self.c.assume(e, truth, env)

    def events_of(self, e, env, conditional=False):
        """events of the calls in e, in evaluation order; a recorded call inside a conditionally evaluated operand cannot be modelled"""
        out = []
        k = e[0]
        if k == 'bin' and e[1] in ('&&', '||'):
            out += self.events_of(e[2], env, conditional)
            out += self.events_of(e[3], env, True)
        elif k == 'tern':
            out += self.events_of(e[1], env, conditional)
            out += self.events_of(e[2], env, True)
            out += self.events_of(e[3], env, True)
        elif k == 'call':
            for a in e[2]:
                out += self.events_of(a, env, conditional)
            if e[1] in self.c.events:
                if conditional:
                    raise AnalysisError('%s: call of %s inside a conditionally evaluated sub-expression is not modelled' % (self.what, e[1]))
                ev = self.c.event(e[1], e[2], env)
                if ev is not None:
                    out.append(ev)
        else:
            for x in e[1:]:
                if isinstance(x, tuple):
                    out += self.events_of(x, env, conditional)
        return out

    # -------------------------------------------------------------------------------- statements
    @staticmethod
    def freeze(env, trace):
        return (frozenset(env.items()), trace)

    def expr_effects(self, text, state):
        """evaluate an expression for its recorded calls only -> state"""
        env, trace = dict(state[0]), state[1]
        if not text.strip():
            return state
        e = self.parse(text)
        if e is None:
            if self.c.relevant(text):
                raise AnalysisError('%s: cannot parse `%s`' % (self.what, text[:80]))
            return state
        return self.freeze(env, trace + tuple(self.events_of(e, env)))

    def simple(self, text, state):
        """-> [('fall'|'return'|('goto', label), state)]"""
        text = text.strip()
        if not text:
            return [('fall', state)]
        m = re.match(r'^return\b(.*)$', text, re.S)
        if m:
            st2 = self.expr_effects(m.group(1), state)
            ev = self.c.returned(m.group(1).strip(), dict(st2[0]))
            if ev is not None:
                st2 = (st2[0], st2[1] + (ev,))
            return [('return', st2)]
        m = re.match(r'^goto\s+(\w+)$', text)
        if m:
            return [(('goto', m.group(1)), state)]
        if re.match(r'^(break|continue)\b', text):
            raise AnalysisError('%s: %s outside a modelled loop' % (self.what, text))
        sp = self.c.special(text, dict(state[0]))
        if sp is not None:
            if isinstance(sp, tuple) and len(sp) == 3 and sp[0] == 'env':      # the client also updates the path state
                return [('fall', self.freeze(sp[1], state[1] + tuple(sp[2])))]
            return [('fall', (state[0], state[1] + tuple(sp)))]
        first = re.match(r'[A-Za-z_]\w*', text)
        if DECL.match(text) and first and first.group(0) not in KEYWORDS:
            # declaration: type words, then declarators
            states = [state]
            decls = split_top(text)
            head = DECL.match(decls[0])
            decls[0] = decls[0][head.start(1):]
            for d in decls:
                d = d.strip().lstrip('*').strip()
                mm = re.match(r'^(?:const\s+)?([A-Za-z_]\w*)\s*(?:\[[^\]]*\])?\s*(?:=(?!=)(.*))?$', d, re.S)
                if not mm:
                    if self.c.relevant(d):
                        raise AnalysisError('%s: cannot model declarator `%s`' % (self.what, d[:60]))
                    continue
                states = [s2 for s in states for s2 in self.assign(mm.group(1), mm.group(2), s)]
            return [('fall', s) for s in states]
        mm = re.match(r'^([A-Za-z_]\w*)\s*=(?!=)(.*)$', text, re.S)
        if mm:
            return [('fall', s) for s in self.assign(mm.group(1), mm.group(2), state)]
        return [('fall', self.expr_effects(re.sub(r'^\(\s*void\s*\)', '', text), state))]

    def assign(self, name, rhs, state):
        env, trace = dict(state[0]), state[1]
        if rhs is None:
            if name in env:
                env[name] = 'UNK'
            return [self.freeze(env, trace)]
        e = self.parse(rhs)
        if e is None:
            vals = self.c.values_text(rhs, env)
            if vals is None:
                if self.c.relevant(rhs) or name in env:
                    raise AnalysisError('%s: cannot parse `%s`' % (self.what, rhs[:80]))
                vals = ['UNK']
        else:
            trace = trace + tuple(self.events_of(e, env))
            vals = self.c.values(e, env)
        out = []
        for v in vals:
            e2 = dict(env)
            if v != 'UNK' or name in e2:
                e2[name] = v
            ev = self.c.assigned(name, v)
            out.append(self.freeze(e2, trace + ((ev,) if ev is not None else ())))
        return out

    def branch(self, cond, states):
        t_out, f_out = set(), set()
        e = self.parse(cond)
        for st in states:
            env, trace = dict(st[0]), st[1]
            if e is None:
                if self.c.relevant(cond):
                    raise AnalysisError('%s: cannot parse condition `%s`' % (self.what, cond[:80]))
                t_out.add(st)
                f_out.add(st)
                continue
            trace = trace + tuple(self.events_of(e, env))
            v = self.tri(e, env)
            for truth, sink in ((True, t_out), (False, f_out)):
                if v is not None and v != truth:
                    continue
                e2 = self.assume(e, truth, dict(env)) if v is None else env
                if e2 is None:
                    continue
                sink.add(self.freeze(e2, trace))
        return t_out, f_out

    def block(self, stmts, states):
        """-> (fall-through states, [(exit kind, state)])"""
        exits = []
        cur = set(states)
        for st in stmts:
            if not cur:
                break
            if len(cur) > self.MAX:
                raise AnalysisError('%s: more than %d path states' % (self.what, self.MAX))
            k = st.kind
            if k == 'simple':
                nxt = set()
                for s in cur:
                    for kind, s2 in self.simple(st.text, s):
                        if kind == 'fall':
                            nxt.add(s2)
                        else:
                            exits.append((kind, s2))
                cur = nxt
            elif k == 'block':
                cur, ex = self.block(st.body, cur)
                exits += ex
            elif k == 'if':
                t, f = self.branch(st.text, cur)
                a, ex = self.block(as_list(st.body), t)
                exits += ex
                if st.orelse is not None:
                    b, ex = self.block(as_list(st.orelse), f)
                    exits += ex
                else:
                    b = f
                cur = set(a) | set(b)
            elif k == 'label':
                continue
            elif k in ('while', 'for', 'do', 'switch'):
                texts = [st.text] + [x.text for x in st_walk(as_list(st.body))]
                tracked = {n for s in cur for n, _ in s[0]}
                if any(self.c.relevant(t) or any(re.search(r'\b%s\b' % re.escape(n), t) for n in tracked) for t in texts if t):
                    raise AnalysisError('%s: a %s statement touches tracked state; not modelled' % (self.what, k))
                for x in st_walk(as_list(st.body)):
                    if x.kind == 'simple':
                        m = re.match(r'^goto\s+(\w+)$', x.text.strip())
                        if m:
                            exits += [(('goto', m.group(1)), s) for s in cur]
                        elif re.match(r'^return\b', x.text.strip()):
                            exits += [('return', s) for s in cur]
            elif k == 'pp':
                raise AnalysisError('%s: preprocessor line left in the body (`%s`)' % (self.what, st.text[:40]))
            else:
                raise AnalysisError('%s: statement kind %s is not modelled' % (self.what, k))
        return cur, exits

    def run(self, body_text):
        """-> set of final states (env, trace) of all paths to a return or to the end of the body"""
        stmts = parse_body(body_text)
        labels = {st.text: i for i, st in enumerate(stmts) if st.kind == 'label'}
        finals = set()
        init = {self.freeze(e, ()) for e in self.c.initial()}
        work = [(0, init)]
        seen = set()
        while work:
            idx, states = work.pop()
            states = {s for s in states if (idx, s) not in seen}
            seen |= {(idx, s) for s in states}
            if not states:
                continue
            fall, exits = self.block(stmts[idx:], states)
            finals |= set(fall)
            for kind, s in exits:
                if kind == 'return':
                    finals.add(s)
                else:
                    lab = kind[1]
                    if lab not in labels:
                        raise AnalysisError('%s: goto %s — label is not at the top level of the function' % (self.what, lab))
                    work.append((labels[lab] + 1, {s}))
        return finals


# ======================================================================================= the raise-from decision table
KINDS = ('absent', 'None', 'class', 'instance', 'other')
CALLERS = ('PyObject_CallObject', 'PyObject_CallNoArgs', '__Pyx_PyObject_CallNoArg', 'PyObject_Call', '__Pyx_PyObject_Call',
           'PyObject_CallFunctionObjArgs', '__Pyx_PyObject_CallOneArg')
# reference: Python language reference 7.8 + ceval.c:do_raise (see module docstring).  value = expected list of SetCause
# arguments on every path that raises the requested exception; 'no-raise' = the exception must not be raised at all.
# The effect is the final state of the two fields PyException_SetCause writes: (->cause, ->suppress_context); KEEP = not written.
# PyException_SetCause(v, x) writes (x, 1) (Objects/exceptions.c); a direct store to one of the fields writes that field only.
REFERENCE = {'absent': ('KEEP', 'KEEP'), 'None': ('NULL', '1'), 'class': ('NEW', '1'), 'instance': ('CAUSE', '1'), 'other': 'no-raise'}
UNMODELLED = re.compile(r'->\s*context\b|__cause__|__suppress_context__|__context__|PyObject_SetAttr|_PyErr_ChainExceptions|PyException_SetContext')
FIELD_STORE = re.compile(r'^(?P<obj>.+?)->\s*(?P<f>cause|suppress_context)\s*=(?!=)\s*(?P<rhs>.+)$', re.S)
FIELD_MACRO = re.compile(r'^(?P<m>Py_CLEAR|Py_XSETREF|Py_SETREF|Py_XDECREF|Py_DECREF|Py_XINCREF|Py_INCREF)\s*\(\s*(?P<obj>.+?)->\s*(?P<f>cause|suppress_context)\s*(?:,(?P<rhs>.+))?\)$', re.S)


def fold_effect(trace):
    """(->cause, ->suppress_context) after the setcause / store events of one path"""
    cause, sup = 'KEEP', 'KEEP'
    for ev in trace:
        if ev[0] == 'setcause':
            cause, sup = ev[1], '1'
        elif ev[0] == 'store':
            if ev[1] == 'cause':
                cause = ev[2]
            else:
                sup = ev[2]
    return cause, sup


class CauseClient(Client):
    events = ('PyException_SetCause', 'PyErr_SetObject', '__Pyx_ErrRestore', 'PyErr_Restore', '__Pyx_ErrRestoreInState')

    def __init__(self, kind, param, value_param=None):
        self.kind, self.param, self.value_param = kind, param, value_param

    def special(self, text, env):
        m = FIELD_STORE.match(text)
        mac = None
        if not m:
            m = mac = FIELD_MACRO.match(text)
            if not m:
                return None
        obj = re.sub(r'\(\s*(?:struct\s+)?\w+\s*\*\s*\)', '', m.group('obj'))
        obj = re.sub(r'[()\s]', '', obj)
        if self.value_param is None or obj != self.value_param:
            raise AnalysisError('a store to ->%s of `%s` (not the exception being raised) is not modelled' % (m.group('f'), m.group('obj').strip()[:40]))
        if mac is not None and m.group('m') in ('Py_XDECREF', 'Py_DECREF', 'Py_XINCREF', 'Py_INCREF'):
            return []
        if mac is not None and m.group('m') == 'Py_CLEAR':
            rhs = '0'
        else:
            rhs = m.group('rhs')
            if rhs is None:
                raise AnalysisError('%s of ->%s without a value' % (m.group('m'), m.group('f')))
        try:
            e = cexpr.parse(blank_strings(rhs))
        except (cexpr.ParseError, ValueError):
            raise AnalysisError('cannot parse the value stored to ->%s: `%s`' % (m.group('f'), rhs.strip()[:60]))
        if m.group('f') == 'cause':
            return [('store', 'cause', self.sym(e, env))]
        v = e
        while v[0] == 'cast':
            v = v[2]
        return [('store', 'suppress_context', str(v[1]) if v[0] == 'num' else 'UNK')]

    def initial(self):
        return [{self.param: 'NULL' if self.kind == 'absent' else 'CAUSE'}]

    def relevant(self, text):
        if Client.relevant(self, text):
            return True
        return bool(re.search(r'\b%s\b' % re.escape(self.param), text))

    def sym(self, e, env):
        k = e[0]
        if k == 'cast':
            return self.sym(e[2], env)
        if k == 'num':
            return 'NULL' if e[1] == 0 else 'UNK'
        if k == 'id':
            if e[1] == 'NULL':
                return 'NULL'
            if e[1] == 'Py_None':
                return 'NONE'
            return env.get(e[1], 'UNK')
        if k == 'call' and e[1] in CALLERS and e[2] and self.sym(e[2][0], env) == 'CAUSE':
            return 'NEW'
        if k == 'call' and e[1] in ('__Pyx_NewRef', 'Py_NewRef', 'Py_XNewRef') and len(e[2]) == 1:
            return self.sym(e[2][0], env)
        return 'UNK'

    def values(self, e, env):
        if e[0] == 'tern':
            return sorted(set(self.values(e[2], env) + self.values(e[3], env)))
        return [self.sym(e, env)]

    def atom(self, e, env):
        k = e[0]
        if k in ('id', 'cast'):
            v = self.sym(e, env)
            return {'NULL': False, 'CAUSE': True, 'NONE': True}.get(v)
        if k == 'bin' and e[1] in ('==', '!='):
            a, b = self.sym(e[2], env), self.sym(e[3], env)
            eq = self.same(a, b)
            if eq is None:
                return None
            return eq if e[1] == '==' else (not eq)
        if k == 'call' and len(e[2]) == 1:
            v = self.sym(e[2][0], env)
            if e[1] == 'PyExceptionClass_Check':
                return {'CAUSE': self.kind == 'class', 'NONE': False, 'NEW': None}.get(v)
            if e[1] == 'PyExceptionInstance_Check':
                return {'CAUSE': self.kind == 'instance', 'NONE': False}.get(v)
            if e[1] == 'Py_IsNone':
                return {'CAUSE': self.kind == 'None', 'NONE': True, 'NULL': False, 'NEW': False}.get(v)
        return None

    def same(self, a, b):
        if 'UNK' in (a, b):
            return None
        if a == b and a in ('NULL', 'NONE', 'CAUSE'):
            return True
        pair = {a, b}
        if pair == {'CAUSE', 'NONE'}:
            return self.kind == 'None'
        if pair == {'CAUSE', 'NULL'} or pair == {'NULL', 'NONE'} or pair == {'NEW', 'NONE'} or pair == {'NEW', 'CAUSE'}:
            return False
        return None

    def event(self, name, args, env):
        if name == 'PyException_SetCause':
            if len(args) != 2:
                raise AnalysisError('PyException_SetCause called with %d arguments' % len(args))
            return ('setcause', self.sym(args[1], env))
        return ('raise',)


def cause_table(body, param, what='__Pyx_Raise', value_param='value'):
    """{kind: set of (raises?, (final ->cause, final ->suppress_context), how) over all paths and #if configurations}"""
    if UNMODELLED.search(body):
        raise AnalysisError('%s touches __context__ / sets attributes by name; the decision table is not modelled for that' % what)
    table = {}
    for kind in KINDS:
        outcomes = set()
        for label, text in pp_variants(body):
            cl = CauseClient(kind, param, value_param)
            for env, trace in Explorer(cl, what).run(text):
                how = tuple(('PyException_SetCause(value, %s)' % ev[1]) if ev[0] == 'setcause' else ('value->%s = %s' % (ev[1], ev[2]))
                            for ev in trace if ev[0] in ('setcause', 'store'))
                outcomes.add((any(ev[0] == 'raise' for ev in trace), fold_effect(trace), how))
        table[kind] = outcomes
    return table


def table_problems(table):
    probs = []
    for kind in KINDS:
        want = REFERENCE[kind]
        for raises, effect, how in sorted(table[kind]):
            if want == 'no-raise':
                if raises:
                    probs.append((kind, 'a cause that is neither None nor an exception class/instance must end in TypeError, but a path raises the requested exception'
                                  + (' (%s)' % '; '.join(how) if how else '')))
                continue
            if not raises:
                continue            # error exits before the exception is set: not this rule's business
            if effect != want:
                probs.append((kind, DESCR[kind] % (('; '.join(how) + ' [__cause__ %s, __suppress_context__ %s]' % (
                    {'KEEP': 'left as it was', 'NULL': 'cleared', 'NEW': '= new instance', 'CAUSE': '= the cause object'}.get(effect[0], effect[0]),
                    {'KEEP': 'left as it was', '1': 'True'}.get(effect[1], effect[1]))) if how else 'no PyException_SetCause call')))
    seen, out = set(), []
    for k, m in probs:
        if k not in seen:
            seen.add(k)
            out.append((k, m))
    return out


DESCR = {
    'absent': 'plain `raise X` (cause argument NULL) reaches the raise with %s; any SetCause call sets __suppress_context__ and hides the implicit context',
    'None': '`raise X from None` reaches the raise with %s; CPython calls PyException_SetCause(value, NULL), which sets __suppress_context__ = True and clears an existing __cause__',
    'class': '`raise X from SomeException` (a class) reaches the raise with %s; the class must be instantiated and attached as __cause__',
    'instance': '`raise X from exc` (an instance) reaches the raise with %s; the instance itself must be attached as __cause__',
}

CONTROL = '''{
    if (value == Py_None) value = 0;
    if (!PyExceptionClass_Check(type)) { PyErr_SetString(PyExc_TypeError, "bad"); goto bad; }
    if (cause && cause != Py_None) {
        PyObject *fixed_cause;
        if (PyExceptionClass_Check(cause)) {
            fixed_cause = PyObject_CallObject(cause, NULL);
            if (fixed_cause == NULL) goto bad;
        } else if (PyExceptionInstance_Check(cause)) {
            fixed_cause = cause;
            Py_INCREF(fixed_cause);
        } else {
            PyErr_SetString(PyExc_TypeError, "exception causes must derive from " "BaseException");
            goto bad;
        }
        PyException_SetCause(value, fixed_cause);
    }
    PyErr_SetObject(type, value);
bad:
    return;
}'''


def emitter_cause_args(ctx):
    """The 4th argument of every `__Pyx_Raise(` emission in Nodes.RaiseStatNode.generate_execution_code, per truth of `self.cause`:
    [(truth of self.cause, description of the value substituted, line)]"""
    ix = ctx.index
    c = ix.cls('Nodes', 'RaiseStatNode')
    fn = c.methods.get('generate_execution_code') if c else None
    if fn is None:
        raise AnalysisError('Nodes.RaiseStatNode.generate_execution_code vanished')

    def test_value(test, truth):
        """truth of a test that only asks whether self.cause is set, given that it is / is not: True / False / None (something else)"""
        core, neg = test, False
        while isinstance(core, ast.UnaryOp) and isinstance(core.op, ast.Not):
            core, neg = core.operand, not neg
        if isinstance(core, ast.Compare) and len(core.ops) == 1 and isinstance(core.comparators[0], ast.Constant) and core.comparators[0].value is None \
                and isinstance(core.ops[0], (ast.Is, ast.IsNot)):
            neg = neg != isinstance(core.ops[0], ast.Is)
            core = core.left
        if isinstance(core, ast.Attribute) and isinstance(core.value, ast.Name) and core.value.id == 'self' and core.attr == 'cause':
            return truth != neg
        return None

    def describe(v, truth):
        if isinstance(v, ast.Constant) and isinstance(v.value, str):
            return ('lit', v.value.strip())
        if isinstance(v, ast.Call) and isinstance(v.func, ast.Attribute) and v.func.attr in ('py_result', 'result') and not v.args \
                and isinstance(v.func.value, ast.Attribute) and isinstance(v.func.value.value, ast.Name) and v.func.value.value.id == 'self':
            return ('result-of', v.func.value.attr)
        if isinstance(v, ast.IfExp):
            t = test_value(v.test, truth)
            if t is not None:
                return describe(v.body if t else v.orelse, truth)
        return ('unknown', node_src(v, 60))

    def fourth_operand(call):
        """expression substituted as the 4th argument of __Pyx_Raise( in an emission call, or None"""
        for n in ast.walk(call):
            if isinstance(n, ast.BinOp) and isinstance(n.op, ast.Mod) and isinstance(n.left, ast.Constant) and isinstance(n.left.value, str) \
                    and '__Pyx_Raise(' in n.left.value:
                fmt = n.left.value
                head, tail = fmt.split('__Pyx_Raise(', 1)
                args = split_top(tail[:tail.index(')')] if ')' in tail else tail)
                if len(args) != 4:
                    raise AnalysisError('RaiseStatNode emits __Pyx_Raise with %d arguments' % len(args))
                if not re.fullmatch(r'\s*%s\s*', args[3]):
                    return ('lit', args[3].strip())
                k = head.count('%s') + sum(a.count('%s') for a in args[:3])
                ops = n.right.elts if isinstance(n.right, ast.Tuple) else [n.right]
                if k >= len(ops):
                    raise AnalysisError('RaiseStatNode: __Pyx_Raise format has more placeholders than operands')
                return ops[k]
            if isinstance(n, ast.JoinedStr):
                parts, cur = [], ''
                seen = False
                items = []
                for v in n.values:
                    if isinstance(v, ast.Constant):
                        items.append(str(v.value))
                    else:
                        items.append(v)
                text = ''.join(x if isinstance(x, str) else '\x00%d\x00' % i for i, x in enumerate(items))
                if '__Pyx_Raise(' not in text:
                    continue
                tail = text.split('__Pyx_Raise(', 1)[1]
                args = split_top(tail[:tail.index(')')] if ')' in tail else tail)
                if len(args) != 4:
                    raise AnalysisError('RaiseStatNode emits __Pyx_Raise with %d arguments' % len(args))
                m = re.fullmatch(r'\s*\x00(\d+)\x00\s*', args[3])
                if not m:
                    return ('lit', args[3].strip())
                return items[int(m.group(1))].value
        return None

    out = []
    for truth in (True, False):
        found = []

        def refine(test, t, s, truth=truth):
            v = test_value(test, truth)
            if v is not None and v != t:
                return None
            return s

        def tr(n, state, truth=truth):
            s = set(state)
            if isinstance(n, ast.Assign) and len(n.targets) == 1 and isinstance(n.targets[0], ast.Name):
                name = n.targets[0].id
                s = {f for f in s if not (f[0] == 'val' and f[1] == name)}
                s.add(('val', name, describe(n.value, truth)))
            for call in pyflow.calls_in(n):
                op = fourth_operand(call)
                if op is None:
                    continue
                if isinstance(op, tuple):
                    d = op
                elif isinstance(op, ast.Name):
                    ds = [f[2] for f in s if f[0] == 'val' and f[1] == op.id]
                    d = ds[0] if len(ds) == 1 else ('unknown', op.id)
                else:
                    d = describe(op, truth)
                found.append((d, call.lineno))
            return frozenset(s)
        pyflow.Flow(tr, refine=refine).run(fn)
        for d, line in sorted(set(found)):
            out.append((truth, d, line))
        if not found:
            raise AnalysisError('RaiseStatNode.generate_execution_code: no __Pyx_Raise( emission reachable with self.cause %s' % ('set' if truth else 'unset'))
    return c.module.rel, out


def rule_cause(ctx, floor=6):
    r = Rule('C22-CAUSE', '`raise X from C`: over the complete partition {no from-clause, None, exception class, exception instance, anything else} of the cause '
             'argument, __Pyx_Raise calls PyException_SetCause exactly as do_raise does (None -> SetCause(value, NULL): __suppress_context__ set, __cause__ cleared), '
             'and RaiseStatNode passes NULL exactly when there is no from-clause', floor)
    rel = 'Cython/Utility/Exceptions.c'
    decls = [d for d in ctx.cat.decls.get('__Pyx_Raise', []) if d.kind == 'func' and d.body]
    if len(decls) != 1:
        raise AnalysisError('expected exactly one definition of __Pyx_Raise, found %d' % len(decls))
    d = decls[0]
    names = d.param_names()
    if len(names) != 4 or not names[3]:
        raise AnalysisError('__Pyx_Raise no longer has 4 named parameters')
    table = cause_table(d.body, names[3], value_param=names[1])
    probs = dict(table_problems(table))
    for kind in KINDS:
        key = 'Exceptions.c:__Pyx_Raise:cause=%s' % kind
        r.inst(key, sample='%s: %s' % (key, sorted(table[kind])))
        if kind in probs:
            r.violate(key, 'Cython/Utility/' + d.file if not d.file.startswith('Cython') else d.file, d.line, probs[kind])
    # the emitter: NULL <=> no from clause
    prel, args = emitter_cause_args(ctx)
    if not args:
        raise AnalysisError('RaiseStatNode.generate_execution_code no longer emits __Pyx_Raise(')
    for truth, desc, line in args:
        key = 'Nodes.RaiseStatNode.generate_execution_code:__Pyx_Raise:arg4:%s' % ('from' if truth else 'no-from')
        r.inst(key, sample='%s -> %s' % (key, desc))
        if truth and desc != ('result-of', 'cause'):
            r.violate(key, prel, line, 'with a from-clause the 4th argument of __Pyx_Raise is %s %r, not the evaluated self.cause: the cause is lost or replaced' % desc)
        if not truth and not (desc[0] == 'lit' and desc[1] in ('0', 'NULL')):
            r.violate(key, prel, line, 'without a from-clause the 4th argument of __Pyx_Raise is %s %r, not NULL: __Pyx_Raise would attach a cause / set __suppress_context__' % desc)
    ctl = dict(table_problems(cause_table(CONTROL, 'cause', 'control')))
    r.positive_control('None' in ctl and len(ctl) == 1, '`if (cause && cause != Py_None)` skips SetCause(value, NULL) for `from None`')
    return r


# ======================================================================================= C22-CAUSE-SHORTCUT  (pending finding, NOT registered)
def _implies_no_cause(test, truth):
    """does `test` having the given truth value imply that self.cause is unset?"""
    if isinstance(test, ast.UnaryOp) and isinstance(test.op, ast.Not):
        return _implies_no_cause(test.operand, not truth)
    if isinstance(test, ast.BoolOp):
        if (isinstance(test.op, ast.And) and truth) or (isinstance(test.op, ast.Or) and not truth):
            return any(_implies_no_cause(v, truth) for v in test.values)
        return False
    if isinstance(test, ast.Compare) and len(test.ops) == 1 and isinstance(test.comparators[0], ast.Constant) and test.comparators[0].value is None:
        if isinstance(test.left, ast.Attribute) and test.left.attr == 'cause' and isinstance(test.left.value, ast.Name) and test.left.value.id == 'self':
            return (isinstance(test.ops[0], ast.Is) and truth) or (isinstance(test.ops[0], ast.IsNot) and not truth)
        return False
    if isinstance(test, ast.Attribute) and test.attr == 'cause' and isinstance(test.value, ast.Name) and test.value.id == 'self':
        return not truth
    return False


def shortcut_problems(cls_node):
    """RaiseStatNode-shaped class: attributes that switch generate_execution_code to an emission without __Pyx_Raise must only be set when there is no from-clause.
    -> (instances, problems [(key, line, message)])"""
    methods = {n.name: n for n in cls_node.body if isinstance(n, ast.FunctionDef)}
    gen = methods.get('generate_execution_code')
    if gen is None:
        raise AnalysisError('generate_execution_code vanished')
    # attributes tested on paths that return before the __Pyx_Raise emission
    switches = set()
    for st in gen.body:
        if isinstance(st, ast.If):
            chain = [st]
            while chain:
                cur = chain.pop()
                has_ret = any(isinstance(x, ast.Return) for x in ast.walk(ast.Module(body=cur.body, type_ignores=[])))
                emits = any(isinstance(x, ast.Constant) and isinstance(x.value, str) and '__Pyx_Raise(' in x.value for x in ast.walk(ast.Module(body=cur.body, type_ignores=[])))
                if has_ret and not emits:
                    negated = {id(x.operand) for x in ast.walk(cur.test) if isinstance(x, ast.UnaryOp) and isinstance(x.op, ast.Not)}
                    for x in ast.walk(cur.test):
                        if isinstance(x, ast.Attribute) and isinstance(x.value, ast.Name) and x.value.id == 'self' and x.attr != 'cause':
                            switches.add((x.attr, 'falsy' if id(x) in negated else 'truthy'))
                chain += [o for o in cur.orelse if isinstance(o, ast.If)]
        if any(isinstance(x, ast.Constant) and isinstance(x.value, str) and '__Pyx_Raise(' in x.value for x in ast.walk(st)):
            break
    insts, probs = [], []

    def visit(stmts, guards, fname):
        for st in stmts:
            if isinstance(st, ast.If):
                visit(st.body, guards + [(st.test, True)], fname)
                visit(st.orelse, guards + [(st.test, False)], fname)
            elif isinstance(st, (ast.For, ast.While, ast.With, ast.Try)):
                for fld in ('body', 'orelse', 'finalbody'):
                    visit(getattr(st, fld, []) or [], guards, fname)
            elif isinstance(st, ast.Assign):
                for t in st.targets:
                    if isinstance(t, ast.Attribute) and isinstance(t.value, ast.Name) and t.value.id == 'self':
                        kind = 'falsy' if (isinstance(st.value, ast.Constant) and not st.value.value) else 'truthy'
                        if (t.attr, kind) not in switches:
                            continue            # this value does not enable a shortcut
                        key = '%s:self.%s' % (fname, t.attr)
                        insts.append(key)
                        if not any(_implies_no_cause(g, tr) for g, tr in guards):
                            probs.append((key, st.lineno, '%s sets self.%s, which makes generate_execution_code raise without __Pyx_Raise() (PyErr_NoMemory / error-without-exception return), '
                                          'also when the statement has a from-clause: `raise MemoryError from exc` loses the cause (__cause__ is None)' % (fname, t.attr)))
    for name, fn in methods.items():
        if name != 'generate_execution_code':
            visit(fn.body, [], name)
    return switches, insts, probs


# pending finding (FINDING_1 of /tmp/strengthen4/G6): reports RaiseStatNode.analyse_expressions on the unmodified tree — NOT registered in props/C22.run()
def rule_cause_shortcut(ctx, floor=1):
    r = Rule('C22-CAUSE-SHORTCUT', 'RaiseStatNode: the attributes that switch code generation to a raise that bypasses __Pyx_Raise() (the only place where a cause is attached) are set only '
             'under a test that the statement has no from-clause', floor)
    c = ctx.index.cls('Nodes', 'RaiseStatNode')
    if c is None:
        raise AnalysisError('Nodes.RaiseStatNode vanished')
    switches, insts, probs = shortcut_problems(c.node)
    if not switches:
        raise AnalysisError('RaiseStatNode.generate_execution_code has no shortcut that returns before emitting __Pyx_Raise(')
    for k in insts:
        r.inst('Nodes.RaiseStatNode.' + k, sample=k)
    for key, line, msg in probs:
        r.violate('Nodes.RaiseStatNode.' + key, c.module.rel, line, msg)
    return r
