"""C35 round 10 (batch 12, seed C35o): a *managed* temp is never left dangling.

C35-MGDCLEAR.  A temp allocated with `allocate_temp(<type>, manage_ref=True)` is known to the error cleanup of the C function
(`all_managed_temps()` -> `__Pyx_XDECREF` at the error label) and to the try/except temp cleanup.  So whenever generated code gives up the
reference held in such a temp, the variable must not keep the stale pointer: the release has to be a clearing one (`put_decref_clear` /
`put_xdecref_clear`), or the plain `put_decref` / `put_xdecref` must be followed directly by an emitted assignment to the same temp
(`code.putln('%s = %s;' % (temp, ...))` - the decref-then-overwrite idiom of the starred-unpacking code).  Otherwise a later jump to the
error label releases the object a second time (seed C35o: `put_decref_clear(iterator_temp)` -> `put_decref(iterator_temp)` in front of
the failed-unpack `goto error`; SIGSEGV on `a, b, c = iter_too_short`).

Instances are inferred: every local name bound from an allocate_temp(..., manage_ref=True) call in a code-generating function, and every
decref emission that names it.
"""
import ast

from ..core import Rule, AnalysisError
from .gen import gen_functions

MODULES = ('Nodes', 'ExprNodes', 'ModuleNode', 'UtilNodes', 'FusedNode', 'MatchCaseNodes', 'Optimize')
PLAIN = {'put_decref', 'put_xdecref'}
CLEAR = {'put_decref_clear', 'put_xdecref_clear'}


def managed_locals(fn):
    out = {}
    for n in ast.walk(fn):
        if isinstance(n, ast.Assign) and len(n.targets) == 1 and isinstance(n.targets[0], ast.Name) and isinstance(n.value, ast.Call):
            f = n.value.func
            if isinstance(f, ast.Attribute) and f.attr == 'allocate_temp':
                for kw in n.value.keywords:
                    if kw.arg == 'manage_ref' and isinstance(kw.value, ast.Constant) and kw.value.value is True:
                        out[n.targets[0].id] = n.lineno
    return out


def _assigns_temp(stmt, name):
    """stmt is `code.putln(<text> % (name, ...))` / f-string whose text starts with an assignment to the temp"""
    if not (isinstance(stmt, ast.Expr) and isinstance(stmt.value, ast.Call) and isinstance(stmt.value.func, ast.Attribute) and stmt.value.func.attr in ('putln', 'put')):
        return False
    if not stmt.value.args:
        return False
    a = stmt.value.args[0]
    if isinstance(a, ast.BinOp) and isinstance(a.op, ast.Mod) and isinstance(a.left, ast.Constant) and isinstance(a.left.value, str):
        first = a.right.elts[0] if isinstance(a.right, ast.Tuple) and a.right.elts else a.right
        return a.left.value.lstrip().startswith('%s = ') and isinstance(first, ast.Name) and first.id == name
    if isinstance(a, ast.JoinedStr) and len(a.values) >= 2:
        v0, v1 = a.values[0], a.values[1]
        return isinstance(v0, ast.FormattedValue) and isinstance(v0.value, ast.Name) and v0.value.id == name and \
            isinstance(v1, ast.Constant) and isinstance(v1.value, str) and v1.value.startswith(' = ')
    return False


def sites(fn, names):
    """[(call node, temp, kind, next sibling statement or None)]"""
    out = []
    for n in ast.walk(fn):
        for field in ('body', 'orelse', 'finalbody'):
            b = getattr(n, field, None)
            if not (isinstance(b, list) and b and isinstance(b[0], ast.stmt)):
                continue
            for i, s in enumerate(b):
                if isinstance(s, ast.Expr) and isinstance(s.value, ast.Call) and isinstance(s.value.func, ast.Attribute) and s.value.func.attr in PLAIN | CLEAR:
                    c = s.value
                    if c.args and isinstance(c.args[0], ast.Name) and c.args[0].id in names:
                        out.append((c, c.args[0].id, 'clear' if c.func.attr in CLEAR else 'plain', b[i + 1] if i + 1 < len(b) else None))
    return out


CONTROL_BAD = """
def g(self, code):
    t = code.funcstate.allocate_temp(py_object_type, manage_ref=True)
    code.put_decref(t, py_object_type)
    code.put_goto(code.error_label)
"""
CONTROL_OK = """
def g(self, code):
    t = code.funcstate.allocate_temp(py_object_type, manage_ref=True)
    code.put_decref(t, py_object_type)
    code.putln('%s = %s; %s = NULL;' % (t, u, u))
    code.put_decref_clear(t, py_object_type)
"""


def _bad(fn):
    return [(c, t) for c, t, kind, nxt in sites(fn, managed_locals(fn)) if kind == 'plain' and not (nxt is not None and _assigns_temp(nxt, t))]


def rule_mgdclear(ctx, floor=8):
    r = Rule('C35-MGDCLEAR', 'a temp allocated with manage_ref=True (released again by the error cleanup of the C function) is given up only by a clearing decref, or by a plain '
             'decref directly followed by an emitted assignment to the same temp - never left holding a released pointer', floor)
    nfn = 0
    for m, qn, owner, fn in gen_functions(ctx, MODULES):
        names = managed_locals(fn)
        if not names:
            continue
        nfn += 1
        ss = sites(fn, names)
        bad = {id(c) for c, t in _bad(fn)}
        for k, (c, t, kind, nxt) in enumerate(ss):
            key = '%s.%s:%s#%d' % (m.short, qn, t, k)
            r.inst(key, sample='%s.%s: %s(%s) %s' % (m.short, qn, c.func.attr, t, 'clears' if kind == 'clear' else 'then overwrites' if id(c) not in bad else 'LEAVES the pointer'))
            if id(c) in bad:
                r.violate('%s.%s:%s' % (m.short, qn, t), m.rel, c.lineno,
                          '%s emits %s(%s) for a managed temp (allocate_temp(..., manage_ref=True), line %d) without clearing or overwriting it: the variable keeps the released '
                          'pointer and the error cleanup of the function (XDECREF of all managed temps) releases the object a second time when an error exit follows'
                          % (qn, c.func.attr, t, names[t]))
    if nfn == 0:
        raise AnalysisError('no code-generating function allocates a managed temp into a local (allocate_temp(..., manage_ref=True) not found)')
    r.positive_control(bool(_bad(ast.parse(CONTROL_BAD).body[0])) and not _bad(ast.parse(CONTROL_OK).body[0]),
                       'plain put_decref of a managed temp in front of a goto is matched; decref-then-overwrite and decref_clear are not')
    return r


def rules(ctx):
    return [rule_mgdclear(ctx)]
