"""C17-DIMS: every C for-loop over the dimensions of a buffer (header mentions ndim) covers all of [0, ndim)."""
import re

from ..core import Rule, AnalysisError
from ..engine.cutil import strip_c_comments, match_paren

FILES = ('Cython/Utility/MemoryView_C.c', 'Cython/Utility/Buffer.c')


def _norm(s):
    return re.sub(r'\s+', '', s)


def loop_range(init, cond, step):
    """-> (lowest index, highest index expr, why) in terms of N (the ndim expression), or None when the form is not a
    simple counted loop over N."""
    init, cond, step = _norm(init), _norm(cond), _norm(step)
    m = re.fullmatch(r'(?:\w+\s*)?(\w+)=(.+)', init)
    if not m:
        return None
    v, start = m.group(1), m.group(2)
    up = step in (v + '++', '++' + v, v + '+=1')
    down = step in (v + '--', '--' + v, v + '-=1')
    if up:
        c = re.fullmatch(r'%s(<=?)(.+)' % re.escape(v), cond)
        if not c or not re.fullmatch(r'-?\d+', start):
            return None
        n = c.group(2)
        if 'ndim' not in n:
            return None
        hi = n + '-1' if c.group(1) == '<' else n
        if hi.endswith('-1-1'):
            pass
        return int(start), hi, n
    if down:
        c = re.fullmatch(r'%s(>=?)(-?\d+)' % re.escape(v), cond)
        if not c or 'ndim' not in start:
            return None
        lo = int(c.group(2)) + (1 if c.group(1) == '>' else 0)
        n = start[:-2] if start.endswith('-1') else start + '+1'
        return lo, start, n
    return None


def rule_dims(ctx, floor=10):
    r = Rule('C17-DIMS', 'every counted C loop over the dimensions of a buffer / memoryview (for-header mentions ndim) visits all of '
             '[0, ndim): a skipped dimension is never validated / copied', floor)
    for rel in FILES:
        text = strip_c_comments(ctx.read(rel))
        for m in re.finditer(r'\bfor\s*\(', text):
            p = m.end() - 1
            q = match_paren(text, p)
            hdr = text[p + 1:q]
            if 'ndim' not in hdr or hdr.count(';') != 2:
                continue
            init, cond, step = hdr.split(';')
            line = text.count('\n', 0, m.start()) + 1
            # enclosing function name for a stable key
            fn = None
            for fm in re.finditer(r'^[A-Za-z_][^;{}()#]*?\b([A-Za-z_]\w*)\s*\([^;{}]*\)\s*\{', text[:m.start()], re.M):
                fn = fm.group(1)
            k0 = '%s:%s:for(%s)' % (rel.rsplit('/', 1)[1], fn, _norm(hdr))
            rng = loop_range(init, cond, step)
            if rng is None:
                r.info('%s:%d loop form not recognised: for(%s)' % (rel, line, ' '.join(hdr.split())))
                continue
            lo, hi, n = rng
            key = '%s:%s:%s#%d' % (rel.rsplit('/', 1)[1], fn, 'up' if _norm(step).find('+') >= 0 else 'down',
                                   sum(1 for s in r.samples if s.startswith('%s:%s:' % (rel.rsplit('/', 1)[1], fn))))
            r.inst(key, sample='%s: for(%s) covers [%d, %s]' % (key, ' '.join(hdr.split()), lo, hi))
            full_hi = _norm(hi) in (n + '-1',)
            if lo != 0 or not full_hi:
                r.violate(key, rel, line, 'loop `for (%s)` in %s visits dimensions [%d, %s] instead of [0, %s-1]: dimension(s) %s skipped' % (
                    ' '.join(hdr.split()), fn, lo, hi, n, '0..%d' % (lo - 1) if lo > 0 else 'at the top'))
    pc = loop_range('i = ndim - 1', 'i > 0', 'i--')
    pc2 = loop_range('i = ndim - 1', 'i >- 1', 'i--')
    pc3 = loop_range('i = 0', 'i < a->ndim', 'i++')
    r.positive_control(pc is not None and pc[0] == 1 and pc2 is not None and pc2[0] == 0 and pc3 == (0, 'a->ndim-1', 'a->ndim'), 'i > 0 gives lowest index 1; i >- 1 gives 0')
    return r
